//! Independent VCF text writer / splitter, written from the VCF 4.x specification (not from
//! noodles): percent-encoding, `to_vcf_line`, `to_vcf_header`, a column splitter that turns an
//! emitted line back into a `RecDesc` given the header description, and `span`.

use crate::model::*;

/// Characters that carry meaning somewhere in a data line and therefore must be written with the
/// capitalised percent encoding (VCF 4.3 section 1.2): `% : ; = ,` CR LF TAB. All of them are
/// encoded in INFO and in FORMAT values alike (a superset of what each column strictly needs).
pub const RESERVED: &[char] = &['%', ':', ';', '=', ',', '\r', '\n', '\t'];

pub fn percent_encode(s: &str) -> String {
    if s == "." {
        return "%2E".to_string();
    }
    let mut out = String::with_capacity(s.len());
    for c in s.chars() {
        if RESERVED.contains(&c) || (c as u32) < 0x20 || c as u32 == 0x7f {
            out.push_str(&format!("%{:02X}", c as u32));
        } else {
            out.push(c);
        }
    }
    out
}

fn hexval(b: u8) -> Option<u8> {
    match b {
        b'0'..=b'9' => Some(b - b'0'),
        b'a'..=b'f' => Some(b - b'a' + 10),
        b'A'..=b'F' => Some(b - b'A' + 10),
        _ => None,
    }
}

/// `%XX` -> byte; a `%` that is not followed by two hex digits stays as it is. `None` if the result
/// is not UTF-8.
pub fn percent_decode(s: &str) -> Option<String> {
    let b = s.as_bytes();
    let mut out = Vec::with_capacity(b.len());
    let mut i = 0;
    while i < b.len() {
        if b[i] == b'%' && i + 2 < b.len() {
            if let (Some(h), Some(l)) = (hexval(b[i + 1]), hexval(b[i + 2])) {
                out.push(h * 16 + l);
                i += 3;
                continue;
            }
        }
        out.push(b[i]);
        i += 1;
    }
    String::from_utf8(out).ok()
}

pub fn float_text(bits: u32) -> String {
    let f = f32::from_bits(bits);
    if f.is_nan() {
        "NaN".into()
    } else if f.is_infinite() {
        if f > 0.0 { "inf".into() } else { "-inf".into() }
    } else {
        // shortest decimal that round-trips (Rust's float formatting), never in exponent form
        format!("{f}")
    }
}

/// The phasing the first allele of a genotype has when it is not written (VCF 4.4 section on GT):
/// phased iff every other allele is phased (a haploid call is phased).
pub fn implied_first_phasing(g: &[GtAllele]) -> bool {
    g.iter().skip(1).all(|a| a.phased)
}

pub fn gt_text(g: &[GtAllele], fileformat: (u32, u32)) -> String {
    let mut s = String::new();
    for (i, a) in g.iter().enumerate() {
        if i == 0 {
            if fileformat >= (4, 4) && a.phased != implied_first_phasing(g) {
                s.push(if a.phased { '|' } else { '/' });
            }
        } else {
            s.push(if a.phased { '|' } else { '/' });
        }
        match a.allele {
            Some(n) => s.push_str(&n.to_string()),
            None => s.push('.'),
        }
    }
    s
}

fn join_opt<T>(v: &[Option<T>], f: impl Fn(&T) -> String) -> String {
    v.iter().map(|e| e.as_ref().map(&f).unwrap_or_else(|| ".".to_string())).collect::<Vec<_>>().join(",")
}

pub fn char_text(c: char) -> String {
    if c == '.' {
        "%2E".into()
    } else {
        percent_encode(&c.to_string())
    }
}

pub fn val_text(v: &Val, fileformat: (u32, u32)) -> String {
    match v {
        Val::Flag => String::new(),
        Val::Int(n) => n.to_string(),
        Val::Float(b) => float_text(*b),
        Val::Char(c) => char_text(*c),
        Val::Str(s) => percent_encode(s),
        Val::Ints(a) => join_opt(a, |n| n.to_string()),
        Val::Floats(a) => join_opt(a, |b| float_text(*b)),
        Val::Chars(a) => join_opt(a, |c| char_text(*c)),
        Val::Strs(a) => join_opt(a, |s| percent_encode(s)),
        Val::Gt(g) => gt_text(g, fileformat),
    }
}

/// The data line of `r` (with the trailing LF), written from the specification.
pub fn to_vcf_line(r: &RecDesc, h: &HeaderDesc) -> Vec<u8> {
    let ff = h.fileformat;
    let mut cols: Vec<String> = Vec::new();
    cols.push(r.chrom.clone());
    cols.push(r.pos.to_string());
    cols.push(if r.ids.is_empty() { ".".into() } else { r.ids.join(";") });
    cols.push(r.reference.clone());
    cols.push(if r.alts.is_empty() { ".".into() } else { r.alts.join(",") });
    cols.push(match r.qual {
        None => ".".into(),
        Some(b) => float_text(b),
    });
    cols.push(if r.filters.is_empty() { ".".into() } else { r.filters.join(";") });
    if r.info.is_empty() {
        cols.push(".".into());
    } else {
        let mut parts = Vec::new();
        for (k, v) in &r.info {
            match v {
                None => parts.push(format!("{k}=.")),
                Some(Val::Flag) => parts.push(k.clone()),
                Some(v) => parts.push(format!("{k}={}", val_text(v, ff))),
            }
        }
        cols.push(parts.join(";"));
    }
    if !r.samples.is_empty() {
        cols.push(r.format.join(":"));
        for row in &r.samples {
            let mut vals: Vec<String> = Vec::new();
            for fi in 0..r.format.len() {
                match row.get(fi).and_then(|v| v.as_ref()) {
                    None => vals.push(".".into()),
                    Some(v) => vals.push(val_text(v, ff)),
                }
            }
            // trailing missing values may be dropped, the first one has to stay
            while vals.len() > 1 && vals.last().map(|s| s == ".").unwrap_or(false) && row.len() < vals.len() {
                vals.pop();
            }
            cols.push(vals.join(":"));
        }
    }
    let mut line = cols.join("\t").into_bytes();
    line.push(b'\n');
    line
}

fn quote(s: &str) -> String {
    let mut out = String::from("\"");
    for c in s.chars() {
        if c == '"' || c == '\\' {
            out.push('\\');
        }
        out.push(c);
    }
    out.push('"');
    out
}

/// The header text (meta lines grouped INFO, FILTER, FORMAT, ALT, contig, others; then `#CHROM`).
pub fn to_vcf_header(h: &HeaderDesc) -> String {
    let mut s = format!("##fileformat=VCFv{}.{}\n", h.fileformat.0, h.fileformat.1);
    let extra = |e: &[(String, String)]| e.iter().map(|(k, v)| format!(",{k}={}", quote(v))).collect::<String>();
    let idx = |i: &Option<usize>| i.map(|n| format!(",IDX={n}")).unwrap_or_default();
    for d in &h.infos {
        s.push_str(&format!("##INFO=<ID={},Number={},Type={},Description={}{}{}>\n", d.id, d.num.text(), d.ty.text(), quote(&d.desc), extra(&d.extra), idx(&d.idx)));
    }
    for d in &h.filters {
        s.push_str(&format!("##FILTER=<ID={},Description={}{}{}>\n", d.id, quote(&d.desc), extra(&d.extra), idx(&d.idx)));
    }
    for d in &h.formats {
        s.push_str(&format!("##FORMAT=<ID={},Number={},Type={},Description={}{}{}>\n", d.id, d.num.text(), d.ty.text(), quote(&d.desc), extra(&d.extra), idx(&d.idx)));
    }
    for d in &h.alts {
        s.push_str(&format!("##ALT=<ID={},Description={}{}>\n", d.id, quote(&d.desc), extra(&d.extra)));
    }
    for d in &h.contigs {
        s.push_str(&format!("##contig=<ID={}", d.id));
        if let Some(n) = d.length {
            s.push_str(&format!(",length={n}"));
        }
        if let Some(m) = &d.md5 {
            s.push_str(&format!(",md5={m}"));
        }
        if let Some(u) = &d.url {
            s.push_str(&format!(",URL={u}"));
        }
        s.push_str(&extra(&d.extra));
        s.push_str(&idx(&d.idx));
        s.push_str(">\n");
    }
    for l in &h.others {
        match l {
            OtherLine::Unstructured { key, value } => s.push_str(&format!("##{key}={value}\n")),
            OtherLine::Structured { key, id, fields } => {
                s.push_str(&format!("##{key}=<ID={id}"));
                for (k, v) in fields {
                    if key == "META" && matches!(k.as_str(), "Number" | "Type" | "Values") {
                        s.push_str(&format!(",{k}={v}"));
                    } else {
                        s.push_str(&format!(",{k}={}", quote(v)));
                    }
                }
                s.push_str(">\n");
            }
        }
    }
    s.push_str("#CHROM\tPOS\tID\tREF\tALT\tQUAL\tFILTER\tINFO");
    if !h.samples.is_empty() {
        s.push_str("\tFORMAT");
        for n in &h.samples {
            s.push('\t');
            s.push_str(n);
        }
    }
    s.push('\n');
    s
}

/// One `##key=<...>` line split by an independent reader: `(key, Some(fields))` for a structured
/// line (quotes removed, `\"` and `\\` unescaped; the bool tells whether the value was quoted),
/// `(key, None)` + raw value for an unstructured one.
#[derive(Clone, Debug, PartialEq)]
pub enum MetaLine {
    Structured { key: String, fields: Vec<(String, String, bool)> },
    Unstructured { key: String, value: String },
}

pub fn split_meta_line(line: &str, fileformat: (u32, u32)) -> Result<MetaLine, String> {
    let rest = line.strip_prefix("##").ok_or("no ## prefix")?;
    let (key, value) = rest.split_once('=').ok_or("no '=' in meta line")?;
    let structured = value.starts_with('<') && (fileformat >= (4, 3) || value.contains("ID=") || matches!(key, "INFO" | "FILTER" | "FORMAT" | "ALT" | "contig" | "META" | "PEDIGREE" | "SAMPLE"));
    if !structured {
        return Ok(MetaLine::Unstructured { key: key.into(), value: value.into() });
    }
    let inner = value.strip_prefix('<').and_then(|v| v.strip_suffix('>')).ok_or("structured line without <...>")?;
    let b: Vec<char> = inner.chars().collect();
    let mut fields = Vec::new();
    let mut i = 0;
    while i < b.len() {
        let mut k = String::new();
        while i < b.len() && b[i] != '=' {
            k.push(b[i]);
            i += 1;
        }
        if i >= b.len() {
            return Err(format!("field {k:?} without '='"));
        }
        i += 1; // '='
        let mut v = String::new();
        let mut quoted = false;
        if i < b.len() && b[i] == '"' {
            quoted = true;
            i += 1;
            loop {
                if i >= b.len() {
                    return Err("unterminated quoted string".into());
                }
                match b[i] {
                    '\\' => {
                        if i + 1 >= b.len() {
                            return Err("dangling backslash".into());
                        }
                        v.push(b[i + 1]);
                        i += 2;
                    }
                    '"' => {
                        i += 1;
                        break;
                    }
                    c => {
                        v.push(c);
                        i += 1;
                    }
                }
            }
        } else if i < b.len() && b[i] == '[' && key == "META" {
            while i < b.len() && b[i] != ']' {
                v.push(b[i]);
                i += 1;
            }
            if i < b.len() {
                v.push(']');
                i += 1;
            }
        } else {
            while i < b.len() && b[i] != ',' {
                v.push(b[i]);
                i += 1;
            }
        }
        fields.push((k, v, quoted));
        if i < b.len() {
            if b[i] != ',' {
                return Err(format!("expected ',' at offset {i}"));
            }
            i += 1;
        }
    }
    Ok(MetaLine::Structured { key: key.into(), fields })
}

/// Rebuilds a `HeaderDesc` from header text with the independent splitter above.
pub fn header_from_text(text: &str) -> Result<HeaderDesc, String> {
    let mut lines = text.split('\n').collect::<Vec<_>>();
    if lines.last() == Some(&"") {
        lines.pop();
    } else {
        return Err("header text does not end with LF".into());
    }
    let first = lines.first().ok_or("empty header")?;
    let v = first.strip_prefix("##fileformat=VCFv").ok_or("first line is not ##fileformat")?;
    let (ma, mi) = v.split_once('.').ok_or("bad fileformat")?;
    let ff = (ma.parse::<u32>().map_err(|e| e.to_string())?, mi.parse::<u32>().map_err(|e| e.to_string())?);
    let mut h = HeaderDesc { fileformat: ff, infos: vec![], filters: vec![], formats: vec![], alts: vec![], contigs: vec![], others: vec![], samples: vec![] };
    let n = lines.len();
    for (li, line) in lines.iter().enumerate().skip(1) {
        if li == n - 1 {
            let cols: Vec<&str> = line.split('\t').collect();
            let fixed = ["#CHROM", "POS", "ID", "REF", "ALT", "QUAL", "FILTER", "INFO"];
            if cols.len() < 8 || cols[..8] != fixed {
                return Err(format!("bad column line {line:?}"));
            }
            if cols.len() > 8 {
                if cols[8] != "FORMAT" || cols.len() == 9 {
                    return Err(format!("bad column line {line:?}"));
                }
                h.samples = cols[9..].iter().map(|s| s.to_string()).collect();
            }
            continue;
        }
        let take = |fields: &mut Vec<(String, String, bool)>, k: &str| -> Option<String> {
            let p = fields.iter().position(|f| f.0 == k)?;
            Some(fields.remove(p).1)
        };
        match split_meta_line(line, ff)? {
            MetaLine::Unstructured { key, value } => h.others.push(OtherLine::Unstructured { key, value }),
            MetaLine::Structured { key, mut fields } => {
                let id = take(&mut fields, "ID").ok_or_else(|| format!("no ID in {line:?}"))?;
                let num = |s: &str| -> Result<Num, String> {
                    Ok(match s {
                        "A" => Num::A,
                        "R" => Num::R,
                        "G" => Num::G,
                        "." => Num::Dot,
                        "LA" => Num::LA,
                        "LR" => Num::LR,
                        "LG" => Num::LG,
                        "P" => Num::P,
                        "M" => Num::M,
                        n => Num::Count(n.parse().map_err(|_| format!("bad Number {n:?}"))?),
                    })
                };
                let ty = |s: &str| -> Result<Ty, String> {
                    Ok(match s {
                        "Flag" => Ty::Flag,
                        "Integer" => Ty::Integer,
                        "Float" => Ty::Float,
                        "Character" => Ty::Character,
                        "String" => Ty::String,
                        t => return Err(format!("bad Type {t:?}")),
                    })
                };
                let pidx = |s: Option<String>| -> Result<Option<usize>, String> { s.map(|v| v.parse::<usize>().map_err(|_| format!("bad IDX {v:?}"))).transpose() };
                let rest = |f: Vec<(String, String, bool)>| f.into_iter().map(|(k, v, _)| (k, v)).collect::<Vec<_>>();
                match key.as_str() {
                    "INFO" | "FORMAT" => {
                        let d = FieldDef {
                            id,
                            num: num(&take(&mut fields, "Number").ok_or("no Number")?)?,
                            ty: ty(&take(&mut fields, "Type").ok_or("no Type")?)?,
                            desc: take(&mut fields, "Description").ok_or("no Description")?,
                            idx: pidx(take(&mut fields, "IDX"))?,
                            extra: rest(fields),
                        };
                        if key == "INFO" { h.infos.push(d) } else { h.formats.push(d) }
                    }
                    "FILTER" => h.filters.push(FilterDef { id, desc: take(&mut fields, "Description").ok_or("no Description")?, idx: pidx(take(&mut fields, "IDX"))?, extra: rest(fields) }),
                    "ALT" => h.alts.push(AltDef { id, desc: take(&mut fields, "Description").ok_or("no Description")?, extra: rest(fields) }),
                    "contig" => h.contigs.push(ContigDef {
                        id,
                        length: take(&mut fields, "length").map(|v| v.parse::<usize>().map_err(|_| format!("bad length {v:?}"))).transpose()?,
                        md5: take(&mut fields, "md5"),
                        url: take(&mut fields, "URL"),
                        idx: pidx(take(&mut fields, "IDX"))?,
                        extra: rest(fields),
                    }),
                    _ => h.others.push(OtherLine::Structured { key, id, fields: rest(fields) }),
                }
            }
        }
    }
    Ok(h)
}

/// Definition of the reserved keys the generators use without declaring them in the header
/// (VCF 4.3+ specification tables). Nothing is assumed for 4.2 files.
pub fn reserved_def(fileformat: (u32, u32), key: &str, info: bool) -> Option<(Num, Ty)> {
    if fileformat < (4, 3) {
        return None;
    }
    if info {
        Some(match key {
            "END" | "DP" | "NS" | "AN" => (Num::Count(1), Ty::Integer),
            "SVLEN" => (if fileformat >= (4, 4) { Num::A } else { Num::Dot }, Ty::Integer),
            "AF" => (Num::A, Ty::Float),
            "AC" => (Num::A, Ty::Integer),
            "DB" | "IMPRECISE" | "SOMATIC" => (Num::Count(0), Ty::Flag),
            "AA" | "SVTYPE" => (Num::Count(1), Ty::String),
            "MQ" => (Num::Count(1), Ty::Float),
            _ => return None,
        })
    } else {
        Some(match key {
            "GT" | "FT" => (Num::Count(1), Ty::String),
            "DP" | "GQ" | "PS" | "MQ" => (Num::Count(1), Ty::Integer),
            "AD" => (Num::R, Ty::Integer),
            "PL" => (Num::G, Ty::Integer),
            "GL" => (Num::G, Ty::Float),
            "HQ" => (Num::Count(2), Ty::Integer),
            "LEN" if fileformat >= (4, 5) => (Num::Count(1), Ty::Integer),
            _ => return None,
        })
    }
}

/// How a value of definition `(num, ty)` is shaped: scalar or array.
fn parse_typed(raw: &str, num: Num, ty: Ty) -> Result<Option<Val>, String> {
    if raw == "." {
        return Ok(None);
    }
    let pi = |t: &str| t.parse::<i32>().map_err(|_| format!("bad integer {t:?}"));
    let pf = |t: &str| t.parse::<f32>().map(|f| f.to_bits()).map_err(|_| format!("bad float {t:?}"));
    let pc = |t: &str| -> Result<char, String> {
        let d = percent_decode(t).ok_or("non UTF-8 character")?;
        let mut it = d.chars();
        match (it.next(), it.next()) {
            (Some(c), None) => Ok(c),
            _ => Err(format!("bad character {t:?}")),
        }
    };
    let ps = |t: &str| percent_decode(t).ok_or_else(|| "non UTF-8 string".to_string());
    fn arr<T>(raw: &str, f: impl Fn(&str) -> Result<T, String>) -> Result<Vec<Option<T>>, String> {
        raw.split(',').map(|t| if t == "." { Ok(None) } else { f(t).map(Some) }).collect()
    }
    Ok(Some(match (num.is_scalar(), ty) {
        (_, Ty::Flag) => return Err("flag with a value".into()),
        (true, Ty::Integer) => Val::Int(pi(raw)?),
        (true, Ty::Float) => Val::Float(pf(raw)?),
        (true, Ty::Character) => Val::Char(pc(raw)?),
        (true, Ty::String) => Val::Str(ps(raw)?),
        (false, Ty::Integer) => Val::Ints(arr(raw, pi)?),
        (false, Ty::Float) => Val::Floats(arr(raw, pf)?),
        (false, Ty::Character) => Val::Chars(arr(raw, pc)?),
        (false, Ty::String) => Val::Strs(arr(raw, ps)?),
    }))
}

pub fn parse_gt(raw: &str) -> Result<Vec<GtAllele>, String> {
    let mut out: Vec<(Option<u32>, Option<bool>)> = Vec::new();
    let mut cur = String::new();
    let mut sep: Option<bool> = None;
    let flush = |cur: &mut String, sep: Option<bool>, out: &mut Vec<(Option<u32>, Option<bool>)>| -> Result<(), String> {
        let a = if cur == "." { None } else { Some(cur.parse::<u32>().map_err(|_| format!("bad allele {cur:?}"))?) };
        out.push((a, sep));
        cur.clear();
        Ok(())
    };
    for (i, c) in raw.chars().enumerate() {
        if c == '/' || c == '|' {
            if i == 0 {
                sep = Some(c == '|');
                continue;
            }
            flush(&mut cur, sep, &mut out)?;
            sep = Some(c == '|');
        } else {
            cur.push(c);
        }
    }
    flush(&mut cur, sep, &mut out)?;
    let mut g: Vec<GtAllele> = out.iter().map(|(a, p)| GtAllele { allele: *a, phased: p.unwrap_or(false) }).collect();
    if out[0].1.is_none() {
        g[0].phased = implied_first_phasing(&g);
    }
    Ok(g)
}

/// Splits an emitted data line on TAB and rebuilds the description column by column, typing INFO
/// and FORMAT values through the header *description*. Keys the header does not define are read as
/// `String` (or `Flag` when there is no `=`). The line must end with LF.
pub fn rec_from_line(line: &[u8], h: &HeaderDesc) -> Result<RecDesc, String> {
    let reserved = |k: &str, info: bool| reserved_def(h.fileformat, k, info);
    let s = std::str::from_utf8(line).map_err(|_| "line is not UTF-8".to_string())?;
    let s = s.strip_suffix('\n').ok_or("line does not end with LF")?;
    if s.contains('\n') || s.contains('\r') {
        return Err("raw CR/LF inside the line".into());
    }
    let cols: Vec<&str> = s.split('\t').collect();
    let want = if h.samples.is_empty() { 8 } else { 9 + h.samples.len() };
    if cols.len() != want {
        return Err(format!("{} TAB-separated columns, expected {want}", cols.len()));
    }
    let list = |c: &str, sep: char| -> Vec<String> { if c == "." { vec![] } else { c.split(sep).map(String::from).collect() } };
    let mut r = RecDesc {
        chrom: cols[0].into(),
        pos: cols[1].parse::<u64>().map_err(|_| format!("bad POS {:?}", cols[1]))?,
        ids: list(cols[2], ';'),
        reference: cols[3].into(),
        alts: list(cols[4], ','),
        qual: if cols[5] == "." { None } else { Some(cols[5].parse::<f32>().map_err(|_| format!("bad QUAL {:?}", cols[5]))?.to_bits()) },
        filters: list(cols[6], ';'),
        info: vec![],
        format: vec![],
        samples: vec![],
    };
    if cols[7] != "." {
        for f in cols[7].split(';') {
            let (k, raw) = match f.split_once('=') {
                Some((k, v)) => (k, Some(v)),
                None => (f, None),
            };
            let def = h.info(k).map(|d| (d.num, d.ty)).or_else(|| reserved(k, true));
            let v = match (def, raw) {
                (Some((_, Ty::Flag)), None) => Some(Val::Flag),
                (Some((_, Ty::Flag)), Some(".")) => None,
                (Some(_), None) => return Err(format!("INFO {k} without a value")),
                (Some((n, t)), Some(raw)) => parse_typed(raw, n, t).map_err(|e| format!("INFO {k}: {e}"))?,
                (None, None) => Some(Val::Flag),
                (None, Some(raw)) => parse_typed(raw, Num::Count(1), Ty::String).map_err(|e| format!("INFO {k}: {e}"))?,
            };
            r.info.push((k.to_string(), v));
        }
    }
    if !h.samples.is_empty() {
        r.format = cols[8].split(':').map(String::from).collect();
        for c in &cols[9..] {
            let mut row = Vec::new();
            let vals: Vec<&str> = c.split(':').collect();
            if vals.len() > r.format.len() {
                return Err(format!("sample column {c:?} has more values than FORMAT keys"));
            }
            for (k, raw) in r.format.iter().zip(vals) {
                if raw == "." {
                    row.push(None);
                } else if k == "GT" {
                    row.push(Some(Val::Gt(parse_gt(raw).map_err(|e| format!("GT {raw:?}: {e}"))?)));
                } else {
                    let (n, t) = h.format(k).map(|d| (d.num, d.ty)).or_else(|| reserved(k, false)).unwrap_or((Num::Count(1), Ty::String));
                    row.push(parse_typed(raw, n, t).map_err(|e| format!("FORMAT {k}: {e}"))?);
                }
            }
            r.samples.push(row);
        }
    }
    Ok(r)
}

/// `(start, end)`, 1-based inclusive, by the rule the property names: before VCF 4.5 the INFO
/// `END` value if it is present (and not missing), else `POS + len(REF) - 1`; from 4.5 on
/// `POS + max(len(REF), max SVLEN, max FORMAT LEN) - 1`. A telomeric `POS` 0 counts as 1.
/// `Err` when the record carries a value the rule cannot use (negative SVLEN/LEN from 4.5, END < 1).
pub fn span(r: &RecDesc, fileformat: (u32, u32)) -> Result<(u64, u64), String> {
    let start = r.pos.max(1);
    let reflen = r.reference.len() as u64;
    if reflen == 0 {
        return Err("empty REF".into());
    }
    if fileformat < (4, 5) {
        if let Some(Some(v)) = r.info_get("END") {
            return match v {
                Val::Int(n) if *n >= 1 => Ok((start, *n as u64)),
                other => Err(format!("unusable END {other:?}")),
            };
        }
        return Ok((start, start + reflen - 1));
    }
    let mut len = reflen;
    if let Some(Some(v)) = r.info_get("SVLEN") {
        match v {
            Val::Ints(a) => {
                for n in a.iter().flatten() {
                    if *n < 0 {
                        return Err("negative SVLEN".into());
                    }
                    len = len.max(*n as u64);
                }
            }
            other => return Err(format!("unusable SVLEN {other:?}")),
        }
    }
    if let Some(fi) = r.format_index("LEN") {
        for row in &r.samples {
            match row.get(fi).and_then(|v| v.as_ref()) {
                None => {}
                Some(Val::Int(n)) => {
                    if *n < 0 {
                        return Err("negative LEN".into());
                    }
                    len = len.max(*n as u64);
                }
                Some(other) => return Err(format!("unusable LEN {other:?}")),
            }
        }
    }
    Ok((start, start + len - 1))
}
