use noodles_bcf as bcf;
use noodles_vcf as vcf;
use vcf::header::record::value::{Map, map::{Info, Format, Filter, Contig, info, format}};
use vcf::variant::record_buf::{self as rb, samples::sample::Value as SV, info::field::Value as IV};
use vcf::variant::RecordBuf;
use vcf::variant::io::Write as _;

fn hdr(ff: (u32,u32)) -> vcf::Header {
    vcf::Header::builder()
        .set_file_format(vcf::header::FileFormat::new(ff.0, ff.1))
        .add_contig("c1", Map::<Contig>::new())
        .add_info("i1", Map::<Info>::new(info::Number::Count(1), info::Type::Integer, "d"))
        .add_info("ia", Map::<Info>::new(info::Number::Unknown, info::Type::Integer, "d"))
        .add_info("s1", Map::<Info>::new(info::Number::Count(1), info::Type::String, "d"))
        .add_info("sa", Map::<Info>::new(info::Number::Unknown, info::Type::String, "d"))
        .add_info("c1", Map::<Info>::new(info::Number::Count(1), info::Type::Character, "d"))
        .add_info("ca", Map::<Info>::new(info::Number::Unknown, info::Type::Character, "d"))
        .add_filter("q10", Map::<Filter>::new("d"))
        .add_format("GT", Map::<Format>::new(format::Number::Count(1), format::Type::String, "d"))
        .add_format("fa", Map::<Format>::new(format::Number::Unknown, format::Type::Integer, "d"))
        .add_format("fs", Map::<Format>::new(format::Number::Count(1), format::Type::String, "d"))
        .add_format("fc", Map::<Format>::new(format::Number::Count(1), format::Type::Character, "d"))
        .add_sample_name("A").add_sample_name("B")
        .build()
}

fn vcf_rt(h: &vcf::Header, r: &RecordBuf) {
    let mut w = vcf::io::Writer::new(Vec::new());
    match std::panic::catch_unwind(std::panic::AssertUnwindSafe(|| w.write_variant_record(h, r))) {
        Err(_) => { println!("  vcf write PANIC"); return; }
        Ok(Err(e)) => { println!("  vcf write err: {e:?}"); return; }
        Ok(Ok(())) => {}
    }
    let buf = w.into_inner();
    println!("  vcf line: {:?}", String::from_utf8_lossy(&buf));
    let mut rd = vcf::io::Reader::new(&buf[..]);
    let mut out = RecordBuf::default();
    match rd.read_record_buf(h, &mut out) {
        Ok(_) => println!("  vcf eager eq={} ", &out == r),
        Err(e) => println!("  vcf eager read err: {e:?}"),
    }
    if &out != r { println!("   got {:?}", out); }
}

fn bcf_rt(h: &vcf::Header, r: &RecordBuf) {
    let mut w = bcf::io::Writer::from(Vec::new());
    w.write_header(h).unwrap();
    let n0 = w.get_ref().len();
    match std::panic::catch_unwind(std::panic::AssertUnwindSafe(|| w.write_variant_record(h, r))) {
        Err(_) => { println!("  bcf write PANIC"); return; }
        Ok(Err(e)) => { println!("  bcf write err: {e}"); return; }
        Ok(Ok(())) => {}
    }
    let buf = w.into_inner();
    println!("  bcf rec bytes: {:02x?}", &buf[n0..]);
    let mut rd = bcf::io::Reader::from(&buf[..]);
    let h2 = rd.read_header().unwrap();
    let mut out = RecordBuf::default();
    match std::panic::catch_unwind(std::panic::AssertUnwindSafe(|| rd.read_record_buf(&h2, &mut out))) {
        Err(_) => println!("  bcf read PANIC"),
        Ok(Ok(_)) => { println!("  bcf eager eq={}", &out == r); if &out != r { println!("   got {:?}", out); } }
        Ok(Err(e)) => println!("  bcf eager read err: {e:?}"),
    }
}

fn base() -> rb::Samples { rb::Samples::default() }

fn main() {
    let h = hdr((4,3));
    let mk = |info: Vec<(&str, Option<IV>)>, keys: Vec<&str>, vals: Vec<Vec<Option<SV>>>| {
        let mut b = RecordBuf::builder().set_reference_sequence_name("c1").set_variant_start(noodles_core::Position::new(5).unwrap()).set_reference_bases("A")
            .set_info(info.into_iter().map(|(k,v)| (k.to_string(), v)).collect());
        let keys: rb::samples::Keys = keys.into_iter().map(String::from).collect();
        b = b.set_samples(rb::Samples::new(keys, vals));
        b.build()
    };
    let _ = base();
    let gt = |s: &str| Some(SV::Genotype(s.parse().unwrap()));
    println!("1. INFO missing value i1=.");
    let r = mk(vec![("i1", None)], vec!["GT"], vec![vec![gt("0/1")], vec![gt("0/1")]]);
    vcf_rt(&h, &r); bcf_rt(&h, &r);
    println!("2. INFO char ';'");
    let r = mk(vec![("c1", Some(IV::Character(';')))], vec!["GT"], vec![vec![gt("0/1")], vec![gt("0/1")]]);
    vcf_rt(&h, &r); bcf_rt(&h, &r);
    println!("3. mixed ploidy GT 0/1/2 and 0/1");
    let r = mk(vec![], vec!["GT"], vec![vec![gt("0/1/2")], vec![gt("0/1")]]);
    vcf_rt(&h, &r); bcf_rt(&h, &r);
    println!("3b. mixed ploidy GT 0/1 and 0");
    let r = mk(vec![], vec!["GT"], vec![vec![gt("0/1")], vec![gt("0")]]);
    vcf_rt(&h, &r); bcf_rt(&h, &r);
    println!("4. phased missing allele 0|.");
    let r = mk(vec![], vec!["GT"], vec![vec![gt("0|.")], vec![gt(".|.")]]);
    vcf_rt(&h, &r); bcf_rt(&h, &r);
    println!("5. FORMAT int array all samples missing");
    let r = mk(vec![], vec!["GT","fa"], vec![vec![gt("0/1"), None], vec![gt("0/1"), None]]);
    vcf_rt(&h, &r); bcf_rt(&h, &r);
    println!("6. INFO string array with comma elem");
    let r = mk(vec![("sa", Some(IV::from(vec![Some("a,b".to_string()), Some("c".to_string())])))], vec!["GT"], vec![vec![gt("0/1")], vec![gt("0/1")]]);
    vcf_rt(&h, &r); bcf_rt(&h, &r);
    println!("7. FORMAT string '.' and char '.'");
    let r = mk(vec![], vec!["GT","fs","fc"], vec![vec![gt("0/1"), Some(SV::from(".")), Some(SV::from('.'))], vec![gt("0/1"), Some(SV::from("x")), Some(SV::from('y'))]]);
    vcf_rt(&h, &r); bcf_rt(&h, &r);
    println!("8. missing GT value");
    let r = mk(vec![], vec!["GT"], vec![vec![None], vec![gt("0/1")]]);
    vcf_rt(&h, &r); bcf_rt(&h, &r);
    println!("9. INFO ia=[300] lazy bcf");
    let r = mk(vec![("ia", Some(IV::from(vec![Some(300)])))], vec!["GT"], vec![vec![gt("0/1")], vec![gt("0/1")]]);
    vcf_rt(&h, &r); bcf_rt(&h, &r);
    {
        let mut w = bcf::io::Writer::from(Vec::new());
        w.write_header(&h).unwrap();
        w.write_variant_record(&h, &r).unwrap();
        let buf = w.into_inner();
        let mut rd = bcf::io::Reader::from(&buf[..]);
        let h2 = rd.read_header().unwrap();
        let mut rec = bcf::Record::default();
        rd.read_record(&mut rec).unwrap();
        for x in rec.info().iter(&h2) { println!("   lazy info: {:?}", x); }
        use vcf::variant::record::Info as _;
    }
    println!("10. 4.3 GT first-allele phasing: [0 unphased, 1 phased]");
    use vcf::variant::record_buf::samples::sample::value::genotype::Allele;
    use vcf::variant::record::samples::series::value::genotype::Phasing;
    let g: vcf::variant::record_buf::samples::sample::value::Genotype = vec![Allele::new(Some(0), Phasing::Unphased), Allele::new(Some(1), Phasing::Phased)].into_iter().collect();
    let r = mk(vec![], vec!["GT"], vec![vec![Some(SV::Genotype(g.clone()))], vec![gt("0/1")]]);
    vcf_rt(&h, &r); bcf_rt(&h, &r);
    let h44 = hdr((4,4));
    println!("10b. same in 4.4");
    vcf_rt(&h44, &r); bcf_rt(&h44, &r);
    println!("11. sample with single key missing value");
    let r = mk(vec![], vec!["fs"], vec![vec![None], vec![Some(SV::from("x"))]]);
    vcf_rt(&h, &r); bcf_rt(&h, &r);
    println!("12. header IDX");
    let h3 = vcf::Header::builder()
        .add_contig("c1", Map::<Contig>::builder().set_idx(3).build().unwrap())
        .add_contig("c2", Map::<Contig>::builder().set_idx(1).build().unwrap())
        .add_info("i1", Map::<Info>::builder().set_number(info::Number::Count(1)).set_type(info::Type::Integer).set_description("d").set_idx(7).build().unwrap())
        .add_info("i2", Map::<Info>::builder().set_number(info::Number::Count(1)).set_type(info::Type::Integer).set_description("d").set_idx(2).build().unwrap())
        .build();
    let mut w = vcf::io::Writer::new(Vec::new());
    w.write_header(&h3).unwrap();
    println!("{}", String::from_utf8_lossy(w.get_ref()));
    let r = RecordBuf::builder().set_reference_sequence_name("c1").set_variant_start(noodles_core::Position::new(5).unwrap()).set_reference_bases("A")
        .set_info([("i1".to_string(), Some(IV::Integer(1))), ("i2".to_string(), Some(IV::Integer(2)))].into_iter().collect()).build();
    bcf_rt(&h3, &r);
}
