//! C10 — stub (to be implemented).

fn main() {
    eprintln!("c10: not implemented");
    std::process::exit(2);
}
