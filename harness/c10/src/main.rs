//! C10 — BCF typed encoding round-trips every value and carries the same content as VCF.
//!
//! For every generated header (BCF sub-model, with and without explicit `IDX=` assignments) and
//! every record consistent with it, written by `bcf::io::Writer`:
//!  * the raw bytes are decoded by an independent reader written from the BCF 2.2 specification
//!    (`raw.rs`: typed descriptors, overflow lengths, integer width sentinels, end-of-vector padding,
//!    genotype encoding, dictionary indices) and compared with the generator's description;
//!  * `bcf::io::Reader::read_record_buf` must give the description back (floats by bit pattern) and
//!    its VCF text rendering must equal the rendering of the original;
//!  * every accessor of the lazy `bcf::Record` is compared with the eager record;
//!  * the dictionary a reader derives from the written header must be the one the writer encoded
//!    the records with.
//! A rejected record is counted per reason; an accepted one must never read back differently.

mod raw;

use std::collections::BTreeSet;

use genvcf::{
    ContigDef, FieldDef, FilterDef, GtAllele, HeaderDesc, HeaderOpts, IdxMode, Model, Num, RecDesc, RecOpts, Tol, Ty, Val, canon_first_phasing, diff_headers, diff_records, features, gen_header, gen_record, gen_rich_record, minimal_record,
    header_from_text, io_err_class, rec_desc_of_buf, rec_desc_of_record, series_of_record, to_noodles_header, to_record_buf, to_vcf_line,
};
use noodles_bcf as bcf;
use noodles_vcf as vcf;
use raw::Dict;
use serde_json::json;
use vcf::variant::io::Write as _;
use vcore::{CaseOut, Ctx, Report, Rng, guard, report::hex, rng::fnv1a, run_cases};

#[derive(Clone, Debug)]
struct Case {
    kind: &'static str,
    seed: u64,
    n: usize,
    fileformat: Option<(u32, u32)>,
    idx: IdxMode,
}

fn case_json(c: &Case) -> serde_json::Value {
    json!({"kind": c.kind, "seed": c.seed, "n": c.n, "fileformat": c.fileformat.map(|f| format!("{}.{}", f.0, f.1)), "idx": format!("{:?}", c.idx)})
}

fn lossy(b: &[u8]) -> String {
    let s = String::from_utf8_lossy(b);
    let s = s.trim_end_matches('\n');
    let mut t: String = s.chars().take(500).collect();
    if t.len() < s.len() {
        t.push('…');
    }
    t
}

fn aspect_class(d: &[(String, String)]) -> String {
    if d.iter().all(|(a, _)| a.ends_with(".IDX")) { "IDX".into() } else { d.iter().find(|(a, _)| !a.ends_with(".IDX")).map(|(a, _)| a.clone()).unwrap_or_default() }
}

/// Data-free shape of FORMAT field `fi` of a record.
fn field_shape(r: &RecDesc, h: &HeaderDesc, fi: usize) -> String {
    let Some(k) = r.format.get(fi) else { return "no-such-field".into() };
    let col: Vec<Option<&Val>> = r.samples.iter().map(|row| row.get(fi).and_then(|v| v.as_ref())).collect();
    if k == "GT" {
        let pl: Vec<usize> = col.iter().filter_map(|v| if let Some(Val::Gt(g)) = v { Some(g.len()) } else { None }).collect();
        return if pl.iter().any(|p| *p != pl[0]) { "GT:mixed-ploidy".into() } else { "GT:uniform-ploidy".into() };
    }
    let Some(d) = h.format(k) else { return "undeclared".into() };
    let t = format!("{}{}", d.ty.text(), if d.num.is_scalar() { "" } else { "[]" });
    if col.iter().all(|v| v.is_none()) {
        return format!("{t}:all-samples-missing");
    }
    let lens: Vec<usize> = col.iter().filter_map(|v| v.and_then(|v| v.array_len())).collect();
    if lens.iter().any(|l| *l != lens[0]) || (col.iter().any(|v| v.is_none()) && lens.iter().any(|l| *l > 1)) {
        return format!("{t}:ragged");
    }
    format!("{t}:uniform")
}

/// Which FORMAT field a broken per-sample block is blamed on (see `raw::blame`).
fn blame_shape(indiv: &[u8], r: &RecDesc, h: &HeaderDesc, dict: &Dict) -> String {
    let keys: Vec<usize> = r.format.iter().map(|k| dict.strings.iter().position(|e| e.as_deref() == Some(k.as_str())).unwrap_or(usize::MAX)).collect();
    let lens: Vec<usize> = r
        .format
        .iter()
        .enumerate()
        .map(|(fi, k)| {
            let is_text = h.format(k).map(|d| matches!(d.ty, Ty::String | Ty::Character)).unwrap_or(false) && k != "GT";
            if is_text {
                return usize::MAX;
            }
            r.samples
                .iter()
                .map(|row| match row.get(fi).and_then(|v| v.as_ref()) {
                    Some(Val::Gt(g)) => g.len(),
                    Some(v) => v.array_len().unwrap_or(1),
                    None => 1,
                })
                .max()
                .unwrap_or(1)
                .max(1)
        })
        .collect();
    match raw::blame(indiv, r.samples.len(), &keys, &lens) {
        Some(fi) => field_shape(r, h, fi),
        None => "layout-as-described".into(),
    }
}

/// Comparison form of a record: implied first-allele phasing before VCF 4.4; a record without FORMAT
/// keys (n_fmt = 0) has no sample rows, however many samples the header names.
fn canon_rec(mut r: RecDesc, _ff: (u32, u32)) -> RecDesc {
    if r.format.is_empty() {
        r.samples.clear();
    }
    r
}

/// The description side only: before VCF 4.4 the first allele's phasing is the one the specification
/// rule implies (phased iff every other separator is `|`); what is read back is compared exactly
/// against it, and lazy vs eager views of the same bytes exactly against each other.
fn canon_exp(mut r: RecDesc, ff: (u32, u32)) -> RecDesc {
    if ff < (4, 4) {
        canon_first_phasing(&mut r);
    }
    canon_rec(r, ff)
}

/// An accepted record for the whole-file passes.
struct Accepted {
    bytes: Vec<u8>,
    buf: vcf::variant::RecordBuf,
    exp: RecDesc,
    fresh: RecDesc,
    /// the lazy record read alone could be read through every accessor
    lazy_ok: bool,
}

struct HeaderCtx {
    header: vcf::Header,
    /// header to read records with (the one read back, or patched with the writer's dictionary)
    read_header: vcf::Header,
    dict: Dict,
    file_prefix: Vec<u8>,
}

fn check_header(hd: &HeaderDesc, out: &mut CaseOut) -> Option<HeaderCtx> {
    out.count("headers", 1);
    let header = match to_noodles_header(hd) {
        Ok(h) => h,
        Err(e) => {
            out.inconclusive.push(format!("generator produced a header the builders refuse: {e}"));
            return None;
        }
    };
    let dict = match Dict::of(hd) {
        Ok(d) => d,
        Err(e) => {
            out.inconclusive.push(format!("generator produced an inconsistent IDX assignment: {e}"));
            return None;
        }
    };
    let written = guard::catch(|| {
        let mut w = bcf::io::Writer::from(Vec::new());
        w.write_header(&header).map(|_| w.into_inner())
    });
    let bytes = match written {
        Err(p) => {
            out.violation(format!("panic:{}", p.sig), format!("bcf write_header panicked: {}", p.message));
            return None;
        }
        Ok(Err(e)) => {
            out.count(&format!("header_rejected[{}]", io_err_class(&e)), 1);
            return None;
        }
        Ok(Ok(b)) => b,
    };
    out.count("headers_accepted", 1);
    out.count(&format!("headers_idx[{}]", if hd.has_explicit_idx() { "explicit" } else { "none" }), 1);
    // the embedded header text, read independently
    let mut dict_broken = false;
    match raw::split_file(&bytes) {
        Err(e) => {
            out.violation(format!("bcf-header-block-malformed:{}", e.class), e.detail);
            return None;
        }
        Ok((text, off)) => {
            if off != bytes.len() {
                out.violation("bcf-header-block-malformed:trailing-bytes", format!("{} bytes after the header block", bytes.len() - off));
            }
            match header_from_text(&text) {
                Err(e) => out.violation("bcf-header-text:unreadable-by-independent-splitter", format!("{e}\n{text}")),
                Ok(got) => {
                    let d = diff_headers(hd, &got);
                    if !d.is_empty() {
                        // header equality is C09's business; here only what it does to the dictionary counts
                        out.count(&format!("embedded_header_text_lacks[{}]", aspect_class(&d)), 1);
                    }
                    // the dictionary any reader derives from that text
                    match Dict::of(&got) {
                        Ok(d2) if d2 == dict => {}
                        Ok(d2) => {
                            dict_broken = true;
                            let first = dict.strings.iter().zip(&d2.strings).position(|(a, b)| a != b);
                            out.violation(
                                format!("bcf-header-dictionary-ne-writer-dictionary:{}", if d.is_empty() { "text-equals-description".to_string() } else { format!("text-lacks-{}", aspect_class(&d)) }),
                                format!(
                                    "records are encoded with the dictionary of the in-memory header (IDX honoured) but the written header text yields another one; first differing string index {first:?}: writer {:?} vs text {:?}; contigs writer {:?} vs text {:?}",
                                    first.and_then(|i| dict.strings.get(i)),
                                    first.and_then(|i| d2.strings.get(i)),
                                    dict.contigs,
                                    d2.contigs
                                ),
                            );
                        }
                        Err(e) => {
                            dict_broken = true;
                            out.violation("bcf-header-dictionary:text-inconsistent", e);
                        }
                    }
                }
            }
        }
    }
    // noodles' reader
    let read = guard::catch(|| bcf::io::Reader::from(&bytes[..]).read_header());
    let mut read_header = match read {
        Err(p) => {
            out.violation(format!("panic:{}", p.sig), format!("bcf read_header panicked: {}", p.message));
            return None;
        }
        Ok(Err(e)) => {
            out.violation(format!("bcf-header-reader-rejects-writer-output:{}", io_err_class(&e)), format!("{e:?}"));
            return None;
        }
        Ok(Ok(h)) => h,
    };
    // its string maps against the expected dictionary
    let mut maps_ok = true;
    for (i, e) in dict.strings.iter().enumerate() {
        if read_header.string_maps().strings().get_index(i) != e.as_deref() {
            maps_ok = false;
        }
    }
    for (i, e) in dict.contigs.iter().enumerate() {
        if read_header.string_maps().contigs().get_index(i) != e.as_deref() {
            maps_ok = false;
        }
    }
    if !maps_ok {
        if !dict_broken {
            out.violation("bcf-reader-string-maps-ne-dictionary", "the string maps bcf::io::Reader::read_header builds differ from the dictionary of the header text");
        }
        // keep going with the dictionary the writer used, so that the record codec is still observed
        match vcf::header::StringMaps::try_from(&header) {
            Ok(m) => *read_header.string_maps_mut() = m,
            Err(_) => return None,
        }
        out.count("cases_read_with_patched_string_maps", 1);
    }
    Some(HeaderCtx { header, read_header, dict, file_prefix: bytes })
}

fn check_record(hd: &HeaderDesc, hc: &HeaderCtx, writer: &mut bcf::io::Writer<Vec<u8>>, rd: &RecDesc, gt_string: bool, out: &mut CaseOut) -> Option<Accepted> {
    let ff = hd.fileformat;
    out.count("records", 1);
    // BCF has no notion of dropped trailing values: every row carries every key
    let mut padded = rd.clone();
    for row in padded.samples.iter_mut() {
        row.resize(padded.format.len(), None);
    }
    let rd = &padded;
    let mut buf = to_record_buf(rd);
    // what the renderings are compared against (genotypes as Value::Genotype)
    let render_buf = buf.clone();
    if gt_string {
        // the same genotypes handed over as GT *strings* (sample Value::String), which the encoder also takes
        use vcf::variant::record_buf::samples::{Keys, sample::Value as SV};
        let (keys, mut values): (Keys, Vec<Vec<Option<SV>>>) = buf.samples().clone().into();
        if let Some(gi) = rd.format_index("GT") {
            for (row, drow) in values.iter_mut().zip(&rd.samples) {
                if let Some(Some(Val::Gt(g))) = drow.get(gi) {
                    let mut t = String::new();
                    for (i, a) in g.iter().enumerate() {
                        if i > 0 {
                            t.push(if a.phased { '|' } else { '/' });
                        }
                        match a.allele {
                            Some(n) => t.push_str(&n.to_string()),
                            None => t.push('.'),
                        }
                    }
                    row[gi] = Some(SV::String(t));
                }
            }
        }
        *buf.samples_mut() = vcf::variant::record_buf::Samples::new(keys, values);
        out.count("records_with_gt_as_string", 1);
    }
    let before = writer.get_ref().len();
    let res = guard::catch(|| writer.write_variant_record(&hc.header, &buf));
    let text = to_vcf_line(rd, hd);
    match res {
        Err(p) => {
            out.violation(format!("panic:{}", p.sig), format!("bcf write_variant_record panicked: {} on {}", p.message, lossy(&text)));
            writer.get_mut().truncate(before);
            return None;
        }
        Ok(Err(e)) => {
            out.count(&format!("rejected[{}]", io_err_class(&e)), 1);
            if max_gt_allele(rd) >= 63 {
                out.count("gt_allele_index_unrepresentable:rejected", 1);
            }
            if writer.get_ref().len() != before {
                out.violation("rejected-record-left-bytes", format!("the writer returned {e} after writing {} bytes", writer.get_ref().len() - before));
                writer.get_mut().truncate(before);
            }
            return None;
        }
        Ok(Ok(())) => {}
    }
    out.count("records_accepted", 1);
    if max_gt_allele(rd) >= 63 {
        out.count("gt_allele_index_unrepresentable:accepted", 1);
    }
    let bytes = writer.get_ref()[before..].to_vec();
    let ctxs = format!("record (as VCF): {}\nfileformat {}.{}; BCF bytes: {}", lossy(&text), ff.0, ff.1, hex(&bytes[..bytes.len().min(160)]));
    let canon = |r: RecDesc| -> RecDesc { canon_rec(r, ff) };
    let exp = canon_exp(rd.clone(), ff);
    let colkey = |d: &genvcf::FieldDiff| format!("{}|{}", d.column, d.key);
    let mut bad: BTreeSet<String> = BTreeSet::new();

    // framing
    if bytes.len() < 8 {
        out.violation("raw-malformed:no-length-prefix", ctxs);
        return None;
    }
    let ls = u32::from_le_bytes(bytes[0..4].try_into().unwrap()) as usize;
    let li = u32::from_le_bytes(bytes[4..8].try_into().unwrap()) as usize;
    if 8 + ls + li != bytes.len() {
        out.violation("raw-malformed:length-prefix", format!("l_shared {ls} + l_indiv {li} + 8 != {} bytes written\n{ctxs}", bytes.len()));
        return None;
    }
    // independent decode
    let mut raw_broken = false;
    let mut raw_rlen: Option<i32> = None;
    match raw::decode(&bytes[8..8 + ls], &bytes[8 + ls..], hd, &hc.dict) {
        Err(e) => {
            raw_broken = true;
            let in_indiv = e.class.starts_with("indiv:");
            if in_indiv {
                // name the field whose bytes do not line up with the layout the description demands
                let shape = blame_shape(&bytes[8 + ls..], &exp, hd, &hc.dict);
                let sig = if shape == "layout-as-described" { format!("raw-malformed:{}", e.class) } else { format!("raw-malformed-per-sample-block:{shape}") };
                out.violation(sig, format!("independent BCF reader: {} ({})\n{ctxs}", e.detail, e.class));
            } else {
                out.violation(format!("raw-malformed:{}", e.class), format!("independent BCF reader: {}\n{ctxs}", e.detail));
            }
        }
        Ok((got, info)) => {
            out.count("records_decoded_independently", 1);
            for d in diff_records(&exp, &canon(got), &Tol::BITS) {
                out.violation(format!("raw-ne-desc:{}:{}", d.column, d.class), format!("independent BCF reader, {} {}: {}\n{ctxs}", d.column, d.key, d.detail));
                bad.insert(colkey(&d));
            }
            raw_rlen = Some(info.rlen);
            if info.n_sample != hd.samples.len() {
                out.violation("raw-ne-desc:n_sample", format!("n_sample {} vs {} samples in the header\n{ctxs}", info.n_sample, hd.samples.len()));
            }
            for (what, ty, lo, hi) in &info.int_widths {
                if !raw::fits(*ty, *lo, *hi) {
                    out.violation(format!("raw-width-collides-with-reserved-codes:{what}:int{}", 8 << (ty - 1)), format!("values {lo}..={hi} stored as int{}\n{ctxs}", 8 << (ty - 1)));
                }
                let edge = |v: i32| matches!(v, -121 | -120 | 127 | 128 | -32761 | -32760 | 32767 | 32768) || v == i32::MIN + 8 || v == i32::MAX;
                if edge(*lo) || edge(*hi) {
                    out.count(&format!("width_at_boundary[{what}|int{}]", 8 << (ty - 1)), 1);
                }
                out.count(&format!("int_width[{what}|int{}]", 8 << (ty - 1)), 1);
            }
            // per-sample vectors: length = longest vector, shorter ones padded
            for (k, _ty, len) in &info.fmt_layout {
                if let Some(fi) = exp.format_index(k) {
                    let lens: Vec<usize> = exp.samples.iter().map(|row| match row.get(fi).and_then(|v| v.as_ref()) {
                        Some(Val::Gt(g)) => g.len(),
                        Some(v) => v.array_len().unwrap_or(1),
                        None => 1,
                    }).collect();
                    if lens.iter().any(|l| *l != lens[0]) {
                        out.count("ragged_vectors_checked", 1);
                    }
                    let _ = len;
                }
            }
        }
    }

    // eager read
    let eager = guard::catch(|| {
        let mut r = bcf::io::Reader::from(&bytes[..]);
        let mut b = vcf::variant::RecordBuf::default();
        r.read_record_buf(&hc.read_header, &mut b).map(|n| (n, b))
    });
    let eager_buf = match eager {
        Err(p) => {
            if !raw_broken {
                out.violation(format!("panic:{}", p.sig), format!("bcf read_record_buf panicked: {}\n{ctxs}", p.message));
            } else {
                out.count("eager_read_panics_on_malformed_writer_output", 1);
            }
            None
        }
        Ok(Err(e)) => {
            if !raw_broken {
                out.violation(format!("eager-read-rejects-writer-output:{}", io_err_class(&e)), format!("{e:?}\n{ctxs}"));
            }
            None
        }
        Ok(Ok((_, b))) => Some(b),
    };
    let eager_desc = eager_buf.as_ref().map(|b| canon(rec_desc_of_buf(b)));
    if let (Some(got), false) = (&eager_desc, raw_broken) {
        let diffs = diff_records(&exp, got, &Tol::BITS);
        let clean = diffs.is_empty();
        for d in diffs {
            if !bad.contains(&colkey(&d)) {
                out.violation(format!("eager-ne-desc:{}:{}", d.column, d.class), format!("{} {}: {}\n{ctxs}", d.column, d.key, d.detail));
                bad.insert(colkey(&d));
            }
        }
        // VCF rendering of both
        if clean && exp.format.is_empty() && !hd.samples.is_empty() {
            // no FORMAT column in a file with samples is not conforming VCF text: nothing to compare
            out.count("records_without_format_in_a_file_with_samples", 1);
        } else if clean {
            let render = |b: &vcf::variant::RecordBuf| {
                guard::catch(|| {
                    let mut w = vcf::io::Writer::new(Vec::new());
                    w.write_variant_record(&hc.header, b).map(|_| w.into_inner())
                })
            };
            match (render(&render_buf), render(eager_buf.as_ref().unwrap())) {
                (Ok(Ok(a)), Ok(Ok(b))) => {
                    out.count("vcf_renderings_compared", 1);
                    if a != b {
                        let col = a.split(|&c| c == b'\t').zip(b.split(|&c| c == b'\t')).position(|(x, y)| x != y).unwrap_or(99);
                        let col = ["CHROM", "POS", "ID", "REF", "ALT", "QUAL", "FILTER", "INFO", "FORMAT"].get(col).copied().unwrap_or("sample");
                        out.violation(format!("vcf-rendering-differs:{col}"), format!("original: {}\nread back: {}\n{ctxs}", lossy(&a), lossy(&b)));
                    }
                }
                (Ok(Err(_)), Ok(Err(_))) => out.count("vcf_rendering_rejected_by_vcf_writer", 1),
                (Ok(Err(e)), _) | (_, Ok(Err(e))) => out.violation(format!("vcf-rendering-one-side-rejected:{}", io_err_class(&e)), format!("{e:?}\n{ctxs}")),
                (Err(p), _) | (_, Err(p)) => out.violation(format!("panic:{}", p.sig), format!("vcf writer panicked: {}\n{ctxs}", p.message)),
            }
        }
    }

    // lazy record
    let mut lazy_ok = false;
    if !raw_broken {
        let lazy = guard::catch(|| {
            let mut r = bcf::io::Reader::from(&bytes[..]);
            let mut rec = bcf::Record::default();
            r.read_record(&mut rec).map(|n| (n, rec))
        });
        match lazy {
            Err(p) => out.violation(format!("panic:{}", p.sig), format!("bcf read_record panicked: {}\n{ctxs}", p.message)),
            Ok(Err(e)) => out.violation(format!("lazy-read-rejects-writer-output:{}", io_err_class(&e)), format!("{e:?}\n{ctxs}")),
            Ok(Ok((_, rec))) => {
                let (reference, refname) = match &eager_desc {
                    Some(e) => (e.clone(), "eager"),
                    None => (exp.clone(), "desc"),
                };
                match guard::catch(|| rec_desc_of_record(&hc.read_header, &rec)) {
                    Err(p) => out.violation(format!("panic:{}", p.sig), format!("a lazy bcf::Record accessor panicked: {}\n{ctxs}", p.message)),
                    Ok(Err(e)) => out.violation(format!("lazy-accessor-error:{}", io_err_class(&e)), format!("{e:?}\n{ctxs}")),
                    Ok(Ok(v)) => {
                        lazy_ok = true;
                        let v = canon(v);
                        out.count("lazy_records_read_through_every_accessor", 1);
                        for d in diff_records(&reference, &v, &Tol::BITS) {
                            if refname == "eager" || !bad.contains(&colkey(&d)) {
                                out.violation(format!("lazy-ne-{refname}:{}:{}", d.column, d.class), format!("{} {}: {}\n{ctxs}", d.column, d.key, d.detail));
                            }
                        }
                        match guard::catch(|| series_of_record(&hc.read_header, &rec)) {
                            Err(p) => out.violation(format!("panic:{}", p.sig), format!("a lazy series accessor panicked: {}\n{ctxs}", p.message)),
                            Ok(Err(e)) => out.violation(format!("lazy-series-error:{}", io_err_class(&e)), format!("{e:?}\n{ctxs}")),
                            Ok(Ok(series)) => {
                                let names: Vec<&String> = series.iter().map(|s| &s.0).collect();
                                if names != v.format.iter().collect::<Vec<_>>() {
                                    out.violation("lazy-series-ne-rows:names", format!("{names:?} vs {:?}\n{ctxs}", v.format));
                                } else {
                                    for (fi, (k, col)) in series.iter().enumerate() {
                                        for (si, got) in col.iter().enumerate() {
                                            let e = v.samples.get(si).and_then(|r| r.get(fi)).cloned().unwrap_or(None);
                                            let g = got.clone();
                                            if !genvcf::opt_val_eq(&e, &g, &Tol::BITS) {
                                                out.violation(format!("lazy-series-ne-rows:{}", genvcf::classify(&e, &g)), format!("series {k} sample {si}: {} vs {}\n{ctxs}", genvcf::show_val(&e), genvcf::show_val(&g)));
                                            }
                                        }
                                    }
                                }
                            }
                        }
                        if let Err(p) = guard::catch(|| lazy_inherent(hc, &rec, &v, out, &ctxs)) {
                            out.violation(format!("panic:{}", p.sig), format!("an inherent bcf::Record accessor panicked: {}\n{ctxs}", p.message));
                        }
                    }
                }
            }
        }
    }
    // the span: rlen is what BCF readers and indexers use as the record's extent
    if let Ok((s0, e0)) = genvcf::span(&exp, ff) {
        let want = e0 - s0 + 1;
        let driver = span_driver(&exp, ff);
        let fcls = if ff < (4, 5) { "before-4.5" } else { "from-4.5" };
        out.count(&format!("span_checked[{driver}|{}]", if exp.info.is_empty() { "info-empty" } else { "info-nonempty" }), 1);
        let mut rlen_bad = false;
        if let Some(rl) = raw_rlen {
            if rl as i64 != want as i64 {
                rlen_bad = true;
                out.violation(format!("rlen-ne-span:raw-rlen:{driver}:{fcls}"), format!("rlen {rl} written, the description spans {s0}..={e0} ({want} bases; decided by {driver})\n{ctxs}"));
            }
        }
        if !raw_broken {
            let lazy = guard::catch(|| -> std::io::Result<(u64, u64, u64)> {
                let mut r = bcf::io::Reader::from(&bytes[..]);
                let mut rec = bcf::Record::default();
                r.read_record(&mut rec)?;
                let end = usize::from(rec.end()?) as u64;
                let tend = usize::from(vcf::variant::Record::variant_end(&rec, &hc.read_header)?) as u64;
                let tspan = vcf::variant::Record::variant_span(&rec, &hc.read_header)? as u64;
                Ok((end, tend, tspan))
            });
            match lazy {
                Err(p) => out.violation(format!("panic:{}", p.sig), format!("end()/variant_end/variant_span of the lazy bcf::Record panicked: {}\n{ctxs}", p.message)),
                Ok(Err(e)) => {
                    // an accessor failure of this record was reported above already
                    if lazy_ok {
                        out.violation(format!("rlen-ne-span:lazy-error:{}:{driver}:{fcls}", io_err_class(&e)), format!("{e:?}\n{ctxs}"));
                    }
                }
                Ok(Ok((end, tend, tspan))) => {
                    if end != e0 && !rlen_bad {
                        out.violation(format!("rlen-ne-span:lazy-end:{driver}:{fcls}"), format!("bcf::Record::end() = {end}, the description ends at {e0}\n{ctxs}"));
                    }
                    if tend != e0 || tspan != want {
                        out.violation(format!("rlen-ne-span:lazy-variant_span:{driver}:{fcls}"), format!("lazy variant_end/variant_span = {tend}/{tspan}, the description gives {e0}/{want}\n{ctxs}"));
                    }
                }
            }
            if let Some(b) = &eager_buf {
                let eager = guard::catch(|| -> std::io::Result<(u64, u64)> { Ok((usize::from(vcf::variant::Record::variant_end(b, &hc.read_header)?) as u64, vcf::variant::Record::variant_span(b, &hc.read_header)? as u64)) });
                match eager {
                    Err(p) => out.violation(format!("panic:{}", p.sig), format!("variant_end/variant_span of the eager record panicked: {}\n{ctxs}", p.message)),
                    Ok(Err(e)) => out.violation(format!("rlen-ne-span:eager-error:{}:{driver}:{fcls}", io_err_class(&e)), format!("{e:?}\n{ctxs}")),
                    Ok(Ok((tend, tspan))) => {
                        if tend != e0 || tspan != want {
                            out.violation(format!("rlen-ne-span:eager-variant_span:{driver}:{fcls}"), format!("eager variant_end/variant_span = {tend}/{tspan}, the description gives {e0}/{want}\n{ctxs}"));
                        }
                    }
                }
            }
        }
    } else {
        out.count("span_outside_the_rule", 1);
    }
    for (k, _) in &rd.info {
        if let Some(d) = hd.info(k) {
            out.count(&format!("info[{}x{}]", d.num.class(), d.ty.text()), 1);
        }
    }
    for k in &rd.format {
        if let Some(d) = hd.format(k) {
            out.count(&format!("format[{}x{}]", d.num.class(), d.ty.text()), 1);
        }
    }
    for row in &rd.samples {
        for v in row.iter().flatten() {
            if let Val::Gt(g) = v {
                out.count(&format!("gt_ploidy[{}]", g.len()), 1);
                gt_coverage(g, ff, out);
            }
        }
    }
    match eager_desc {
        Some(fresh) if !raw_broken => Some(Accepted { bytes, buf, exp, fresh, lazy_ok }),
        _ => None,
    }
}

/// Inherent accessors of the lazy `bcf::Record` that the trait view does not go through.
fn lazy_inherent(hc: &HeaderCtx, rec: &bcf::Record, view: &RecDesc, out: &mut CaseOut, ctxs: &str) {
    use vcf::variant::record::{AlternateBases as _, Filters as _, Ids as _, Info as _, ReferenceBases as _, Samples as _};
    let h = &hc.read_header;
    macro_rules! bad {
        ($what:expr, $detail:expr) => {
            out.violation(format!("lazy-inherent-accessor-ne-trait-view:{}", $what), format!("{}\n{ctxs}", $detail))
        };
    }
    match rec.reference_sequence_id() {
        Ok(i) => {
            if hc.dict.contigs.get(i).and_then(|e| e.as_deref()) != Some(view.chrom.as_str()) {
                bad!("reference_sequence_id", format!("{i} is not {:?}", view.chrom));
            }
        }
        Err(e) => bad!("reference_sequence_id", e),
    }
    match rec.reference_sequence_name(h.string_maps()) {
        Ok(n) if n == view.chrom => {}
        other => bad!("reference_sequence_name", format!("{other:?} vs {:?}", view.chrom)),
    }
    match rec.quality_score() {
        Ok(q) if q.map(f32::to_bits) == view.qual => {}
        other => bad!("quality_score", format!("{other:?} vs {:?}", view.qual)),
    }
    if rec.ids().len() != view.ids.len() || rec.ids().is_empty() != view.ids.is_empty() {
        bad!("ids.len", format!("{} vs {}", rec.ids().len(), view.ids.len()));
    }
    if rec.reference_bases().len() != view.reference.len() || rec.reference_bases().is_empty() {
        bad!("reference_bases.len", format!("{} vs {}", rec.reference_bases().len(), view.reference.len()));
    }
    if rec.alternate_bases().len() != view.alts.len() || rec.alternate_bases().is_empty() != view.alts.is_empty() {
        bad!("alternate_bases.len", format!("{} vs {}", rec.alternate_bases().len(), view.alts.len()));
    }
    if rec.filters().len() != view.filters.len() || rec.filters().is_empty() != view.filters.is_empty() {
        bad!("filters.len", format!("{} vs {}", rec.filters().len(), view.filters.len()));
    }
    let info = rec.info();
    if info.len() != view.info.len() || vcf::variant::record::Info::is_empty(&info) != view.info.is_empty() {
        bad!("info.len", format!("{} vs {}", info.len(), view.info.len()));
    }
    for (k, v) in &view.info {
        match info.get(h, k) {
            None => bad!("info.get", format!("get({k:?}) = None")),
            Some(Err(e)) => bad!("info.get", format!("get({k:?}) = Err({e})")),
            Some(Ok(got)) => {
                if got.is_some() != v.is_some() {
                    bad!("info.get", format!("get({k:?}) presence {} vs iteration {}", got.is_some(), v.is_some()));
                }
            }
        }
    }
    if info.get(h, "no_such_key_").is_some() {
        bad!("info.get", "get(absent key) is Some");
    }
    match rec.samples() {
        Err(e) => bad!("samples", e),
        Ok(samples) => {
            if (!view.format.is_empty() && samples.len() != view.samples.len()) || samples.format_count() != view.format.len() {
                bad!("samples.len/format_count", format!("{}x{} vs {}x{}", samples.len(), samples.format_count(), view.samples.len(), view.format.len()));
            }
            for (fi, k) in view.format.iter().enumerate() {
                match samples.select(h, k) {
                    None => bad!("samples.select", format!("select({k:?}) = None")),
                    Some(Err(e)) => bad!("samples.select", format!("select({k:?}) = Err({e})")),
                    Some(Ok(series)) => {
                        if series.name(h).ok() != Some(k.as_str()) {
                            bad!("series.name", format!("{:?} vs {k:?}", series.name(h).ok()));
                        }
                        for (si, row) in view.samples.iter().enumerate() {
                            let exp = row.get(fi).cloned().unwrap_or(None);
                            let got = match series.get(h, si) {
                                None => {
                                    bad!("series.get", format!("get({si}) = None for key {k:?}"));
                                    continue;
                                }
                                Some(None) => None,
                                Some(Some(Err(e))) => {
                                    bad!("series.get", format!("get({si}) = Err({e})"));
                                    continue;
                                }
                                Some(Some(Ok(v))) => match genvcf::conv::val_of_series_ref(v) {
                                    Ok(v) => Some(v),
                                    Err(e) => {
                                        bad!("series.get", format!("get({si}) unreadable: {e}"));
                                        continue;
                                    }
                                },
                            };
                            if !genvcf::opt_val_eq(&exp, &got, &Tol::BITS) {
                                bad!("series.get", format!("key {k:?} sample {si}: {} vs {}", genvcf::show_val(&exp), genvcf::show_val(&got)));
                            }
                        }
                        if series.get(h, view.samples.len()).is_some() {
                            bad!("series.get", "get(sample count) is Some");
                        }
                    }
                }
            }
            if samples.select(h, "no_such_key_").is_some() {
                bad!("samples.select", "select(absent key) is Some");
            }
        }
    }
}

/// header + accepted records as ONE BCF file (raw, and written/read through BGZF), read the way users
/// do: one reader, one reused buffer, through every iteration API. Eagerly read records are compared
/// with the description (minus what the fresh single-record decode already got wrong), lazily read
/// ones with the fresh eager decode — so state left over from the previous record shows.
fn file_pass(hc: &HeaderCtx, recs: &[Accepted], hd: &HeaderDesc, out: &mut CaseOut) {
    let ff = hd.fileformat;
    let mut file = hc.file_prefix.clone();
    for r in recs {
        file.extend_from_slice(&r.bytes);
    }
    let bgzf_file = guard::catch(|| -> std::io::Result<Vec<u8>> {
        let mut w = bcf::io::Writer::new(Vec::new());
        w.write_header(&hc.header)?;
        for r in recs {
            w.write_variant_record(&hc.header, &r.buf)?;
        }
        w.try_finish()?;
        Ok(w.into_inner().into_inner())
    });
    let bgzf_file = match bgzf_file {
        Ok(Ok(d)) => Some(d),
        Ok(Err(e)) => {
            out.violation(format!("bgzf-file-pass:write:{}", io_err_class(&e)), format!("{e:?}"));
            None
        }
        Err(p) => {
            out.violation(format!("panic:{}", p.sig), format!("BGZF BCF writer panicked: {}", p.message));
            None
        }
    };
    let colkey = |d: &genvcf::FieldDiff| format!("{}|{}", d.column, d.key);
    let known: Vec<BTreeSet<String>> = recs.iter().map(|r| diff_records(&r.exp, &r.fresh, &Tol::BITS).iter().map(colkey).collect()).collect();
    let show = |i: usize| -> String { lossy(&to_vcf_line(&recs[i].exp, hd)) };
    let neighbour = |i: usize| -> String { if i == 0 { "(first record)".into() } else { format!("previous record: {}", show(i - 1)) } };
    for transport in ["raw", "bgzf"] {
        let data: &[u8] = match (transport, &bgzf_file) {
            ("raw", _) => &file,
            (_, Some(d)) => d,
            _ => continue,
        };
        for api in ["read_record_buf", "record_bufs", "read_record", "records"] {
            let h = &hc.read_header;
            let res = guard::catch(|| -> std::io::Result<Vec<Result<RecDesc, String>>> {
                let src: Box<dyn std::io::Read + '_> = if transport == "raw" { Box::new(data) } else { Box::new(noodles_bgzf::io::Reader::new(data)) };
                let mut rd = bcf::io::Reader::from(src);
                let _ = rd.read_header()?;
                let mut got: Vec<Result<RecDesc, String>> = Vec::new();
                match api {
                    "read_record_buf" => {
                        let mut buf = vcf::variant::RecordBuf::default();
                        while rd.read_record_buf(h, &mut buf)? != 0 {
                            got.push(Ok(rec_desc_of_buf(&buf)));
                        }
                    }
                    "record_bufs" => {
                        for r in rd.record_bufs(h) {
                            got.push(Ok(rec_desc_of_buf(&r?)));
                        }
                    }
                    "read_record" => {
                        let mut rec = bcf::Record::default();
                        while rd.read_record(&mut rec)? != 0 {
                            got.push(rec_desc_of_record(h, &rec).map_err(|e| io_err_class(&e)));
                        }
                    }
                    _ => {
                        for r in rd.records() {
                            got.push(rec_desc_of_record(h, &r?).map_err(|e| io_err_class(&e)));
                        }
                    }
                }
                Ok(got)
            });
            let lazy = api == "read_record" || api == "records";
            match res {
                Err(p) => out.violation(format!("panic:{}", p.sig), format!("whole-file pass ({transport}, {api}) panicked: {}", p.message)),
                Ok(Err(e)) => out.violation(format!("file-pass:{api}:{}", io_err_class(&e)), format!("{transport} file of {} records, {api}: {e:?}", recs.len())),
                Ok(Ok(got)) => {
                    if got.len() != recs.len() {
                        out.violation(format!("file-pass:{api}:record-count"), format!("{transport}: {} records read, {} written", got.len(), recs.len()));
                    }
                    for (i, g) in got.into_iter().enumerate().take(recs.len()) {
                        match g {
                            Err(cls) => {
                                if recs[i].lazy_ok {
                                    out.violation(format!("reused-buffer:{api}:accessor-error:{cls}"), format!("{transport}, record #{i}: {}\n{}", show(i), neighbour(i)));
                                }
                            }
                            Ok(g) => {
                                let g = canon_rec(g, ff);
                                let reference = if lazy { &recs[i].fresh } else { &recs[i].exp };
                                for d in diff_records(reference, &g, &Tol::BITS) {
                                    if lazy || !known[i].contains(&colkey(&d)) {
                                        out.violation(
                                            format!("reused-buffer:{api}:{}:{}", d.column, d.class),
                                            format!("{transport} BCF file read through one reader / one reused buffer, record #{i}, {} {}: {} ({} vs read in sequence)\nrecord: {}\n{}", d.column, d.key, d.detail, if lazy { "fresh eager decode" } else { "description" }, show(i), neighbour(i)),
                                        );
                                    }
                                }
                            }
                        }
                    }
                    out.count(&format!("file_pass_records[{transport}|{api}]"), recs.len() as u64);
                }
            }
        }
    }
    out.count("file_pass_records", recs.len() as u64);
    let rich = |r: &RecDesc| r.ids.len() >= 2 && r.alts.len() >= 2 && r.qual.is_some() && r.info.len() >= 3;
    let minimal = |r: &RecDesc| r.ids.is_empty() && r.alts.is_empty() && r.qual.is_none() && r.info.len() <= 1;
    for w in recs.windows(2) {
        if rich(&w[0].exp) && minimal(&w[1].exp) {
            out.count("adjacent_rich_then_minimal", 1);
            if w[1].exp.format.is_empty() && !w[0].exp.format.is_empty() {
                out.count("adjacent_rich_then_no_format", 1);
            }
        }
        if minimal(&w[0].exp) && rich(&w[1].exp) {
            out.count("adjacent_minimal_then_rich", 1);
        }
    }
}

/// Deliberately unrepresentable values (beyond the invalid integers the generator emits itself).
fn inject_unrepresentable(rng: &mut Rng, r: &mut RecDesc) -> Option<&'static str> {
    let mut done = None;
    for (_, v) in r.info.iter_mut() {
        if let Some(Val::Strs(a)) = v {
            if let Some(Some(s)) = a.iter_mut().find(|e| e.is_some()) {
                *s = format!("{}a,b", if rng.bool() { "x" } else { "" });
                done = Some("info-string-array-element-with-comma");
                break;
            }
        }
    }
    if done.is_none() {
        'outer: for row in r.samples.iter_mut() {
            for v in row.iter_mut() {
                match v {
                    Some(Val::Strs(a)) => {
                        if let Some(Some(s)) = a.iter_mut().find(|e| e.is_some()) {
                            *s = "p,q".into();
                            done = Some("format-string-array-element-with-comma");
                            break 'outer;
                        }
                    }
                    Some(Val::Str(s)) => {
                        *s = ".".into();
                        done = Some("format-string-lone-dot");
                        break 'outer;
                    }
                    _ => {}
                }
            }
        }
    }
    done
}

/// Coverage of genotype separator orders per fileformat (ploidy >= 3).
fn gt_coverage(g: &[GtAllele], ff: (u32, u32), out: &mut CaseOut) {
    if g.len() < 3 {
        return;
    }
    let seps: Vec<bool> = g.iter().skip(1).map(|a| a.phased).collect();
    if seps.iter().any(|p| *p) && seps.iter().any(|p| !*p) {
        out.count(&format!("gt_mixed_separators[{}.{}]", ff.0, ff.1), 1);
        if *seps.last().unwrap() && seps[..seps.len() - 1].iter().any(|p| !*p) {
            out.count(&format!("gt_last_phased_earlier_unphased[{}.{}]", ff.0, ff.1), 1);
        }
        if !*seps.last().unwrap() {
            out.count(&format!("gt_last_unphased_earlier_phased[{}.{}]", ff.0, ff.1), 1);
        }
    }
}

/// Largest allele index any genotype of the record names.
fn max_gt_allele(r: &RecDesc) -> u32 {
    r.samples.iter().flatten().flatten().filter_map(|v| if let Val::Gt(g) = v { g.iter().filter_map(|a| a.allele).max() } else { None }).max().unwrap_or(0)
}

/// Which term of the span rule decides the end of a record (ties go to REF).
fn span_driver(r: &RecDesc, ff: (u32, u32)) -> &'static str {
    let reflen = r.reference.len() as i64;
    if ff < (4, 5) {
        return if matches!(r.info_get("END"), Some(Some(_))) { "END" } else { "REF" };
    }
    let svlen = match r.info_get("SVLEN") {
        Some(Some(Val::Ints(a))) => a.iter().flatten().map(|v| *v as i64).max().unwrap_or(0),
        _ => 0,
    };
    let len = r.format_index("LEN").map(|fi| r.samples.iter().filter_map(|row| if let Some(Some(Val::Int(n))) = row.get(fi) { Some(*n as i64) } else { None }).max().unwrap_or(0)).unwrap_or(0);
    let m = reflen.max(svlen).max(len);
    if m == reflen { "REF" } else if m == len { "LEN" } else { "SVLEN" }
}

/// VCF 4.5 records whose end is decided by FORMAT LEN: INFO empty / non-empty x LEN absent / missing in
/// every sample / present in some / larger / smaller than REF x `<*>` alone and in mixed ALT lists.
/// Needs a 4.5 header that declares FORMAT LEN (and GT); `at` supplies CHROM and POS.
fn len_matrix(h: &HeaderDesc, at: &RecDesc) -> Vec<RecDesc> {
    let mut out = Vec::new();
    if h.fileformat < (4, 5) || h.format("LEN").is_none() || h.format("GT").is_none() || h.samples.is_empty() {
        return out;
    }
    let ns = h.samples.len();
    let info_key = h.infos.iter().find(|d| d.ty == Ty::Integer && d.num.is_scalar() && d.id != "END").map(|d| d.id.clone());
    let gt = || Some(Val::Gt(vec![GtAllele { allele: Some(0), phased: false }, GtAllele { allele: Some(0), phased: false }]));
    for (reference, alts) in [("A", vec!["<*>"]), ("ACGTACGT", vec!["<*>"]), ("A", vec!["C", "<*>"]), ("ACGTACGT", vec!["<*>", "AC", "<NON_REF>"])] {
        for info_nonempty in [false, true] {
            for pattern in 0..5u32 {
                let mut r = RecDesc { chrom: at.chrom.clone(), pos: at.pos.clamp(1, 1_000_000), ids: vec![], reference: reference.into(), alts: alts.iter().map(|s| s.to_string()).collect(), qual: None, filters: vec![], info: vec![], format: vec!["GT".into()], samples: (0..ns).map(|_| vec![gt()]).collect() };
                if info_nonempty {
                    match &info_key {
                        Some(k) => r.info.push((k.clone(), Some(Val::Int(7)))),
                        None => continue,
                    }
                }
                match pattern {
                    0 => {} // no LEN key
                    p => {
                        r.format.push("LEN".into());
                        for (si, row) in r.samples.iter_mut().enumerate() {
                            row.push(match p {
                                1 => None,
                                2 => if si == 0 { Some(Val::Int(50)) } else { None },
                                3 => Some(Val::Int(120 + 70 * si as i32)),
                                _ => Some(Val::Int(3)),
                            });
                        }
                    }
                }
                out.push(r);
            }
        }
    }
    out
}

/// Non-ASCII text everywhere BCF stores UTF-8: Character values (INFO / FORMAT, scalar, fixed-size and
/// ragged vectors, mixed with ASCII and missing entries so that per-sample padding widths differ),
/// String values, IDs, FILTER and contig names. 2-, 3- and 4-byte code points at the UTF-8 length edges.
fn non_ascii_case(minor: u32) -> (HeaderDesc, Vec<RecDesc>) {
    let h = HeaderDesc {
        fileformat: (4, minor),
        infos: vec![fdef("c1", Num::Count(1), Ty::Character), fdef("cA", Num::Dot, Ty::Character), fdef("s1", Num::Count(1), Ty::String), fdef("sA", Num::Dot, Ty::String)],
        filters: vec![FilterDef { id: "f\u{e9}".into(), desc: "d".into(), idx: None, extra: vec![] }, FilterDef { id: "\u{4e2d}\u{10000}".into(), desc: "d".into(), idx: None, extra: vec![] }],
        formats: vec![fdef("GT", Num::Count(1), Ty::String), fdef("c1", Num::Count(1), Ty::Character), fdef("c3", Num::Count(3), Ty::Character), fdef("cV", Num::Dot, Ty::Character), fdef("s1", Num::Count(1), Ty::String), fdef("sV", Num::Dot, Ty::String)],
        alts: vec![],
        contigs: vec![ContigDef { id: "1".into(), length: None, md5: None, url: None, idx: None, extra: vec![] }, ContigDef { id: "chr\u{c5}\u{3b1}".into(), length: None, md5: None, url: None, idx: None, extra: vec![] }],
        others: vec![],
        samples: vec!["S1".into(), "S\u{fc}2".into()],
    };
    let cps: Vec<char> = [0x80u32, 0xe9, 0xff, 0x100, 0x141, 0x3b1, 0x7ff, 0x800, 0x4e2d, 0xfffd, 0x10000, 0x1f600].iter().map(|c| char::from_u32(*c).unwrap()).collect();
    let gt = || Some(Val::Gt(vec![GtAllele { allele: Some(0), phased: false }, GtAllele { allele: Some(1), phased: false }]));
    let mut recs = Vec::new();
    for (i, &c) in cps.iter().enumerate() {
        let d = cps[(i + 5) % cps.len()];
        let base = RecDesc { chrom: "1".into(), pos: 100 + recs.len() as u64, ids: vec![], reference: "A".into(), alts: vec!["C".into()], qual: None, filters: vec![], info: vec![], format: vec!["GT".into()], samples: vec![vec![gt()], vec![gt()]] };
        let mut push = |f: &dyn Fn(&mut RecDesc)| {
            let mut r = base.clone();
            r.pos = 100 + recs.len() as u64;
            f(&mut r);
            recs.push(r);
        };
        push(&|r| r.info = vec![("c1".into(), Some(Val::Char(c)))]);
        push(&|r| r.info = vec![("cA".into(), Some(Val::Chars(vec![Some(c), Some('a'), None, Some(d)])))]);
        push(&|r| r.info = vec![("s1".into(), Some(Val::Str(format!("x{c}y{d}")))), ("sA".into(), Some(Val::Strs(vec![Some(c.to_string()), None, Some(format!("{d}{c}"))])))]);
        let fmt = |k: &str, a: Option<Val>, b: Option<Val>| {
            let k = k.to_string();
            move |r: &mut RecDesc| {
                r.format.push(k.clone());
                r.samples[0].push(a.clone());
                r.samples[1].push(b.clone());
            }
        };
        push(&fmt("c1", Some(Val::Char(c)), Some(Val::Char('x'))));
        push(&fmt("c1", Some(Val::Char('x')), Some(Val::Char(c))));
        push(&fmt("c1", Some(Val::Char(c)), None));
        push(&fmt("c1", Some(Val::Char(c)), Some(Val::Char(d))));
        push(&fmt("c3", Some(Val::Chars(vec![Some(c), Some('a'), Some(d)])), Some(Val::Chars(vec![Some('b'), Some('c'), Some('d')]))));
        push(&fmt("c3", Some(Val::Chars(vec![Some('a'), None, Some('b')])), Some(Val::Chars(vec![Some(c), Some(c), Some(c)]))));
        push(&fmt("cV", Some(Val::Chars(vec![Some(c)])), Some(Val::Chars(vec![Some('a'), Some('b'), Some(c)]))));
        push(&fmt("cV", Some(Val::Chars(vec![Some(c), None, Some('a')])), None));
        push(&fmt("cV", Some(Val::Chars(vec![Some('a'), Some('b')])), Some(Val::Chars(vec![Some(d), Some(c)]))));
        push(&fmt("s1", Some(Val::Str(format!("{c}"))), Some(Val::Str("plain".into()))));
        push(&fmt("s1", Some(Val::Str(format!("a{c}{d}"))), None));
        push(&fmt("sV", Some(Val::Strs(vec![Some(format!("{c}")), Some("a".into())])), Some(Val::Strs(vec![Some(format!("{d}{d}{c}"))]))));
        // IDs, FILTER names, contig name
        push(&|r| r.ids = vec![format!("rs{c}"), format!("{d}id")]);
        push(&|r| r.filters = vec!["f\u{e9}".into(), "\u{4e2d}\u{10000}".into()]);
        push(&|r| r.chrom = "chr\u{c5}\u{3b1}".into());
    }
    (h, recs)
}

/// Distinct short allele strings (never equal to REF `A`).
fn short_alleles(n: usize) -> Vec<String> {
    let mut v = Vec::new();
    let mut k = 0usize;
    while v.len() < n {
        k += 1;
        let mut x = k;
        let mut s = String::new();
        while x > 0 {
            s.push(['A', 'C', 'G', 'T'][x % 4]);
            x /= 4;
        }
        if s != "A" && !v.contains(&s) {
            v.push(s);
        }
    }
    v
}

/// Records with many ALT alleles whose genotypes reference the allele indices around the int8
/// genotype code boundary ((allele + 1) << 1 must stay below 128) in every ploidy / position /
/// phasing; returns the records and the indices of those to hand over as a GT *string*.
fn many_alt_case(minor: u32) -> (HeaderDesc, Vec<RecDesc>, Vec<usize>) {
    let h = HeaderDesc {
        fileformat: (4, minor),
        infos: vec![fdef("AC", Num::A, Ty::Integer), fdef("gG", Num::G, Ty::Integer)],
        filters: vec![],
        formats: vec![fdef("GT", Num::Count(1), Ty::String), fdef("AD", Num::R, Ty::Integer), fdef("PL", Num::G, Ty::Integer)],
        alts: vec![],
        contigs: vec![ContigDef { id: "1".into(), length: None, md5: None, url: None, idx: None, extra: vec![] }],
        others: vec![],
        samples: vec!["S1".into(), "S2".into()],
    };
    let mut recs = Vec::new();
    let mut strs = Vec::new();
    for n_alleles in [62usize, 63, 64, 65, 127, 128, 200] {
        let alts = short_alleles(n_alleles - 1);
        let mut first = true;
        for t in [61usize, 62, 63, 64, 126, 127, 128, 199] {
            if t >= n_alleles {
                continue;
            }
            for ploidy in 1..=4usize {
                for p in 0..ploidy {
                    for phased in [false, true] {
                        let mut g: Vec<GtAllele> = (0..ploidy).map(|i| GtAllele { allele: Some(if i == p { t as u32 } else { (i % 2) as u32 }), phased: i > 0 && phased }).collect();
                        g[0].phased = if minor >= 4 { false } else { genvcf::implied_first_phasing(&g) };
                        let other = vec![GtAllele { allele: Some(0), phased: false }, GtAllele { allele: Some(1), phased: false }];
                        let mut r = RecDesc { chrom: "1".into(), pos: 1000 + recs.len() as u64, ids: vec![], reference: "A".into(), alts: alts.clone(), qual: None, filters: vec![], info: vec![], format: vec!["GT".into()], samples: vec![vec![Some(Val::Gt(g.clone()))], vec![Some(Val::Gt(other))]] };
                        if first {
                            // Number=A / R / G vectors as long as the allele list demands (diploid G)
                            first = false;
                            let n = n_alleles;
                            r.info = vec![("AC".into(), Some(Val::Ints((0..n - 1).map(|i| Some(i as i32)).collect()))), ("gG".into(), Some(Val::Ints((0..n * (n + 1) / 2).map(|i| Some(i as i32 % 300)).collect())))];
                            r.format = vec!["GT".into(), "AD".into(), "PL".into()];
                            for row in r.samples.iter_mut() {
                                row.push(Some(Val::Ints((0..n).map(|i| Some(i as i32)).collect())));
                                row.push(Some(Val::Ints((0..n * (n + 1) / 2).map(|i| Some((i % 256) as i32)).collect())));
                            }
                        }
                        // the string form has no way to say "first allele phased": use it where it is unphased
                        if !g[0].phased && (p + ploidy + t) % 2 == 0 {
                            strs.push(recs.len());
                        }
                        recs.push(r);
                    }
                }
            }
        }
    }
    (h, recs, strs)
}

/// Typed vector / string lengths around the descriptor's 4-bit length field (14, 15, 16) and around
/// the width of the overflow length itself (127/128, 255/256), INFO and FORMAT, every type.
fn vector_length_case(minor: u32) -> (HeaderDesc, Vec<RecDesc>) {
    let h = HeaderDesc {
        fileformat: (4, minor),
        infos: vec![fdef("iV", Num::Dot, Ty::Integer), fdef("fV", Num::Dot, Ty::Float), fdef("sV", Num::Dot, Ty::String), fdef("cV", Num::Dot, Ty::Character), fdef("s1", Num::Count(1), Ty::String)],
        filters: vec![],
        formats: vec![fdef("GT", Num::Count(1), Ty::String), fdef("iV", Num::Dot, Ty::Integer), fdef("fV", Num::Dot, Ty::Float), fdef("sV", Num::Dot, Ty::String), fdef("cV", Num::Dot, Ty::Character), fdef("s1", Num::Count(1), Ty::String)],
        alts: vec![],
        contigs: vec![ContigDef { id: "1".into(), length: None, md5: None, url: None, idx: None, extra: vec![] }],
        others: vec![],
        samples: vec!["S1".into(), "S2".into()],
    };
    let mut recs = Vec::new();
    let gt = || Some(Val::Gt(vec![GtAllele { allele: Some(0), phased: false }, GtAllele { allele: Some(1), phased: false }]));
    for len in [1usize, 2, 13, 14, 15, 16, 17, 126, 127, 128, 129, 255, 256, 257] {
        let vals: Vec<(&str, Val, Val)> = vec![
            ("iV", Val::Ints((0..len).map(|i| Some(i as i32 % 100)).collect()), Val::Ints(vec![Some(1)])),
            ("fV", Val::Floats((0..len).map(|i| Some((i as f32 / 2.0).to_bits())).collect()), Val::Floats(vec![Some(0)])),
            ("cV", Val::Chars((0..len).map(|i| Some((b'a' + (i % 26) as u8) as char)).collect()), Val::Chars(vec![Some('z')])),
            // byte length of the joined string = len: elements of one letter, (len + 1) / 2 of them
            ("sV", Val::Strs((0..len.div_ceil(2)).map(|i| Some(if len % 2 == 0 && i == 0 { "xy".to_string() } else { "x".to_string() })).collect()), Val::Strs(vec![Some("q".into())])),
            ("s1", Val::Str("s".repeat(len)), Val::Str("t".into())),
        ];
        for (k, long, short) in vals {
            let base = RecDesc { chrom: "1".into(), pos: 100 + recs.len() as u64, ids: vec![], reference: "A".into(), alts: vec!["C".into()], qual: None, filters: vec![], info: vec![], format: vec!["GT".into()], samples: vec![vec![gt()], vec![gt()]] };
            let mut r = base.clone();
            r.info = vec![(k.to_string(), Some(long.clone()))];
            recs.push(r);
            let mut r = base.clone();
            r.format.push(k.to_string());
            r.samples[0].push(Some(long.clone()));
            r.samples[1].push(Some(short.clone()));
            recs.push(r);
            let mut r = base;
            r.format.push(k.to_string());
            r.samples[0].push(Some(short));
            r.samples[1].push(Some(long));
            recs.push(r);
        }
        // REF / ALT / ID strings of that length
        let mut r = RecDesc { chrom: "1".into(), pos: 100 + recs.len() as u64, ids: vec!["i".repeat(len)], reference: "A".repeat(len), alts: vec!["C".repeat(len)], qual: None, filters: vec![], info: vec![], format: vec!["GT".into()], samples: vec![vec![gt()], vec![gt()]] };
        recs.push(r.clone());
        r.ids.clear();
        recs.push(r);
    }
    (h, recs)
}

/// A header whose dictionaries are `n_info` INFO + 6 FILTER + 8 FORMAT entries (order of appearance)
/// and `n_contig` contigs, and records that use the entries around the int8/int16 (127/128) and
/// int16/int32 (32767/32768) index boundaries as INFO keys, FILTER vectors, FORMAT keys and CHROM.
fn big_dictionary_case(minor: u32, n_info: usize, n_contig: usize) -> (HeaderDesc, Vec<RecDesc>) {
    let mut h = HeaderDesc { fileformat: (4, minor), infos: vec![], filters: vec![], formats: vec![fdef("GT", Num::Count(1), Ty::String)], alts: vec![], contigs: vec![], others: vec![], samples: vec!["S1".into()] };
    for i in 0..n_info {
        h.infos.push(FieldDef { id: format!("k{i}"), num: if i % 2 == 0 { Num::Count(1) } else { Num::Count(0) }, ty: if i % 2 == 0 { Ty::Integer } else { Ty::Flag }, desc: "d".into(), idx: None, extra: vec![] });
    }
    for i in 0..6 {
        h.filters.push(FilterDef { id: format!("f{i}"), desc: "d".into(), idx: None, extra: vec![] });
    }
    for i in 0..7 {
        h.formats.push(fdef(&format!("x{i}"), Num::Count(1), Ty::Integer));
    }
    for i in 0..n_contig {
        h.contigs.push(ContigDef { id: format!("c{i}"), length: None, md5: None, url: None, idx: None, extra: vec![] });
    }
    let gt = || Some(Val::Gt(vec![GtAllele { allele: Some(0), phased: false }, GtAllele { allele: Some(1), phased: false }]));
    let mut recs = Vec::new();
    let info_val = |i: usize| -> (String, Option<Val>) { (format!("k{i}"), Some(if i % 2 == 0 { Val::Int(i as i32) } else { Val::Flag })) };
    // INFO keys: the last ones, singly and together with low ones
    for back in 0..8usize.min(n_info) {
        let i = n_info - 1 - back;
        let mut r = RecDesc { chrom: format!("c{}", (n_contig - 1).saturating_sub(back * 37) % n_contig), pos: 10 + recs.len() as u64, ids: vec![], reference: "A".into(), alts: vec!["C".into()], qual: None, filters: vec![], info: vec![info_val(i)], format: vec!["GT".into()], samples: vec![vec![gt()]] };
        recs.push(r.clone());
        r.info = vec![info_val(0), info_val(i), info_val(1)];
        recs.push(r);
    }
    for i in [125usize, 126, 127, 128, 129, 254, 255, 256, 32765, 32766, 32767, 32768] {
        if i < n_info {
            recs.push(RecDesc { chrom: format!("c{}", i % n_contig), pos: 10 + recs.len() as u64, ids: vec![], reference: "A".into(), alts: vec![], qual: None, filters: vec![], info: vec![info_val(i)], format: vec!["GT".into()], samples: vec![vec![gt()]] });
        }
    }
    // FILTER vectors (dictionary positions n_info+1 ..) alone, PASS + high, all six
    for set in [vec![0usize], vec![5], vec![0, 5], vec![1, 2, 3], vec![0, 1, 2, 3, 4, 5]] {
        recs.push(RecDesc { chrom: "c0".into(), pos: 10 + recs.len() as u64, ids: vec![], reference: "A".into(), alts: vec![], qual: None, filters: set.iter().map(|i| format!("f{i}")).collect(), info: vec![], format: vec!["GT".into(), "x6".into(), "x0".into()], samples: vec![vec![gt(), Some(Val::Int(1)), Some(Val::Int(2))]] });
    }
    // every contig around the boundaries
    for i in [0usize, 126, 127, 128, 129, 255, 256, 299] {
        if i < n_contig {
            recs.push(RecDesc { chrom: format!("c{i}"), pos: 5, ids: vec![], reference: "A".into(), alts: vec![], qual: None, filters: vec!["PASS".into()], info: vec![], format: vec!["GT".into()], samples: vec![vec![gt()]] });
        }
    }
    (h, recs)
}

fn fdef(id: &str, num: Num, ty: Ty) -> FieldDef {
    FieldDef { id: id.into(), num, ty, desc: format!("{id} field"), idx: None, extra: vec![] }
}

/// Hand-written corpus: basics and a witness of every known finding.
fn corpus() -> Vec<(HeaderDesc, Vec<RecDesc>)> {
    let h = HeaderDesc {
        fileformat: (4, 3),
        infos: vec![fdef("DP", Num::Count(1), Ty::Integer), fdef("AF", Num::A, Ty::Float), fdef("iA", Num::Dot, Ty::Integer), fdef("sI", Num::Count(1), Ty::String), fdef("sA", Num::Dot, Ty::String), fdef("DB", Num::Count(0), Ty::Flag)],
        filters: vec![FilterDef { id: "q10".into(), desc: "Quality below 10".into(), idx: None, extra: vec![] }],
        formats: vec![fdef("GT", Num::Count(1), Ty::String), fdef("GQ", Num::Count(1), Ty::Integer), fdef("AD", Num::R, Ty::Integer), fdef("fS", Num::Count(1), Ty::String), fdef("fSA", Num::Dot, Ty::String)],
        alts: vec![],
        contigs: vec![ContigDef { id: "20".into(), length: Some(62435964), md5: None, url: None, idx: None, extra: vec![] }, ContigDef { id: "21".into(), length: None, md5: None, url: None, idx: None, extra: vec![] }],
        others: vec![],
        samples: vec!["NA00001".into(), "NA00002".into()],
    };
    let gt = |v: &[(Option<u32>, bool)]| Some(Val::Gt(v.iter().map(|(a, p)| GtAllele { allele: *a, phased: *p }).collect()));
    let base = RecDesc {
        chrom: "20".into(),
        pos: 14370,
        ids: vec!["rs6054257".into()],
        reference: "G".into(),
        alts: vec!["A".into()],
        qual: Some(29f32.to_bits()),
        filters: vec!["PASS".into()],
        info: vec![("DP".into(), Some(Val::Int(14))), ("AF".into(), Some(Val::Floats(vec![Some(0.5f32.to_bits())]))), ("DB".into(), Some(Val::Flag))],
        format: vec!["GT".into(), "GQ".into()],
        samples: vec![vec![gt(&[(Some(0), true), (Some(0), true)]), Some(Val::Int(48))], vec![gt(&[(Some(1), true), (Some(0), true)]), Some(Val::Int(48))]],
    };
    let base_for_gt = base.clone();
    let mut recs = vec![base.clone()];
    // width boundaries, scalar and vector, INFO and FORMAT
    for v in [-121, -120, 127, 128, -32761, -32760, 32767, 32768, i32::MIN + 8, i32::MAX] {
        let mut r = base.clone();
        r.info = vec![("DP".into(), Some(Val::Int(v))), ("iA".into(), Some(Val::Ints(vec![Some(0), None, Some(v)])))];
        r.format = vec!["GT".into(), "GQ".into(), "AD".into()];
        r.samples = vec![vec![gt(&[(Some(0), false), (Some(1), false)]), Some(Val::Int(v)), Some(Val::Ints(vec![Some(v), Some(1)]))], vec![gt(&[(Some(1), false), (Some(1), false)]), None, Some(Val::Ints(vec![Some(3), None]))]];
        recs.push(r);
    }
    // below the representable range: must be rejected
    let mut r = base.clone();
    r.info = vec![("DP".into(), Some(Val::Int(i32::MIN + 7)))];
    recs.push(r);
    let mut r = base.clone();
    r.format = vec!["GT".into(), "AD".into()];
    r.samples = vec![vec![gt(&[(Some(0), false), (Some(1), false)]), Some(Val::Ints(vec![Some(i32::MIN), Some(1)]))], vec![gt(&[(Some(1), false), (Some(1), false)]), Some(Val::Ints(vec![Some(3), Some(4)]))]];
    recs.push(r);
    // known finding witnesses
    let mut r = base.clone(); // INFO key with a missing value
    r.info = vec![("DP".into(), None)];
    recs.push(r);
    let mut r = base.clone(); // triploid next to diploid
    r.samples = vec![vec![gt(&[(Some(0), false), (Some(1), false), (Some(1), false)]), Some(Val::Int(1))], vec![gt(&[(Some(0), false), (Some(1), false)]), Some(Val::Int(2))]];
    recs.push(r);
    let mut r = base.clone(); // phased missing allele
    r.samples = vec![vec![gt(&[(Some(0), true), (None, true)]), Some(Val::Int(1))], vec![gt(&[(Some(0), false), (Some(1), false)]), Some(Val::Int(2))]];
    recs.push(r);
    let mut r = base.clone(); // vector field missing in every sample
    r.format = vec!["GT".into(), "AD".into()];
    r.samples = vec![vec![gt(&[(Some(0), false), (Some(1), false)]), None], vec![gt(&[(Some(1), false), (Some(1), false)]), None]];
    recs.push(r);
    let mut r = base.clone(); // one-element integer vector that needs 16 / 32 bits
    r.info = vec![("iA".into(), Some(Val::Ints(vec![Some(300)])))];
    recs.push(r.clone());
    r.info = vec![("iA".into(), Some(Val::Ints(vec![Some(70000)])))];
    recs.push(r);
    let mut r = base.clone(); // string vector element holding a comma
    r.info = vec![("sA".into(), Some(Val::Strs(vec![Some("a,b".into()), Some("c".into())])))];
    recs.push(r);
    let mut r = base.clone();
    r.format = vec!["GT".into(), "fSA".into()];
    r.samples = vec![vec![gt(&[(Some(0), false), (Some(1), false)]), Some(Val::Strs(vec![Some("p,q".into())]))], vec![gt(&[(Some(1), false), (Some(1), false)]), Some(Val::Strs(vec![Some("r".into())]))]];
    recs.push(r);
    let mut r = base.clone(); // a FORMAT string that is a lone dot
    r.format = vec!["GT".into(), "fS".into()];
    r.samples = vec![vec![gt(&[(Some(0), false), (Some(1), false)]), Some(Val::Str(".".into()))], vec![gt(&[(Some(1), false), (Some(1), false)]), Some(Val::Str("x".into()))]];
    recs.push(r);
    // rich / minimal neighbours for the reused-buffer file passes (deterministic)
    {
        let mut rng = Rng::new(9, 9, 9);
        let ro = RecOpts::bcf();
        for kind in [1u64, 3, 2, 3] {
            let rich = gen_rich_record(&mut rng, &h, &ro);
            recs.push(rich.clone());
            recs.push(genvcf::minimal_record(&h, &rich, kind));
        }
        recs.push(gen_rich_record(&mut rng, &h, &ro));
    }
    let mut out = vec![(h.clone(), recs)];
    // VCF 4.5 records whose end is decided by FORMAT LEN
    {
        let mut h45 = h.clone();
        h45.fileformat = (4, 5);
        h45.formats.push(fdef("LEN", Num::Count(1), Ty::Integer));
        h45.infos.push(fdef("SVLEN", Num::A, Ty::Integer));
        let mut m = len_matrix(&h45, &base_for_gt);
        // and by SVLEN (one value per ALT, the symbolic allele's decides)
        for svlen in [vec![Some(500)], vec![None, Some(70000)], vec![Some(1), Some(2)]] {
            let mut r = base_for_gt.clone();
            r.alts = if svlen.len() == 1 { vec!["<DEL>".into()] } else { vec!["C".into(), "<DUP>".into()] };
            r.info = vec![("SVLEN".into(), Some(Val::Ints(svlen)))];
            m.push(r);
        }
        out.push((h45, m));
    }
    // ploidy 3 / 4 genotypes with every order of `/` and `|` separators under every fileformat
    for minor in 2..=5u32 {
        let mut hv = h.clone();
        hv.fileformat = (4, minor);
        let m = genvcf::gt_separator_matrix(&hv, &base_for_gt);
        out.push((hv, m));
    }
    {
        let mut h0 = h.clone();
        h0.samples.clear();
        let mut rng = Rng::new(9, 9, 10);
        let ro = RecOpts::bcf();
        let mut recs0 = Vec::new();
        for kind in [3u64, 1] {
            let rich = gen_rich_record(&mut rng, &h0, &ro);
            recs0.push(rich.clone());
            recs0.push(genvcf::minimal_record(&h0, &rich, kind));
        }
        recs0.push(gen_rich_record(&mut rng, &h0, &ro));
        out.push((h0, recs0));
    }
    // explicit IDX: natural (dictionary unchanged) and permuted
    let mut hn = h.clone();
    let mut rng = Rng::new(1, 2, 3);
    genvcf::assign_idx(&mut rng, &mut hn, IdxMode::Natural);
    out.push((hn, vec![base.clone()]));
    let mut hp = h.clone();
    for (i, d) in hp.infos.iter_mut().enumerate() {
        d.idx = Some(20 - i);
    }
    for (i, d) in hp.formats.iter_mut().enumerate() {
        d.idx = Some(200 + 7 * i);
    }
    hp.filters[0].idx = Some(40000);
    hp.contigs[0].idx = Some(1);
    hp.contigs[1].idx = Some(0);
    let mut rq = base.clone();
    rq.filters = vec!["q10".into()];
    out.push((hp, vec![base, rq]));
    out
}

fn run_case(c: &Case) -> CaseOut {
    let mut out = CaseOut::new();
    out.evaluations = 0;
    let mut fps: BTreeSet<u64> = BTreeSet::new();
    let mut do_records = |hd: &HeaderDesc, recs: &[RecDesc], gt_strings: &[usize], out: &mut CaseOut| {
        out.evaluations += 1;
        let Some(hc) = check_header(hd, out) else { return };
        let mut w = bcf::io::Writer::from(Vec::new());
        if w.write_header(&hc.header).is_err() {
            return;
        }
        let mut accepted = Vec::new();
        for (ri, rd) in recs.iter().enumerate() {
            out.evaluations += 1;
            if let Some(b) = check_record(hd, &hc, &mut w, rd, gt_strings.contains(&ri), out) {
                accepted.push(b);
            }
            for f in features(rd, hd) {
                fps.insert(fnv1a(format!("{f}|idx:{}", hd.has_explicit_idx()).as_bytes()));
            }
        }
        if !accepted.is_empty() {
            file_pass(&hc, &accepted, hd, out);
        }
    };
    match c.kind {
        "corpus" => {
            for (hd, recs) in corpus() {
                do_records(&hd, &recs, &[], &mut out);
            }
        }
        "records" => {
            let mut rng = Rng::new(c.seed, 0xC10, 1);
            let ho = HeaderOpts { fileformat: c.fileformat, max_samples: if c.seed % 9 == 0 { 30 } else { 6 }, idx: c.idx, model: Model::Bcf, extras: c.seed % 3 == 0, min_contig_len: None, v45_numbers: false };
            let mut hd = gen_header(&mut rng, &ho);
            if hd.fileformat >= (4, 5) && hd.format("LEN").is_none() && c.seed % 4 != 3 {
                // most 4.5 cases declare FORMAT LEN (same dictionary slot rules as any FORMAT line)
                let idx = hd.formats.iter().filter_map(|d| d.idx).max().map(|m| m.max(hd.infos.iter().filter_map(|d| d.idx).max().unwrap_or(0)).max(hd.filters.iter().filter_map(|d| d.idx).max().unwrap_or(0)) + 1);
                hd.formats.push(FieldDef { id: "LEN".into(), num: Num::Count(1), ty: Ty::Integer, desc: "Length of <*> reference block".into(), idx: if hd.has_explicit_idx() { idx } else { None }, extra: vec![] });
            }
            let ro = RecOpts { model: Model::Bcf, nan: true, invalid_ints: true, rare: 16 };
            let mut recs: Vec<RecDesc> = Vec::new();
            for i in 0..c.n {
                // "rich, minimal, rich" runs inside every batch (stale state of reused buffers)
                match i % 20 {
                    0 | 2 | 5 => {
                        recs.push(gen_rich_record(&mut rng, &hd, &ro));
                        continue;
                    }
                    1 | 4 => {
                        let at = gen_record(&mut rng, &hd, &ro);
                        recs.push(minimal_record(&hd, &at, [1u64, 3, 2, 3, 0][(i / 20 + i) % 5]));
                        continue;
                    }
                    7 | 8 | 9 => {
                        // VCF 4.5: records whose end is decided by FORMAT LEN (INFO empty and not)
                        let at = gen_record(&mut rng, &hd, &ro);
                        let m = len_matrix(&hd, &at);
                        if !m.is_empty() {
                            recs.push(rng.pick(&m).clone());
                            continue;
                        }
                        recs.push(at);
                        continue;
                    }
                    _ => {}
                }
                let mut r = gen_record(&mut rng, &hd, &ro);
                if rng.chance(1, 40) {
                    if let Some(k) = inject_unrepresentable(&mut rng, &mut r) {
                        out.count(&format!("unrepresentable_injected[{k}]"), 1);
                    }
                }
                recs.push(r);
            }
            do_records(&hd, &recs, &[], &mut out);
            if c.seed % 5 == 0 {
                out.sample = Some(json!({"header_idx": format!("{:?}", c.idx), "first_record": lossy(&to_vcf_line(&recs[0], &hd))}));
            }
        }
        "many-alts" => {
            let (hd, recs, strs) = many_alt_case(2 + (c.seed % 4) as u32);
            do_records(&hd, &recs, &strs, &mut out);
        }
        "non-ascii" => {
            let (hd, recs) = non_ascii_case(2 + (c.seed % 4) as u32);
            for r in &recs {
                let na = |v: &Option<Val>| match v {
                    Some(Val::Char(c)) => !c.is_ascii(),
                    Some(Val::Chars(a)) => a.iter().flatten().any(|c| !c.is_ascii()),
                    _ => false,
                };
                if r.info.iter().any(|(_, v)| na(v)) || r.samples.iter().flatten().any(na) {
                    out.count("records_with_non_ascii_character_values", 1);
                }
            }
            do_records(&hd, &recs, &[], &mut out);
        }
        "vector-lengths" => {
            let (hd, recs) = vector_length_case(2 + (c.seed % 4) as u32);
            do_records(&hd, &recs, &[], &mut out);
        }
        "big-dictionary" => {
            let (hd, recs) = big_dictionary_case(2 + (c.seed % 4) as u32, c.n, 300);
            out.count(&format!("dictionary_entries[{}]", if c.n >= 32768 { "32768+" } else if c.n >= 256 { "256+" } else { "128+" }), 1);
            do_records(&hd, &recs, &[], &mut out);
        }
        k => panic!("bad case kind {k}"),
    }
    out.fps = fps.into_iter().collect();
    out
}

fn gen_cases(ctx: &Ctx) -> Vec<Case> {
    let mut cases = vec![Case { kind: "corpus", seed: 0, n: 0, fileformat: None, idx: IdxMode::None }];
    // deterministic boundary cases (fileformat rotates with the seed)
    for k in 0..2u64 {
        cases.push(Case { kind: "many-alts", seed: ctx.seed + k, n: 0, fileformat: None, idx: IdxMode::None });
        cases.push(Case { kind: "vector-lengths", seed: ctx.seed + k, n: 0, fileformat: None, idx: IdxMode::None });
        cases.push(Case { kind: "non-ascii", seed: ctx.seed + k, n: 0, fileformat: None, idx: IdxMode::None });
    }
    let mut dict_sizes = vec![124usize, 130, 260];
    if !ctx.quick() {
        dict_sizes.push(32772);
    }
    for (k, n) in dict_sizes.into_iter().enumerate() {
        cases.push(Case { kind: "big-dictionary", seed: ctx.seed + k as u64, n, fileformat: None, idx: IdxMode::None });
    }
    let per = ctx.budget("per_case", 200, 250) as usize;
    let n = ctx.budget("cases", 100, 4000);
    for i in 0..n {
        let idx = match i % 10 {
            0..=4 => IdxMode::None,
            5 => IdxMode::Natural,
            6 | 7 => IdxMode::Permuted,
            _ => IdxMode::Sparse,
        };
        cases.push(Case { kind: "records", seed: ctx.seed.wrapping_mul(1_000_003).wrapping_add(i), n: per, fileformat: Some((4, 2 + ((i / 10) % 4) as u32)), idx });
    }
    cases
}

fn main() {
    let ctx = Ctx::from_args();
    let ctx = vcore::cases::replay_request(&ctx).map(|r| r.1).unwrap_or(ctx);
    let mut rep = Report::new(
        "case = one generated header (BCF sub-model; IDX none / natural / permuted / sparse) + a batch of records consistent with it; every \
         record is written by bcf::io::Writer, decoded by an independent BCF 2.2 reader, read back eagerly and lazily and rendered as VCF; \
         evaluations = headers + records; distinct = distinct data-free feature tokens (fileformat x explicit-IDX x column shape: Number x \
         Type x value shape, integer width boundary class, float class, string class, genotype ploidy/phasing/missing, ragged vectors); \
         non-trivial = all",
    );
    rep.assumptions.push("oracles: the generator's description of each value; an independent BCF 2.2 typed-value/record reader and dictionary rule (c10/src/raw.rs) written from the specification".into());
    rep.assumptions.push("format-inherent tolerances: a vector holding one missing entry == missing value; trailing missing sample values; first-allele phasing before VCF 4.4; reserved NaN patterns are not generated; strings exclude ',' '%' and a lone '.' except in the deliberately unrepresentable class".into());
    let cases = gen_cases(&ctx);
    let f = |i: u64| -> CaseOut { run_case(&cases[i as usize]) };
    run_cases(&ctx, &mut rep, cases.len() as u64, 120.0, &f, &|i| case_json(&cases[i as usize]));
    if ctx.replay.is_none() {
        let counters = rep.counters.clone();
        let get = |k: &str| counters.get(k).copied().unwrap_or(0);
        let recs = get("records");
        rep.floor("records_accepted", get("records_accepted"), recs * 7 / 10);
        rep.floor("records_decoded_independently", get("records_decoded_independently"), recs * 6 / 10);
        rep.floor("lazy_records_read_through_every_accessor", get("lazy_records_read_through_every_accessor"), recs * 6 / 10);
        rep.floor("vcf_renderings_compared", get("vcf_renderings_compared"), recs * 5 / 10);
        for minor in 2..=5 {
            for k in ["gt_mixed_separators", "gt_last_phased_earlier_unphased", "gt_last_unphased_earlier_phased"] {
                let k = format!("{k}[4.{minor}]");
                rep.floor(&k, get(&k), if ctx.param("cases").is_none() { 40 } else { 1 });
            }
        }
        // absolute floors hold for the full budgets only (reduced sanitizer stages pass `cases=`)
        let full = ctx.param("cases").is_none();
        for k in ["span_checked[LEN|info-empty]", "span_checked[LEN|info-nonempty]", "span_checked[END|info-nonempty]", "span_checked[SVLEN|info-nonempty]", "span_checked[REF|info-empty]"] {
            rep.floor(k, get(k), if full { 20 } else { 1 });
        }
        rep.floor("gt allele index >= 63 offered to the writer", get("gt_allele_index_unrepresentable:rejected") + get("gt_allele_index_unrepresentable:accepted"), 100);
        rep.floor("records_with_gt_as_string", get("records_with_gt_as_string"), 100);
        rep.floor("dictionary_entries[128+]", get("dictionary_entries[128+]"), 2);
        rep.floor("dictionary_entries[256+]", get("dictionary_entries[256+]"), 1);
        if ctx.tier == vcore::Tier::Thorough {
            rep.floor("dictionary_entries[32768+]", get("dictionary_entries[32768+]"), 1);
        }
        rep.floor("adjacent_rich_then_minimal", get("adjacent_rich_then_minimal"), recs / 60);
        rep.floor("adjacent_minimal_then_rich", get("adjacent_minimal_then_rich"), recs / 60);
        rep.floor("adjacent_rich_then_no_format", get("adjacent_rich_then_no_format"), recs / 400);
        for api in ["read_record_buf", "record_bufs", "read_record", "records"] {
            for t in ["raw", "bgzf"] {
                let k = format!("file_pass_records[{t}|{api}]");
                rep.floor(&k, get(&k), recs * 6 / 10);
            }
        }
        rep.floor("headers_idx[explicit]", get("headers_idx[explicit]"), 3);
        rep.floor("ragged_vectors_checked", get("ragged_vectors_checked"), 50);
        for w in ["int8", "int16", "int32"] {
            let k: u64 = counters.iter().filter(|(k, _)| k.starts_with("width_at_boundary[") && k.ends_with(&format!("|{w}]"))).map(|(_, v)| *v).sum();
            rep.floor(&format!("width_at_boundary[*|{w}]"), k, 30);
        }
        for p in 1..=4 {
            rep.floor(&format!("gt_ploidy[{p}]"), get(&format!("gt_ploidy[{p}]")), 20);
        }
        let rej: u64 = counters.iter().filter(|(k, _)| k.starts_with("rejected[")).map(|(_, v)| *v).sum();
        rep.floor("rejections observed (unrepresentable values)", rej, 10);
    }
    rep.finish(&ctx);
}
