//! A small, deliberately dumb reader of BCF 2.2 records and typed values, written from the
//! specification (VCF 4.3 document, section 6 "BCF specification") — not from noodles. It turns the
//! raw bytes of one record into a `genvcf::RecDesc` given the header *description* and the
//! dictionary of strings, and reports which integer widths were used.

use genvcf::{GtAllele, HeaderDesc, RecDesc, Ty, Val};

#[derive(Clone, Debug)]
pub struct RawErr {
    /// data-free class
    pub class: String,
    pub detail: String,
}

fn err<T>(class: &str, detail: impl Into<String>) -> Result<T, RawErr> {
    Err(RawErr { class: class.to_string(), detail: detail.into() })
}

/// Dictionary of strings (`PASS` = 0, then INFO/FILTER/FORMAT IDs by `IDX=` or by order of
/// appearance in the header text) and of contigs, computed from a header description.
#[derive(Clone, Debug, PartialEq)]
pub struct Dict {
    pub strings: Vec<Option<String>>,
    pub contigs: Vec<Option<String>>,
}

impl Dict {
    pub fn of(h: &HeaderDesc) -> Result<Dict, String> {
        fn put(v: &mut Vec<Option<String>>, name: &str, idx: Option<usize>) -> Result<(), String> {
            if let Some(p) = v.iter().position(|e| e.as_deref() == Some(name)) {
                return match idx {
                    Some(i) if i != p => Err(format!("{name} has IDX={i} but already sits at {p}")),
                    _ => Ok(()),
                };
            }
            match idx {
                Some(i) => {
                    if v.len() <= i {
                        v.resize(i + 1, None);
                    }
                    if v[i].is_some() {
                        return Err(format!("IDX={i} used twice"));
                    }
                    v[i] = Some(name.to_string());
                }
                None => v.push(Some(name.to_string())),
            }
            Ok(())
        }
        let mut strings = vec![Some("PASS".to_string())];
        for d in &h.infos {
            put(&mut strings, &d.id, d.idx)?;
        }
        for d in &h.filters {
            put(&mut strings, &d.id, d.idx)?;
        }
        for d in &h.formats {
            put(&mut strings, &d.id, d.idx)?;
        }
        let mut contigs = Vec::new();
        for d in &h.contigs {
            put(&mut contigs, &d.id, d.idx)?;
        }
        Ok(Dict { strings, contigs })
    }

    pub fn string(&self, i: usize) -> Option<&str> {
        self.strings.get(i).and_then(|e| e.as_deref())
    }
}

struct Cur<'a> {
    b: &'a [u8],
    p: usize,
}

impl<'a> Cur<'a> {
    fn take(&mut self, n: usize, what: &str) -> Result<&'a [u8], RawErr> {
        if self.p + n > self.b.len() {
            return err("truncated", format!("{what}: need {n} bytes at offset {}, block has {}", self.p, self.b.len()));
        }
        let s = &self.b[self.p..self.p + n];
        self.p += n;
        Ok(s)
    }
    fn u8(&mut self, w: &str) -> Result<u8, RawErr> {
        Ok(self.take(1, w)?[0])
    }
    fn i32(&mut self, w: &str) -> Result<i32, RawErr> {
        Ok(i32::from_le_bytes(self.take(4, w)?.try_into().unwrap()))
    }
    fn u32(&mut self, w: &str) -> Result<u32, RawErr> {
        Ok(u32::from_le_bytes(self.take(4, w)?.try_into().unwrap()))
    }
    fn u16(&mut self, w: &str) -> Result<u16, RawErr> {
        Ok(u16::from_le_bytes(self.take(2, w)?.try_into().unwrap()))
    }
    /// type descriptor byte (+ overflow length): `(type code, element count)`
    fn desc(&mut self, w: &str) -> Result<(u8, usize), RawErr> {
        let d = self.u8(w)?;
        let ty = d & 0x0f;
        let mut len = (d >> 4) as usize;
        if !matches!(ty, 0 | 1 | 2 | 3 | 5 | 7) {
            return err("bad-type-code", format!("{w}: type code {ty}"));
        }
        if len == 15 {
            // the real length follows as a typed scalar integer
            let d2 = self.u8(w)?;
            if d2 >> 4 != 1 {
                return err("bad-overflow-length", format!("{w}: overflow length descriptor {d2:#04x}"));
            }
            let n = match d2 & 0x0f {
                1 => self.take(1, w)?[0] as i8 as i64,
                2 => i16::from_le_bytes(self.take(2, w)?.try_into().unwrap()) as i64,
                3 => i32::from_le_bytes(self.take(4, w)?.try_into().unwrap()) as i64,
                t => return err("bad-overflow-length", format!("{w}: overflow length of type {t}")),
            };
            if n < 15 {
                return err("bad-overflow-length", format!("{w}: overflow length {n} < 15"));
            }
            len = n as usize;
        }
        Ok((ty, len))
    }
}

/// One decoded integer cell.
#[derive(Clone, Copy, Debug, PartialEq)]
pub enum Cell {
    V(i32),
    Missing,
    Eov,
    Reserved,
}

fn int_cells(ty: u8, data: &[u8]) -> Vec<Cell> {
    match ty {
        1 => data
            .iter()
            .map(|&b| match b {
                0x80 => Cell::Missing,
                0x81 => Cell::Eov,
                0x82..=0x87 => Cell::Reserved,
                b => Cell::V(b as i8 as i32),
            })
            .collect(),
        2 => data
            .chunks_exact(2)
            .map(|c| match u16::from_le_bytes([c[0], c[1]]) {
                0x8000 => Cell::Missing,
                0x8001 => Cell::Eov,
                0x8002..=0x8007 => Cell::Reserved,
                v => Cell::V(v as i16 as i32),
            })
            .collect(),
        _ => data
            .chunks_exact(4)
            .map(|c| match u32::from_le_bytes([c[0], c[1], c[2], c[3]]) {
                0x8000_0000 => Cell::Missing,
                0x8000_0001 => Cell::Eov,
                0x8000_0002..=0x8000_0007 => Cell::Reserved,
                v => Cell::V(v as i32),
            })
            .collect(),
    }
}

/// float cell: bits / missing / end of vector / reserved
fn float_cells(data: &[u8]) -> Vec<Result<Option<u32>, Cell>> {
    data.chunks_exact(4)
        .map(|c| match u32::from_le_bytes([c[0], c[1], c[2], c[3]]) {
            0x7f80_0001 => Ok(None),
            0x7f80_0002 => Err(Cell::Eov),
            0x7f80_0003..=0x7f80_0007 => Err(Cell::Reserved),
            v => Ok(Some(v)),
        })
        .collect()
}

fn width(ty: u8) -> usize {
    match ty {
        1 | 7 => 1,
        2 => 2,
        3 | 5 => 4,
        _ => 0,
    }
}

fn utf8(b: &[u8], w: &str) -> Result<String, RawErr> {
    String::from_utf8(b.to_vec()).or_else(|_| err("not-utf8", format!("{w}: not UTF-8")))
}

fn one_char(s: &str, w: &str) -> Result<Option<char>, RawErr> {
    if s == "." {
        return Ok(None);
    }
    let mut it = s.chars();
    match (it.next(), it.next()) {
        (Some(c), None) => Ok(Some(c)),
        _ => err("character-length", format!("{w}: character value {s:?}")),
    }
}

/// What the walk recorded besides the record itself.
#[derive(Clone, Debug, Default)]
pub struct RawInfo {
    pub rlen: i32,
    pub n_sample: usize,
    pub n_fmt: usize,
    /// (what, width code 1/2/3) of every integer scalar / vector met (INFO, FORMAT, keys, filters)
    pub int_widths: Vec<(&'static str, u8, i32, i32)>,
    /// FORMAT fields in order: (key, type code, vector length)
    pub fmt_layout: Vec<(String, u8, usize)>,
}

/// Decodes one record (`l_shared`, `l_indiv` already stripped: `site` and `indiv` are the two blocks).
pub fn decode(site: &[u8], indiv: &[u8], h: &HeaderDesc, dict: &Dict) -> Result<(RecDesc, RawInfo), RawErr> {
    let mut info = RawInfo::default();
    let mut c = Cur { b: site, p: 0 };
    let chrom = c.i32("CHROM")?;
    let pos0 = c.i32("POS")?;
    info.rlen = c.i32("rlen")?;
    let qual = c.u32("QUAL")?;
    let n_info = c.u16("n_info")? as usize;
    let n_allele = c.u16("n_allele")? as usize;
    let nfs = c.u32("n_fmt_sample")?;
    let n_sample = (nfs & 0x00ff_ffff) as usize;
    let n_fmt = (nfs >> 24) as usize;
    info.n_sample = n_sample;
    info.n_fmt = n_fmt;
    let chrom_name = match usize::try_from(chrom).ok().and_then(|i| dict.contigs.get(i)).and_then(|e| e.clone()) {
        Some(n) => n,
        None => return err("chrom-not-in-dictionary", format!("CHROM index {chrom}")),
    };
    if pos0 < -1 {
        return err("negative-pos", format!("POS {pos0}"));
    }
    let mut r = RecDesc {
        chrom: chrom_name,
        pos: (pos0 as i64 + 1) as u64,
        ids: vec![],
        reference: String::new(),
        alts: vec![],
        qual: match qual {
            0x7f80_0001 => None,
            0x7f80_0002..=0x7f80_0007 => return err("qual-reserved", format!("QUAL bits {qual:#x}")),
            q => Some(q),
        },
        filters: vec![],
        info: vec![],
        format: vec![],
        samples: vec![Vec::new(); n_sample],
    };
    // ID
    let (ty, len) = c.desc("ID")?;
    if ty != 7 {
        return err("id-not-a-string", format!("ID has type {ty}"));
    }
    let id = utf8(c.take(len, "ID")?, "ID")?;
    if !id.is_empty() && id != "." {
        r.ids = id.split(';').map(String::from).collect();
    }
    // alleles
    if n_allele == 0 {
        return err("no-allele", "n_allele = 0");
    }
    for i in 0..n_allele {
        let (ty, len) = c.desc("allele")?;
        if ty != 7 {
            return err("allele-not-a-string", format!("allele {i} has type {ty}"));
        }
        let a = utf8(c.take(len, "allele")?, "allele")?;
        if i == 0 {
            r.reference = a;
        } else {
            r.alts.push(a);
        }
    }
    // FILTER
    let (ty, len) = c.desc("FILTER")?;
    match ty {
        0 => {
            if len != 0 {
                return err("filter-vector", "FILTER of type 0 with a length");
            }
        }
        1 | 2 | 3 => {
            let cells = int_cells(ty, c.take(len * width(ty), "FILTER")?);
            for cell in cells {
                match cell {
                    Cell::V(i) if i >= 0 => match dict.string(i as usize) {
                        Some(n) => r.filters.push(n.to_string()),
                        None => return err("filter-not-in-dictionary", format!("FILTER index {i}")),
                    },
                    other => return err("filter-vector", format!("FILTER cell {other:?}")),
                }
                if let Cell::V(i) = cell {
                    info.int_widths.push(("filter-index", ty, i, i));
                }
            }
        }
        t => return err("filter-vector", format!("FILTER has type {t}")),
    }
    // INFO
    for _ in 0..n_info {
        let key = read_key(&mut c, &mut info, "INFO key")?;
        let name = match dict.string(key) {
            Some(n) => n.to_string(),
            None => return err("info-key-not-in-dictionary", format!("INFO key index {key}")),
        };
        let def = match h.info(&name) {
            Some(d) => d,
            None => return err("info-key-not-an-info", format!("dictionary entry {key} = {name:?} is no INFO line")),
        };
        let w = "INFO value";
        let (ty, len) = c.desc(w)?;
        let data = c.take(len * width(ty), w)?;
        let scalar = def.num.is_scalar();
        let v: Option<Val> = match def.ty {
            Ty::Flag => {
                // a flag carries no value (type 0) or, as htslib writes it, the int8 value 1
                if (ty, len) == (0, 0) || (ty == 1 && len == 1 && data == [1]) { Some(Val::Flag) } else { return err("flag-with-value", format!("flag {name} stored as type {ty} x {len}")) }
            }
            Ty::Integer => match ty {
                0 => None,
                1 | 2 | 3 => {
                    let cells = int_cells(ty, data);
                    let mut vals = Vec::new();
                    for cell in &cells {
                        match cell {
                            Cell::V(n) => vals.push(Some(*n)),
                            Cell::Missing => vals.push(None),
                            Cell::Eov => return err("end-of-vector-in-info", format!("INFO {name}")),
                            Cell::Reserved => return err("reserved-integer", format!("INFO {name} holds a reserved code")),
                        }
                    }
                    let real: Vec<i32> = vals.iter().flatten().copied().collect();
                    if !real.is_empty() {
                        info.int_widths.push((if scalar { "info-int" } else { "info-int-vector" }, ty, *real.iter().min().unwrap(), *real.iter().max().unwrap()));
                    }
                    if len == 0 {
                        None
                    } else if scalar {
                        if len != 1 {
                            return err("scalar-as-vector", format!("INFO {name} (Number=1) stored with {len} values"));
                        }
                        vals[0].map(Val::Int)
                    } else {
                        Some(Val::Ints(vals))
                    }
                }
                t => return err("type-mismatch", format!("Integer INFO {name} stored as type {t}")),
            },
            Ty::Float => match ty {
                0 => None,
                5 => {
                    let mut vals = Vec::new();
                    for cell in float_cells(data) {
                        match cell {
                            Ok(v) => vals.push(v),
                            Err(Cell::Eov) => return err("end-of-vector-in-info", format!("INFO {name}")),
                            Err(_) => return err("reserved-float", format!("INFO {name} holds a reserved NaN")),
                        }
                    }
                    if len == 0 {
                        None
                    } else if scalar {
                        if len != 1 {
                            return err("scalar-as-vector", format!("INFO {name} (Number=1) stored with {len} values"));
                        }
                        vals[0].map(Val::Float)
                    } else {
                        Some(Val::Floats(vals))
                    }
                }
                t => return err("type-mismatch", format!("Float INFO {name} stored as type {t}")),
            },
            Ty::Character | Ty::String => match ty {
                0 => None,
                7 => {
                    if len == 0 {
                        None
                    } else {
                        let s = utf8(data, "INFO string")?;
                        match (def.ty, scalar) {
                            (Ty::String, true) => Some(Val::Str(s)),
                            (Ty::String, false) => Some(Val::Strs(s.split(',').map(|t| if t == "." { None } else { Some(t.to_string()) }).collect())),
                            (_, true) => one_char(&s, "INFO character")?.map(Val::Char),
                            (_, false) => Some(Val::Chars(s.split(',').map(|t| one_char(t, "INFO character")).collect::<Result<_, _>>()?)),
                        }
                    }
                }
                t => return err("type-mismatch", format!("String/Character INFO {name} stored as type {t}")),
            },
        };
        r.info.push((name, v));
    }
    if c.p != site.len() {
        return err("site-block-trailing-bytes", format!("{} bytes left after the INFO fields", site.len() - c.p));
    }

    decode_indiv(indiv, h, dict, n_sample, n_fmt, &mut r, &mut info).map_err(|e| RawErr { class: format!("indiv:{}", e.class), detail: e.detail })?;
    Ok((r, info))
}

fn decode_indiv(indiv: &[u8], h: &HeaderDesc, dict: &Dict, n_sample: usize, n_fmt: usize, r: &mut RecDesc, info: &mut RawInfo) -> Result<(), RawErr> {
    let mut c = Cur { b: indiv, p: 0 };
    for fi in 0..n_fmt {
        let key = read_key(&mut c, info, "FORMAT key").map_err(|e| RawErr { class: format!("format-field-{}:{}", if fi == 0 { "first" } else { "later" }, e.class), detail: e.detail })?;
        let name = match dict.string(key) {
            Some(n) => n.to_string(),
            None => return err("format-key-not-in-dictionary", format!("FORMAT field #{fi}: key index {key}")),
        };
        let def = match h.format(&name) {
            Some(d) => d,
            None => return err("format-key-not-a-format", format!("FORMAT field #{fi}: dictionary entry {key} = {name:?} is no FORMAT line")),
        };
        let w = "FORMAT vector";
        let (ty, len) = c.desc(w)?;
        info.fmt_layout.push((name.clone(), ty, len));
        let data = c.take(n_sample * len * width(ty), w).map_err(|e| RawErr { class: "indiv-block-too-short".into(), detail: format!("FORMAT field #{fi} {name}: {}", e.detail) })?;
        let per = len * width(ty);
        let scalar = def.num.is_scalar();
        for si in 0..n_sample {
            let cell = &data[si * per..(si + 1) * per];
            let v: Option<Val> = if name == "GT" {
                if !matches!(ty, 1 | 2 | 3) {
                    return err("type-mismatch", format!("GT stored as type {ty}"));
                }
                let mut g = Vec::new();
                let mut ended = false;
                for cellv in int_cells(ty, cell) {
                    match cellv {
                        Cell::Eov => ended = true,
                        _ if ended => return err("value-after-end-of-vector", format!("GT sample {si}")),
                        Cell::V(v) if v >= 0 => g.push(GtAllele { allele: if v >> 1 == 0 { None } else { Some((v >> 1) as u32 - 1) }, phased: v & 1 == 1 }),
                        other => return err("genotype-cell", format!("GT sample {si}: cell {other:?}")),
                    }
                }
                if g.is_empty() { None } else { Some(Val::Gt(g)) }
            } else {
                match def.ty {
                    Ty::Flag => return err("flag-in-format", name.clone()),
                    Ty::Integer => {
                        if !matches!(ty, 1 | 2 | 3) {
                            return err("type-mismatch", format!("Integer FORMAT {name} stored as type {ty}"));
                        }
                        let mut vals = Vec::new();
                        let mut ended = false;
                        for cellv in int_cells(ty, cell) {
                            match cellv {
                                Cell::Eov => ended = true,
                                _ if ended => return err("value-after-end-of-vector", format!("FORMAT {name} sample {si}")),
                                Cell::V(n) => vals.push(Some(n)),
                                Cell::Missing => vals.push(None),
                                Cell::Reserved => return err("reserved-integer", format!("FORMAT {name} holds a reserved code")),
                            }
                        }
                        let real: Vec<i32> = vals.iter().flatten().copied().collect();
                        if !real.is_empty() {
                            info.int_widths.push((if scalar { "format-int" } else { "format-int-vector" }, ty, *real.iter().min().unwrap(), *real.iter().max().unwrap()));
                        }
                        if scalar {
                            if len != 1 {
                                return err("scalar-as-vector", format!("FORMAT {name} (Number=1) stored with {len} values per sample"));
                            }
                            vals.first().copied().flatten().map(Val::Int)
                        } else if vals.is_empty() || (vals.len() == 1 && vals[0].is_none()) {
                            None
                        } else {
                            Some(Val::Ints(vals))
                        }
                    }
                    Ty::Float => {
                        if ty != 5 {
                            return err("type-mismatch", format!("Float FORMAT {name} stored as type {ty}"));
                        }
                        let mut vals = Vec::new();
                        let mut ended = false;
                        for cellv in float_cells(cell) {
                            match cellv {
                                Err(Cell::Eov) => ended = true,
                                _ if ended => return err("value-after-end-of-vector", format!("FORMAT {name} sample {si}")),
                                Ok(v) => vals.push(v),
                                Err(_) => return err("reserved-float", format!("FORMAT {name} holds a reserved NaN")),
                            }
                        }
                        if scalar {
                            if len != 1 {
                                return err("scalar-as-vector", format!("FORMAT {name} (Number=1) stored with {len} values per sample"));
                            }
                            vals.first().copied().flatten().map(Val::Float)
                        } else if vals.is_empty() || (vals.len() == 1 && vals[0].is_none()) {
                            None
                        } else {
                            Some(Val::Floats(vals))
                        }
                    }
                    Ty::Character | Ty::String => {
                        if ty != 7 {
                            return err("type-mismatch", format!("String FORMAT {name} stored as type {ty}"));
                        }
                        let end = cell.iter().position(|&b| b == 0).unwrap_or(cell.len());
                        if cell[end..].iter().any(|&b| b != 0) {
                            return err("bytes-after-nul-padding", format!("FORMAT {name} sample {si}"));
                        }
                        let s = utf8(&cell[..end], "FORMAT string")?;
                        if s.is_empty() || s == "." {
                            None
                        } else {
                            match (def.ty, scalar) {
                                (Ty::String, true) => Some(Val::Str(s)),
                                (Ty::String, false) => Some(Val::Strs(s.split(',').map(|t| if t == "." { None } else { Some(t.to_string()) }).collect())),
                                (_, true) => one_char(&s, "FORMAT character")?.map(Val::Char),
                                (_, false) => Some(Val::Chars(s.split(',').map(|t| one_char(t, "FORMAT character")).collect::<Result<_, _>>()?)),
                            }
                        }
                    }
                }
            };
            r.samples[si].push(v);
        }
        r.format.push(name);
    }
    if c.p != indiv.len() {
        return err("indiv-block-trailing-bytes", format!("{} bytes left after {n_fmt} FORMAT fields", indiv.len() - c.p));
    }
    Ok(())
}

fn read_key(c: &mut Cur, info: &mut RawInfo, w: &'static str) -> Result<usize, RawErr> {
    let (ty, len) = c.desc(w)?;
    if !matches!(ty, 1 | 2 | 3) || len != 1 {
        return err("key-not-a-scalar-integer", format!("{w}: type {ty} x {len}"));
    }
    let cell = int_cells(ty, c.take(width(ty), w)?)[0];
    match cell {
        Cell::V(i) if i >= 0 => {
            info.int_widths.push(("key-index", ty, i, i));
            Ok(i as usize)
        }
        other => err("key-not-a-scalar-integer", format!("{w}: cell {other:?}")),
    }
}

/// Does `lo..=hi` fit the value range of width code `ty` (without the 8 reserved codes)?
pub fn fits(ty: u8, lo: i32, hi: i32) -> bool {
    match ty {
        1 => lo >= -120 && hi <= 127,
        2 => lo >= -32760 && hi <= 32767,
        _ => lo >= i32::MIN + 8,
    }
}

/// Splits a BCF file image (uncompressed) into `(header text without the NUL, offset of the first record)`.
pub fn split_file(b: &[u8]) -> Result<(String, usize), RawErr> {
    if b.len() < 9 || &b[..3] != b"BCF" || b[3] != 2 {
        return err("bad-magic", format!("{:?}", &b[..b.len().min(5)]));
    }
    let l = u32::from_le_bytes(b[5..9].try_into().unwrap()) as usize;
    if b.len() < 9 + l || l == 0 {
        return err("header-length", format!("l_text {l}, file {}", b.len()));
    }
    let text = &b[9..9 + l];
    if *text.last().unwrap() != 0 {
        return err("header-not-nul-terminated", "");
    }
    let body = &text[..l - 1];
    if body.contains(&0) {
        return err("header-embedded-nul", "");
    }
    Ok((utf8(body, "header text")?, 9 + l))
}

/// Walks the per-sample block against the layout the description demands (dictionary index of
/// every FORMAT key, vector length of every field; `usize::MAX` = length not checked) and names the
/// first field whose bytes do not line up. A key that is not the expected one is blamed on the field
/// before it (its bytes ran short or long).
pub fn blame(indiv: &[u8], n_sample: usize, keys: &[usize], lens: &[usize]) -> Option<usize> {
    let mut c = Cur { b: indiv, p: 0 };
    for k in 0..keys.len() {
        let mut dummy = RawInfo::default();
        match read_key(&mut c, &mut dummy, "FORMAT key") {
            Ok(i) if i == keys[k] => {}
            _ => return Some(k.saturating_sub(1)),
        }
        match c.desc("FORMAT vector") {
            Ok((ty, len)) => {
                if lens[k] != usize::MAX && len != lens[k] {
                    return Some(k);
                }
                if c.take(n_sample * len * width(ty), "FORMAT vector").is_err() {
                    return Some(k);
                }
            }
            Err(_) => return Some(k),
        }
    }
    if c.p != indiv.len() && !keys.is_empty() {
        return Some(keys.len() - 1);
    }
    None
}
