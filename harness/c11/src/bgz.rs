//! Check (iv) continued: FASTA / FASTQ written THROUGH `bgzf::io::Writer` (lines and records
//! straddle BGZF block boundaries: the bgzf writer's `write` accepts only what fits into its
//! block) and through sinks that accept 1 / 7 bytes per call, read back, indexed and queried across
//! the block boundaries.

use std::{
    io::{BufRead, Write},
    num::NonZero,
};

use noodles_bgzf as bgzf;
use noodles_fasta as fasta;
use noodles_fastq as fastq;
use vcore::{
    CaseOut, Rng,
    adv::{Accept, FaultMode, FaultyWrite},
    bgzf as obgzf, guard,
};

use crate::{index, model};

fn first_diff(a: &[u8], b: &[u8]) -> usize {
    a.iter().zip(b).position(|(x, y)| x != y).unwrap_or(a.len().min(b.len()))
}

/// The FASTA writer over a sink that takes at most `k` bytes per `write` call: the result must be
/// Ok and the sink must hold exactly the bytes a `Vec` sink got.
pub fn fasta_short_writes(records: &[fasta::Record], w: usize, plain: &[u8], o: &mut CaseOut) {
    for k in [1usize, 7] {
        let sink = FaultyWrite::new(FaultMode::None, std::io::ErrorKind::Other, Accept::AtMost(k));
        let s2 = sink.clone();
        let recs = records.to_vec();
        let r = guard::catch(move || -> std::io::Result<()> {
            let mut wr = fasta::io::writer::Builder::default().set_line_base_count(NonZero::new(w).unwrap()).build_from_writer(s2);
            for r in &recs {
                wr.write_record(r)?;
            }
            wr.get_mut().flush()
        });
        o.count("short_write_sink_runs", 1);
        match r {
            Err(p) => o.violation(format!("fasta-rt:short-write-sink:panic:{}", p.sig), p.message),
            Ok(Err(e)) => o.violation("fasta-rt:short-write-sink:error", format!("FASTA writer (line_base_count {w}) over a healthy sink that accepts at most {k} bytes per call failed: {e}")),
            Ok(Ok(())) => {
                let got = sink.bytes();
                if got != plain {
                    o.violation(
                        "fasta-rt:short-write-sink:bytes-differ",
                        format!("FASTA writer (line_base_count {w}) over a sink that accepts at most {k} bytes per call: {} bytes arrived, a Vec sink got {}; first difference at {} (a short write was not continued)", got.len(), plain.len(), first_diff(&got, plain)),
                    );
                }
            }
        }
    }
}

pub fn fastq_short_writes(records: &[fastq::Record], sep: u8, plain: &[u8], o: &mut CaseOut) {
    for k in [1usize, 7] {
        let sink = FaultyWrite::new(FaultMode::None, std::io::ErrorKind::Other, Accept::AtMost(k));
        let s2 = sink.clone();
        let recs = records.to_vec();
        let r = guard::catch(move || -> std::io::Result<()> {
            let mut wr = fastq::io::writer::Builder::default().set_definition_separator(sep).build_from_writer(s2);
            for r in &recs {
                wr.write_record(r)?;
            }
            wr.get_mut().flush()
        });
        o.count("short_write_sink_runs", 1);
        match r {
            Err(p) => o.violation(format!("fastq-rt:short-write-sink:panic:{}", p.sig), p.message),
            Ok(Err(e)) => o.violation("fastq-rt:short-write-sink:error", format!("FASTQ writer over a healthy sink that accepts at most {k} bytes per call failed: {e}")),
            Ok(Ok(())) => {
                let got = sink.bytes();
                if got != plain {
                    o.violation("fastq-rt:short-write-sink:bytes-differ", format!("FASTQ writer over a sink that accepts at most {k} bytes per call: {} bytes arrived, a Vec sink got {}; first difference at {}", got.len(), plain.len(), first_diff(&got, plain)));
                }
            }
        }
    }
}

/// Long records (>= 200 kB in total) so that the output spans >= 3 BGZF blocks.
pub fn big_fasta_records(rng: &mut Rng) -> Vec<fasta::Record> {
    const ALPHA: &[u8] = b"ACGTACGTACGTNacgtnRYKMSWBDHV";
    let lens = [70_001 + rng.usize_below(500), 3, 65_280, 66_000 + rng.usize_below(3000), 1 + rng.usize_below(50)];
    lens.iter()
        .enumerate()
        .map(|(i, &len)| {
            let seq: Vec<u8> = (0..len).map(|_| ALPHA[rng.usize_below(ALPHA.len())]).collect();
            let def = fasta::record::Definition::new(format!("big{i}x"), if i % 2 == 0 { Some("a description ACGT".into()) } else { None });
            fasta::Record::new(def, fasta::record::Sequence::from(seq))
        })
        .collect()
}

enum Via {
    Writer,
    Multithreaded,
}

fn write_fasta_bgzf(records: &[fasta::Record], w: usize, via: Via) -> Result<Vec<u8>, String> {
    let recs = records.to_vec();
    let r = guard::catch(move || -> std::io::Result<Vec<u8>> {
        let lw = NonZero::new(w).unwrap();
        match via {
            Via::Writer => {
                let mut wr = fasta::io::writer::Builder::default().set_line_base_count(lw).build_from_writer(bgzf::io::Writer::new(Vec::new()));
                for r in &recs {
                    wr.write_record(r)?;
                }
                wr.into_inner().finish()
            }
            Via::Multithreaded => {
                let mut wr = fasta::io::writer::Builder::default().set_line_base_count(lw).build_from_writer(bgzf::io::MultithreadedWriter::new(Vec::new()));
                for r in &recs {
                    wr.write_record(r)?;
                }
                let mut m = wr.into_inner();
                m.finish()
            }
        }
    });
    match r {
        Err(p) => Err(format!("panic:{}", p.sig)),
        Ok(Err(e)) => Err(format!("error:{e}")),
        Ok(Ok(b)) => Ok(b),
    }
}

fn read_fasta_over<R: BufRead>(r: R) -> Result<Vec<fasta::Record>, String> {
    match guard::catch(move || fasta::io::Reader::new(r).records().collect::<std::io::Result<Vec<_>>>()) {
        Err(p) => Err(format!("panic:{}", p.sig)),
        Ok(Err(e)) => Err(format!("error:{e}")),
        Ok(Ok(v)) => Ok(v),
    }
}

/// FASTA written through the bgzf writer(s): same text as the plain writer, reads back equal,
/// indexes to the naive geometry, answers queries across the BGZF block boundaries.
pub fn fasta_through_bgzf(records: &[fasta::Record], w: usize, plain: &[u8], multithreaded_too: bool, rng: &mut Rng, o: &mut CaseOut) -> u64 {
    let mut evals = 0u64;
    let mut vias = vec![("bgzf::io::Writer", Via::Writer)];
    if multithreaded_too {
        vias.push(("bgzf::io::MultithreadedWriter", Via::Multithreaded));
    }
    for (vname, via) in vias {
        let bgz = match write_fasta_bgzf(records, w, via) {
            Ok(b) => b,
            Err(e) => {
                let (k, rest) = e.split_once(':').unwrap();
                if k == "panic" {
                    o.violation(format!("fasta-rt:bgzf-writer-panic:{rest}"), format!("FASTA writer over {vname}, line_base_count {w}"));
                } else {
                    o.count(&format!("fasta_writer_rejected[over {vname}]"), 1);
                }
                continue;
            }
        };
        o.count("fasta_files_written_through_bgzf", 1);
        let walk = match obgzf::walk(&bgz) {
            Ok(wk) => wk,
            Err(e) => {
                o.inconclusive.push(format!("independent walker rejects the output of {vname}: {e}"));
                continue;
            }
        };
        o.max("max_bgzf_blocks_of_a_written_fasta", walk.members.len() as u64);
        let inflated = walk.concat();
        if inflated != plain {
            o.violation(
                "fasta-rt:bgzf-output-ne-plain-output",
                format!(
                    "FASTA writer (line_base_count {w}) over {vname}: the BGZF stream inflates to {} bytes, the same records written to a Vec are {} bytes; first difference at {} ({} BGZF members; the bgzf writer's write() accepts only what fits into its block)",
                    inflated.len(),
                    plain.len(),
                    first_diff(&inflated, plain),
                    walk.members.len()
                ),
            );
        }
        match read_fasta_over(bgzf::io::Reader::new(&bgz[..])) {
            Err(e) => o.violation(if e.starts_with("panic") { format!("fasta-rt:bgzf-reader-{e}") } else { "fasta-rt:bgzf-reader-error".to_string() }, format!("reading back the FASTA written over {vname} (line_base_count {w}): {e}")),
            Ok(v) => {
                evals += v.len() as u64;
                o.count("fasta_records_read_back_through_bgzf", v.len() as u64);
                if v != records {
                    let at = v.iter().zip(records).position(|(a, b)| a != b).unwrap_or(v.len().min(records.len()));
                    let field = match (v.get(at), records.get(at)) {
                        (Some(a), Some(b)) if a.definition() != b.definition() => "definition",
                        (Some(_), Some(_)) => "sequence",
                        _ => "record-count",
                    };
                    o.violation(
                        format!("fasta-rt:bgzf-readback-ne-written:{field}"),
                        format!("FASTA written over {vname} (line_base_count {w}, {} BGZF members): record #{at} reads back with {} bases, written {} ({} vs {} records)", walk.members.len(), v.get(at).map(|r| r.sequence().len()).unwrap_or(0), records.get(at).map(|r| r.sequence().len()).unwrap_or(0), v.len(), records.len()),
                    );
                    continue;
                }
            }
        }
        // index the bgzipped output and query across the block boundaries
        if records.iter().any(|r| r.sequence().is_empty()) {
            continue;
        }
        let Ok(naive) = model::naive_parse_fasta(plain) else { continue };
        match index::index_with(bgzf::io::Reader::new(&bgz[..])) {
            Err(e) => o.violation(format!("fasta-rt:indexer-rejects-written-bgzf-file:{}", e.split('/').nth(1).unwrap_or("other")), format!("indexer over bgzf::Reader rejects the FASTA written over {vname} (line_base_count {w}): {e}")),
            Ok(recs) => {
                evals += 1;
                if let Some(v) = index::compare_with_naive(&recs, &naive, "bgzf::Reader over the written file") {
                    o.violation(v.0, format!("FASTA written over {vname}, line_base_count {w}: {}", v.1));
                    continue;
                }
                let mut qs: Vec<index::Q> = Vec::new();
                // regions around every BGZF block start that falls into a sequence
                for &u in walk.starts.iter().skip(1) {
                    for (ri, n) in naive.iter().enumerate() {
                        let lw = n.line_width();
                        let lb = n.line_bases();
                        let span = (n.seq.len() as u64).div_ceil(lb) * lw;
                        if u >= n.offset && u < n.offset + span {
                            let rel = u - n.offset;
                            let p = ((rel / lw) * lb + (rel % lw).min(lb)) as usize + 1;
                            let len = n.seq.len();
                            for (s, e) in [(p.saturating_sub(3).max(1), p + 3), (p, p), (p.saturating_sub(1).max(1), p + w + 2), (p.saturating_sub(w + 1).max(1), p + 1)] {
                                if s <= len {
                                    qs.push(index::Q { rec: ri, start: Some(s), end: Some(e.min(len + 2)) });
                                }
                            }
                            qs.push(index::Q { rec: ri, start: Some(p.min(len)), end: None });
                        }
                    }
                }
                o.count("queries_across_bgzf_block_boundaries", qs.len() as u64);
                for (i, n) in naive.iter().enumerate() {
                    let len = n.seq.len();
                    if len <= 400 {
                        qs.extend(index::queries_for(i, len, w, rng, 4, 6).0);
                    } else {
                        // every query inflates a 64 KiB block: a handful per long record
                        for _ in 0..6 {
                            let s = rng.urange(1, len);
                            qs.push(index::Q { rec: i, start: Some(s), end: Some((s + rng.usize_below(3 * w + 70_000)).min(len + 2)) });
                        }
                        qs.push(index::Q { rec: i, start: None, end: None });
                        qs.push(index::Q { rec: i, start: Some(len), end: None });
                        qs.push(index::Q { rec: i, start: Some(len + 1 + rng.usize_below(w + 3)), end: None });
                    }
                }
                let gzi = model::gzi_entries(&walk, rng.bool());
                let mut rd = index::bgzf_reader(&bgz, gzi, fasta::fai::Index::from(recs));
                let mut st = index::Stats::default();
                for v in index::run_queries(&mut rd, &naive, &qs, "bgzf", &format!("IndexedReader over the FASTA written through {vname}"), None, &mut st) {
                    o.violation(v.0, v.1);
                }
                evals += st.queries;
                o.count("queries", st.queries);
                o.count("queries_in_range", st.queries_in_range);
                o.count("queries_clipped_at_end", st.queries_clipped);
                o.count("queries_start_beyond_end", st.queries_beyond);
                o.count("start_beyond_end.error", st.beyond_err);
                o.count("start_beyond_end.empty", st.beyond_empty);
                o.count("start_beyond_end.foreign_bytes", st.beyond_foreign);
            }
        }
    }
    evals
}

/// FASTQ written through `bgzf::io::Writer`, read back through `bgzf::io::Reader`.
pub fn fastq_through_bgzf(records: &[fastq::Record], o: &mut CaseOut) -> u64 {
    // the same records through the same (default) writer into a Vec: the reference text
    let recs = records.to_vec();
    let plain = match guard::catch(move || -> std::io::Result<Vec<u8>> {
        let mut wr = fastq::io::Writer::new(Vec::new());
        for r in &recs {
            wr.write_record(r)?;
        }
        Ok(wr.into_inner())
    }) {
        Ok(Ok(b)) => b,
        _ => return 0,
    };
    let plain = &plain[..];
    let recs = records.to_vec();
    let r = guard::catch(move || -> std::io::Result<Vec<u8>> {
        let mut bw = bgzf::io::Writer::new(Vec::new());
        {
            // the FASTQ Builder boxes its sink ('static), so drive the plain constructor over a borrow
            let mut wr = fastq::io::Writer::new(&mut bw);
            for r in &recs {
                wr.write_record(r)?;
            }
        }
        bw.finish()
    });
    let bgz = match r {
        Err(p) => {
            o.violation(format!("fastq-rt:bgzf-writer-panic:{}", p.sig), p.message);
            return 0;
        }
        Ok(Err(_)) => {
            o.count("fastq_writer_rejected[over bgzf::io::Writer]", 1);
            return 0;
        }
        Ok(Ok(b)) => b,
    };
    o.count("fastq_files_written_through_bgzf", 1);
    let mut evals = 0;
    if let Ok(walk) = obgzf::walk(&bgz) {
        o.max("max_bgzf_blocks_of_a_written_fastq", walk.members.len() as u64);
        let inflated = walk.concat();
        if inflated != plain {
            o.violation("fastq-rt:bgzf-output-ne-plain-output", format!("FASTQ writer over bgzf::io::Writer: the BGZF stream inflates to {} bytes, a Vec sink got {}; first difference at {}", inflated.len(), plain.len(), first_diff(&inflated, plain)));
        }
    }
    let b2 = bgz.clone();
    match guard::catch(move || fastq::io::Reader::new(bgzf::io::Reader::new(&b2[..])).records().collect::<std::io::Result<Vec<_>>>()) {
        Err(p) => o.violation(format!("fastq-rt:bgzf-reader-panic:{}", p.sig), p.message),
        Ok(Err(e)) => o.violation("fastq-rt:bgzf-reader-error", format!("reading back the FASTQ written over bgzf::io::Writer: {e}")),
        Ok(Ok(v)) => {
            evals += v.len() as u64;
            o.count("fastq_records_read_back_through_bgzf", v.len() as u64);
            if v != records {
                let at = v.iter().zip(records).position(|(a, b)| a != b).unwrap_or(v.len().min(records.len()));
                o.violation("fastq-rt:bgzf-readback-ne-written", format!("FASTQ written over bgzf::io::Writer: record #{at} read back {:?}, written {:?} ({} vs {} records)", v.get(at), records.get(at), v.len(), records.len()));
            }
        }
    }
    evals
}
