//! C11 — FASTA/FASTQ indexing and random access return exactly the indexed bases.
//!
//! Monitor: generated FASTA files (explicit line layouts: widths 1..200, LF/CRLF, short last lines,
//! missing final newline, blank trailing lines, descriptions; plain, bgzipped by an independent
//! BGZF builder with tiny blocks, bgzipped by noodles' own writer; gzi from the independent walker)
//! are indexed by `fasta::io::Indexer` through many buffer geometries and queried through
//! `fasta::io::IndexedReader`; the oracle is a naive whole-file parse. Ragged files must be rejected
//! or at least not mis-indexed. FASTA/FASTQ records written by noodles are read back (and indexed).

mod bgz;
mod index;
mod model;
mod rt;

use noodles_bgzf as bgzf;
use noodles_fasta::{self as fasta, fai};
use serde_json::json;
use std::io::Write;
use vcore::{CaseOut, Ctx, Report, Rng, adv::Sizes, bgzf as obgzf, rng::fnv1a, run_cases};

use index::{Stats, Viol};
use model::{RecLayout, Term};

#[derive(Clone, Copy, Debug, PartialEq, Eq)]
pub enum Kind {
    Index,
    Ragged,
    FastaRt,
    Fastq,
}

#[derive(Clone, Debug)]
pub struct Case {
    pub kind: Kind,
    /// bases per line
    pub width: usize,
    pub crlf: bool,
    pub nseq: usize,
    /// 0 plain, 1 bgzf built by the independent builder, 2 bgzf written by noodles
    pub container: u8,
    /// blank lines after (some) records: 0, 1, 2
    pub blank: u8,
    pub no_final_newline: bool,
    /// ragged kind (Ragged cases)
    pub ragged: u8,
    /// long sequences (several hundred lines at small widths / several lines at large widths)
    pub big: bool,
    /// also through scratch files: fs::index, build_from_path (+ .fai/.gzi files)
    pub fs: bool,
    pub pseed: u64,
}

pub const RAGGED_KINDS: &[&str] = &[
    "middle-line-longer",
    "middle-line-shorter",
    "middle-line-other-terminator",
    "blank-line-inside",
    "first-line-shorter",
    "last-line-longer",
    "two-short-lines-at-end",
    "neighbours-plus-minus",
    "last-line-other-terminator",
    "every-line-different",
];

fn case_json(c: &Case) -> serde_json::Value {
    json!({"kind": format!("{:?}", c.kind), "width": c.width, "crlf": c.crlf, "nseq": c.nseq, "container": c.container,
           "blank": c.blank, "no_final_newline": c.no_final_newline,
           "ragged": if c.kind == Kind::Ragged { RAGGED_KINDS[c.ragged as usize] } else { "" },
           "big": c.big, "fs": c.fs, "pseed": c.pseed})
}

fn gen_cases(ctx: &Ctx) -> Vec<Case> {
    let mut v = Vec::new();
    let mut k = 0u64;
    let seed = |k: &mut u64| {
        *k += 1;
        ctx.seed.wrapping_mul(0x9E37_79B9).wrapping_add(*k)
    };
    // deterministic corpus: geometry grid
    let widths = [1usize, 2, 3, 4, 5, 7, 10, 13, 60, 61, 70, 80, 199, 200];
    for (wi, &width) in widths.iter().enumerate() {
        for crlf in [false, true] {
            for container in 0..3u8 {
                for nseq in [1usize, 3] {
                    let i = wi + crlf as usize + container as usize + nseq;
                    v.push(Case {
                        kind: Kind::Index,
                        width,
                        crlf,
                        nseq,
                        container,
                        blank: [0, 0, 1, 0, 2][i % 5],
                        no_final_newline: i % 4 == 1,
                        ragged: 0,
                        big: i % 3 == 0,
                        fs: i % 6 == 0,
                        pseed: seed(&mut k),
                    });
                }
            }
        }
    }
    // every ragged kind x terminator x position of the ragged record x container
    for ragged in 0..RAGGED_KINDS.len() as u8 {
        for crlf in [false, true] {
            for (j, width) in [1usize, 4, 9, 60].into_iter().enumerate() {
                v.push(Case {
                    kind: Kind::Ragged,
                    width,
                    crlf,
                    nseq: 1 + (j + ragged as usize) % 3,
                    container: ((j + ragged as usize) % 3) as u8,
                    blank: 0,
                    no_final_newline: (j + ragged as usize) % 4 == 0,
                    ragged,
                    big: false,
                    fs: false,
                    pseed: seed(&mut k),
                });
            }
        }
    }
    for width in [1usize, 2, 7, 60, 80, 200, 1000] {
        v.push(Case { kind: Kind::FastaRt, width, crlf: false, nseq: 12, container: 0, blank: 0, no_final_newline: false, ragged: 0, big: false, fs: width == 60, pseed: seed(&mut k) });
    }
    for j in 0..6usize {
        v.push(Case { kind: Kind::Fastq, width: 0, crlf: j % 2 == 1, nseq: 25, container: 0, blank: 0, no_final_newline: j % 3 == 2, ragged: 0, big: false, fs: j == 0, pseed: seed(&mut k) });
    }
    // seeded random part
    let n = ctx.budget("cases", 1400, 30000);
    let mut rng = Rng::new(ctx.seed, 0xC11, 0);
    for _ in 0..n {
        let r = rng.below(100);
        let kind = if r < 66 {
            Kind::Index
        } else if r < 84 {
            Kind::Ragged
        } else if r < 92 {
            Kind::FastaRt
        } else {
            Kind::Fastq
        };
        let width = match rng.below(6) {
            0 => 1 + rng.usize_below(4),
            1 | 2 => 1 + rng.usize_below(16),
            3 => *rng.pick(&[50usize, 60, 61, 70, 80, 100]),
            _ => 1 + rng.usize_below(200),
        };
        v.push(Case {
            kind,
            width,
            crlf: rng.chance(2, 5),
            nseq: match kind {
                Kind::FastaRt => 4 + rng.usize_below(16),
                Kind::Fastq => 5 + rng.usize_below(40),
                _ => *rng.pick(&[1usize, 1, 2, 3, 3, 5, 9]),
            },
            container: *rng.pick(&[0u8, 0, 1, 1, 2]),
            blank: *rng.pick(&[0u8, 0, 0, 0, 0, 0, 0, 1, 1, 2]),
            no_final_newline: rng.chance(1, 4),
            ragged: rng.below(RAGGED_KINDS.len() as u64) as u8,
            big: rng.chance(1, 3),
            fs: rng.chance(1, 10),
            pseed: rng.next_u64(),
        });
    }
    v
}

// -------------------------------------------------------------------------------------------

fn pick_len(rng: &mut Rng, w: usize, big: bool) -> usize {
    let lens: Vec<usize> = if big {
        vec![3 * w + 1, 5 * w, 7 * w - 1, 10 * w + w / 2 + 1, 4 * w + rng.usize_below(20 * w + 1), 40 * w.min(30) + 3]
    } else {
        vec![1, w.saturating_sub(1), w, w + 1, 2 * w - 1, 2 * w, 2 * w + 1, 3 * w, 3 * w + 1, 1 + rng.usize_below(4 * w)]
    };
    let l = *rng.pick(&lens);
    l.max(1)
}

fn build_layout(c: &Case, rng: &mut Rng) -> Vec<RecLayout> {
    let term = if c.crlf { Term::CrLf } else { Term::Lf };
    let mut recs = Vec::new();
    for i in 0..c.nseq {
        let len = pick_len(rng, c.width, c.big);
        let mut lines = model::regular_lines(len, c.width, term);
        // a last line whose terminator differs is still regular (faidx semantics)
        if lines.len() > 1 && rng.chance(1, 12) {
            let n = lines.len();
            lines[n - 1].1 = if c.crlf { Term::Lf } else { Term::CrLf };
        }
        if c.blank > 0 && (rng.bool() || i + 1 == c.nseq) {
            for _ in 0..c.blank {
                lines.push((0, term));
            }
        }
        recs.push(RecLayout {
            name: model::gen_name(rng, i),
            desc: model::gen_desc(rng),
            def_sep: if rng.chance(1, 5) { b'\t' } else { b' ' },
            def_term: if rng.chance(1, 10) { if c.crlf { Term::Lf } else { Term::CrLf } } else { term },
            lines,
        });
    }
    recs
}

/// Applies the ragged mutation to record `at`. The record gets at least 4 lines first.
fn make_ragged(c: &Case, recs: &mut [RecLayout], at: usize, rng: &mut Rng) {
    let term = if c.crlf { Term::CrLf } else { Term::Lf };
    let other = if c.crlf { Term::Lf } else { Term::CrLf };
    let w = c.width;
    let nlines = 4 + rng.usize_below(4);
    let last = 1 + rng.usize_below(w);
    let mut lines: Vec<(usize, Term)> = (0..nlines - 1).map(|_| (w, term)).collect();
    lines.push((last, term));
    let mid = 1 + rng.usize_below(nlines - 2);
    match c.ragged {
        0 => lines[mid].0 = w + 1 + rng.usize_below(3),
        1 => {
            if w == 1 {
                // a shorter line of width 1 is a blank line
                lines[mid].0 = 0
            } else {
                lines[mid].0 = w - 1 - rng.usize_below((w - 1).min(3))
            }
        }
        2 => lines[mid].1 = other,
        3 => lines.insert(mid, (0, term)),
        4 => {
            if w == 1 {
                lines[0].0 = 0
            } else {
                lines[0].0 = w - 1
            }
        }
        5 => lines[nlines - 1].0 = w + 1 + rng.usize_below(3),
        6 => {
            lines[nlines - 2].0 = if w == 1 { 0 } else { 1 + rng.usize_below(w - 1) };
        }
        7 => {
            lines[mid].0 = w + 2;
            let nb = if mid + 1 <= nlines - 2 { mid + 1 } else { mid - 1 };
            lines[nb].0 = w.saturating_sub(2);
        }
        8 => lines[nlines - 1].1 = other,
        _ => {
            for (j, l) in lines.iter_mut().enumerate() {
                l.0 = 1 + (w + j * 3) % (w + 5);
            }
        }
    }
    recs[at].lines = lines;
}

struct Bgz {
    bytes: Vec<u8>,
    gzi: Vec<(u64, u64)>,
    blocks: usize,
}

fn build_bgzf(c: &Case, plain: &[u8], rng: &mut Rng) -> Result<Bgz, String> {
    let bytes = if c.container == 1 {
        // independent builder, tiny blocks so that every terminator is split somewhere
        let mode = rng.below(5);
        let mut blocks: Vec<Vec<u8>> = Vec::new();
        let mut p = 0usize;
        while p < plain.len() {
            let n = match mode {
                0 => 1,
                1 => 1 + rng.usize_below(7),
                2 => 1 + rng.usize_below(64),
                3 => c.width + if c.crlf { 1 } else { 0 }, // block ends between CR and LF / before LF
                _ => 1 + rng.usize_below(4096),
            };
            let n = n.min(plain.len() - p).max(1);
            blocks.push(plain[p..p + n].to_vec());
            p += n;
            if rng.chance(1, 25) {
                blocks.push(Vec::new()); // empty member in the middle
            }
        }
        let enc = if rng.bool() { obgzf::Enc::Stored } else { obgzf::Enc::Deflate(6) };
        obgzf::build_file(&blocks, enc, 1)
    } else {
        let every = *rng.pick(&[1usize, 3, 5, 17, 64, 1000, 100_000]);
        let r = vcore::guard::catch(|| -> std::io::Result<Vec<u8>> {
            let mut w = bgzf::io::Writer::new(Vec::new());
            for piece in plain.chunks(every) {
                w.write_all(piece)?;
                if every < 100_000 {
                    w.flush()?;
                }
            }
            w.finish()
        });
        match r {
            Ok(Ok(b)) => b,
            Ok(Err(e)) => return Err(format!("noodles bgzf writer failed: {e}")),
            Err(p) => return Err(format!("noodles bgzf writer panicked: {}", p.message)),
        }
    };
    let walk = obgzf::walk(&bytes).map_err(|e| format!("independent walker rejects the BGZF container: {e}"))?;
    if walk.concat() != plain {
        return Err("BGZF container does not inflate to the plain FASTA".into());
    }
    let gzi = model::gzi_entries(&walk, rng.bool());
    Ok(Bgz { bytes, gzi, blocks: walk.members.len() })
}

fn run_index_case(ctx: &Ctx, idx: u64, c: &Case, o: &mut CaseOut) {
    let mut rng = Rng::new(c.pseed, 0x1D, 0);
    let mut recs = build_layout(c, &mut rng);
    let ragged_at = if c.kind == Kind::Ragged {
        let at = rng.usize_below(recs.len());
        make_ragged(c, &mut recs, at, &mut rng);
        Some(at)
    } else {
        None
    };
    if c.no_final_newline {
        if let Some(l) = recs.last_mut().and_then(|r| r.lines.last_mut()) {
            if l.0 > 0 {
                l.1 = Term::None;
            }
        }
    }
    let rendered = model::render(&recs, &mut rng);
    let plain = rendered.bytes;
    let naive = match model::naive_parse_fasta(&plain) {
        Ok(n) => n,
        Err(e) => {
            o.inconclusive.push(format!("harness: naive parser rejects the generated file: {e}"));
            return;
        }
    };
    if naive.len() != rendered.seqs.len() || naive.iter().zip(&rendered.seqs).any(|(n, g)| n.name != g.0 || n.seq != g.1) {
        o.inconclusive.push("harness: naive parse disagrees with the generator's description".into());
        return;
    }
    let strictly_regular = naive.iter().all(|n| n.strictly_regular());
    let geometry_defined = naive.iter().all(|n| n.regular_with_trailing_blanks());
    let mut st = Stats::default();
    let mut viols: Vec<Viol> = Vec::new();

    // (i) indexer through every input form
    let mut forms = index::indexer_forms(&plain, &mut rng, &mut st);
    let bgz = if c.container > 0 {
        match build_bgzf(c, &plain, &mut rng) {
            Ok(b) => Some(b),
            Err(e) => {
                o.inconclusive.push(format!("harness: {e}"));
                return;
            }
        }
    } else {
        None
    };
    if let Some(b) = &bgz {
        forms.push((format!("bgzf reader ({} members)", b.blocks), index::index_with(bgzf::io::Reader::new(&b.bytes[..]))));
        st.indexer_runs += 1;
        o.count("bgzf_members", b.blocks as u64);
    }
    let fa_path = ctx.work.join(format!("c{idx}.fa"));
    if c.fs {
        index::write_file(&fa_path, &plain);
        let p = fa_path.clone();
        let r = vcore::guard::catch(move || fasta::fs::index(&p));
        let r = match r {
            Err(p) => Err(format!("panic:{}", p.sig)),
            Ok(Err(e)) => Err(format!("{:?}/{}", e.kind(), if e.to_string().starts_with("invalid line") { "InvalidLine" } else { "other" })),
            Ok(Ok(ix)) => Ok(Vec::<fai::Record>::from(ix)),
        };
        forms.push(("fasta::fs::index".into(), r));
        st.indexer_runs += 1;
        o.count("fs_index_calls", 1);
    }
    let accepted: Vec<bool> = forms.iter().map(|f| f.1.is_ok()).collect();
    for (name, out) in &forms {
        match out {
            Ok(_) => st.indexer_accepts += 1,
            Err(e) => {
                st.indexer_rejects += 1;
                if let Some(sig) = e.strip_prefix("panic:") {
                    viols.push((format!("indexer:panic:{sig}"), format!("indexer over {name} panicked")));
                } else if strictly_regular {
                    viols.push((
                        format!("indexer:rejects-regular-file:{}", e.split('/').nth(1).unwrap_or("other")),
                        format!("indexer over {name} rejects a regular FASTA (no blank lines, equal line geometry, short last line): {e}"),
                    ));
                }
            }
        }
    }
    if accepted.iter().any(|&a| a) && accepted.iter().any(|&a| !a) && viols.is_empty() {
        // only reachable for files whose acceptance is optional (blank lines, odd last terminator):
        // the statement does not forbid it, so it is observed, not judged
        o.count("observed_not_judged[indexer decision depends on buffering for an optional-acceptance file]", 1);
    }
    // all accepting forms must agree with each other, and with the naive geometry where it is defined
    let first_ok = forms.iter().find(|f| f.1.is_ok()).map(|f| (f.0.clone(), f.1.clone().unwrap()));
    if let Some((n0, r0)) = &first_ok {
        for (name, out) in &forms {
            if let Ok(r) = out {
                if geometry_defined {
                    if let Some(v) = index::compare_with_naive(r, &naive, name) {
                        viols.push(v);
                        break;
                    }
                } else if r != r0 {
                    let _ = n0;
                    o.count("observed_not_judged[index of an accepted ragged file depends on buffering]", 1);
                }
            }
        }
    }
    if c.kind == Kind::Ragged {
        o.count(&format!("ragged[{}].{}", RAGGED_KINDS[c.ragged as usize], if first_ok.is_some() { "accepted" } else { "rejected" }), 1);
    } else if !strictly_regular {
        o.count(&format!("blank_trailing_lines[{}].{}", c.blank, if first_ok.is_some() { "accepted" } else { "rejected" }), 1);
    }

    // (ii)/(iii) queries through the index noodles produced
    if let (Some((_, records)), true) = (first_ok, viols.is_empty()) {
        let ix = fai::Index::from(records);
        let mis_sig = ragged_at.map(|_| format!("ragged:accepted-and-misindexed:{}", RAGGED_KINDS[c.ragged as usize]));
        let mis = mis_sig.as_deref();
        let exhaustive_max = ctx.budget("exhaustive_max", 22, 40) as usize;
        let mut qs = Vec::new();
        let mut any_exh = false;
        for (i, n) in naive.iter().enumerate() {
            let lb = n.line_bases().max(1) as usize;
            let (q, exh) = index::queries_for(i, n.seq.len(), lb, &mut rng, exhaustive_max, ctx.budget("random_regions", 40, 120) as usize);
            any_exh |= exh;
            qs.extend(q);
        }
        if any_exh {
            o.count("sequences_queried_exhaustively", naive.iter().filter(|n| n.seq.len() <= exhaustive_max).count() as u64);
        }
        match &bgz {
            None => {
                let cap = *rng.pick(&[1usize, 2, 3, 5, 8, 64, 8192]);
                let mut r = index::plain_reader_a(&plain, cap, ix.clone());
                viols.extend(index::run_queries(&mut r, &naive, &qs, "plain", &format!("IndexedReader<BufReader({cap})<Cursor>>"), mis, &mut st));
                let sizes = if rng.bool() { Sizes::Random(1 + rng.usize_below(9), rng.next_u64()) } else { Sizes::Cuts(index::terminator_cuts(&plain)) };
                match index::plain_reader_b(&plain, sizes, ix.clone()) {
                    Ok(mut r) => viols.extend(index::run_queries(&mut r, &naive, &qs, "plain", "Builder::build_from_reader(ChunkedRead)", mis, &mut st)),
                    Err(e) => viols.push(("query:builder-failed".into(), format!("indexed_reader::Builder::build_from_reader: {e}"))),
                }
            }
            Some(b) => {
                let mut r = index::bgzf_reader(&b.bytes, b.gzi.clone(), ix.clone());
                viols.extend(index::run_queries(&mut r, &naive, &qs, "bgzf", &format!("IndexedReader<bgzf::IndexedReader> ({} members, {} gzi entries)", b.blocks, b.gzi.len()), mis, &mut st));
                o.count("bgzf_files_queried", 1);
            }
        }
        if c.fs {
            // through files: <x>.fa(.gz) + .fai written by noodles + .gzi written by the harness
            let (path, data) = match &bgz {
                None => (fa_path.clone(), None),
                Some(b) => (ctx.work.join(format!("c{idx}.fa.gz")), Some(b)),
            };
            if let Some(b) = data {
                index::write_file(&path, &b.bytes);
                index::write_file(&ctx.work.join(format!("c{idx}.fa.gz.gzi")), &model::gzi_file_bytes(&b.gzi));
            }
            let fai_path = std::path::PathBuf::from(format!("{}.fai", path.display()));
            let built = vcore::guard::catch(|| -> std::io::Result<_> {
                fai::fs::write(&fai_path, &ix)?;
                let back = fai::fs::read(&fai_path)?;
                if back != ix {
                    return Err(std::io::Error::other("fai file does not read back equal"));
                }
                fasta::io::indexed_reader::Builder::default().build_from_path(&path)
            });
            match built {
                Ok(Ok(mut r)) => {
                    let sub: Vec<index::Q> = qs.iter().step_by(3).copied().collect();
                    viols.extend(index::run_queries(&mut r, &naive, &sub, if bgz.is_some() { "bgzf" } else { "plain" }, "Builder::build_from_path", mis, &mut st));
                    o.count("build_from_path_readers", 1);
                }
                Ok(Err(e)) => viols.push(("query:build-from-path-failed".into(), format!("fai write/read + build_from_path({}): {e}", path.display()))),
                Err(p) => viols.push((format!("query:panic:{}", p.sig), format!("build_from_path panicked: {}", p.message))),
            }
        }
        // Repository over the IndexedReader adapter returns whole sequences
        if ragged_at.is_none() {
            let rd = index::plain_reader_a(&plain, 4096, ix.clone());
            let repo = fasta::Repository::new(fasta::repository::adapters::IndexedReader::new(rd));
            for n in &naive {
                st.queries += 1;
                let got = vcore::guard::catch(|| repo.get(&n.name));
                match got {
                    Ok(Some(Ok(s))) => {
                        let g: &[u8] = (*s).as_ref();
                        if g != &n.seq[..] {
                            viols.push(("repository:sequence-ne-naive".into(), format!("Repository::get({:?}) returned {} bases, naive parse has {}", String::from_utf8_lossy(&n.name), g.len(), n.seq.len())));
                            break;
                        }
                    }
                    Ok(Some(Err(e))) => {
                        viols.push(("repository:error".into(), format!("Repository::get failed: {e}")));
                        break;
                    }
                    Ok(None) => {
                        viols.push(("repository:missing".into(), "Repository::get returned None for an indexed name".into()));
                        break;
                    }
                    Err(p) => {
                        viols.push((format!("repository:panic:{}", p.sig), p.message));
                        break;
                    }
                }
            }
            o.count("repository_gets", naive.len() as u64);
        }
    }

    o.evaluations = st.indexer_runs + st.queries;
    o.count("files", 1);
    o.count(if c.container == 0 { "files_plain" } else if c.container == 1 { "files_bgzf_independent_builder" } else { "files_bgzf_noodles_writer" }, 1);
    o.count("indexer_runs", st.indexer_runs);
    o.count("indexer_accepts", st.indexer_accepts);
    o.count("indexer_rejects", st.indexer_rejects);
    o.count("queries", st.queries);
    o.count("queries_in_range", st.queries_in_range);
    o.count("queries_clipped_at_end", st.queries_clipped);
    o.count("queries_start_beyond_end", st.queries_beyond);
    o.count("start_beyond_end.error", st.beyond_err);
    o.count("start_beyond_end.empty", st.beyond_empty);
    o.count("start_beyond_end.foreign_bytes", st.beyond_foreign);
    o.count("window_boundaries_at_terminators", st.split_terminator_fills);
    let maxlen = naive.iter().map(|n| n.seq.len()).max().unwrap_or(0);
    o.max("max_sequence_length", maxlen as u64);
    let wclass = match c.width {
        1 => "1".to_string(),
        2..=4 => "2-4".into(),
        5..=16 => "5-16".into(),
        17..=79 => "17-79".into(),
        80..=199 => "80-199".into(),
        _ => "200".into(),
    };
    o.fp = fnv1a(
        format!(
            "{:?}|{}|{}|{}|{}|{}|{}|{}|{}|{}",
            c.kind,
            wclass,
            c.crlf,
            c.nseq.min(4),
            c.container,
            c.blank,
            c.no_final_newline,
            if c.kind == Kind::Ragged { c.ragged as i32 } else { -1 },
            c.big,
            c.fs
        )
        .as_bytes(),
    );
    let mut seen = std::collections::BTreeSet::new();
    for (sig, desc) in viols {
        if seen.insert(sig.clone()) {
            o.violation_with(sig, desc, json!({"file_head": String::from_utf8_lossy(&plain[..plain.len().min(300)]), "file_len": plain.len()}));
        }
    }
    if c.fs && std::env::var_os("VERIF_KEEP_WORK").is_none() {
        for ext in ["fa", "fa.fai", "fa.gz", "fa.gz.fai", "fa.gz.gzi"] {
            let _ = std::fs::remove_file(ctx.work.join(format!("c{idx}.{ext}")));
        }
    }
}

fn main() {
    let ctx = Ctx::from_args();
    let ctx = vcore::cases::replay_request(&ctx).map(|r| r.1).unwrap_or(ctx);
    let mut rep = Report::new(
        "case = one generated file with all its indexer runs and region queries (Index/Ragged), or one batch of \
         records written by noodles and read back (FastaRt/Fastq); deterministic grid (14 line widths x LF/CRLF x \
         plain/bgzf-independent/bgzf-noodles x 1|3 records; 10 ragged kinds x LF/CRLF x 4 widths; 7 writer line widths; \
         6 FASTQ batches) plus a VERIF_SEED-seeded random part; evaluations = indexer runs + region queries + records \
         read back; distinct = distinct (kind, width class, terminator, record-count class, container, blank-line \
         count, missing final newline, ragged kind, long/short sequences, file API used); non-trivial = all",
    );
    rep.assumptions.push("oracle = naive whole-file FASTA/FASTQ parser of the harness (lines split at LF, one CR stripped, '>' starts a record, name = up to first blank); BGZF containers judged by the independent walker (miniz_oxide); gzi = (member offset, inflated offset) of every member after the first, with or without the EOF member".into());
    rep.assumptions.push("a region whose start lies beyond the sequence end may yield an error or an empty record; a regular file is one whose lines all have the first line's geometry except a last line with at most as many bases (terminator free); blank trailing lines may be accepted or rejected, consistently over all buffer geometries; a ragged file that is accepted is a violation only if some query answer differs from the naive parse".into());
    rep.assumptions.push("FASTA names are free of blanks and descriptions have no leading/trailing blanks (format-inherent); FASTQ names are free of blanks; noodles' writers emit LF only".into());
    let cases = gen_cases(&ctx);
    let f = |i: u64| -> CaseOut {
        let c = &cases[i as usize];
        let mut o = CaseOut::new();
        match c.kind {
            Kind::Index | Kind::Ragged => run_index_case(&ctx, i, c, &mut o),
            Kind::FastaRt => rt::run_fasta_rt(&ctx, i, c, &mut o),
            Kind::Fastq => rt::run_fastq(&ctx, i, c, &mut o),
        }
        if i % 97 == 0 {
            o.sample = Some(case_json(c));
        }
        o
    };
    run_cases(&ctx, &mut rep, cases.len() as u64, 60.0, &f, &|i| case_json(&cases[i as usize]));
    if ctx.replay.is_none() {
        let q = ctx.quick();
        let floors: [(&str, u64); 16] = [
            ("files", if q { 400 } else { 10000 }),
            ("queries", if q { 60_000 } else { 1_000_000 }),
            ("queries_in_range", 20_000),
            ("queries_clipped_at_end", 5_000),
            ("queries_start_beyond_end", 5_000),
            ("indexer_accepts", 2_000),
            ("indexer_rejects", 200),
            ("bgzf_files_queried", 50),
            ("build_from_path_readers", 10),
            ("fasta_records_read_back", 300),
            ("fastq_records_read_back", 500),
            ("fastq_index_records_compared", 500),
            ("fasta_records_read_back_through_bgzf", 300),
            ("fastq_records_read_back_through_bgzf", 300),
            ("queries_across_bgzf_block_boundaries", 500),
            ("short_write_sink_runs", 100),
        ];
        for (k, need) in floors {
            let got = rep.counters.get(k).copied().unwrap_or(0);
            rep.floor(k, got, need);
        }
    }
    rep.finish(&ctx);
}
