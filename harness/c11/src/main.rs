//! C11 — stub (to be implemented).

fn main() {
    eprintln!("c11: not implemented");
    std::process::exit(2);
}
