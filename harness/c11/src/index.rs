//! Checks (i)–(iii): indexer vs naive geometry, region queries vs naive slices, ragged files.

use std::{
    io::{BufRead, BufReader, Cursor, Seek},
    path::Path,
    sync::Arc,
};

use noodles_bgzf as bgzf;
use noodles_core::{Position, Region};
use noodles_fasta::{self as fasta, fai};
use vcore::{
    Rng,
    adv::{ChunkedRead, Sizes},
    guard,
};

use crate::model::NaiveRec;

pub type Viol = (String, String);

#[derive(Default)]
pub struct Stats {
    pub indexer_runs: u64,
    pub indexer_accepts: u64,
    pub indexer_rejects: u64,
    pub queries: u64,
    pub queries_in_range: u64,
    pub queries_clipped: u64,
    pub queries_beyond: u64,
    pub beyond_err: u64,
    pub beyond_empty: u64,
    pub beyond_foreign: u64,
    pub split_terminator_fills: u64,
}

#[derive(Clone, Debug, PartialEq, Eq)]
pub struct Fai {
    pub name: Vec<u8>,
    pub length: u64,
    pub offset: u64,
    pub line_bases: u64,
    pub line_width: u64,
}

impl Fai {
    pub fn of(r: &fai::Record) -> Fai {
        Fai {
            name: r.name().to_vec(),
            length: r.length(),
            offset: r.position(),
            line_bases: r.line_base_count().get(),
            line_width: r.line_width().get(),
        }
    }
    pub fn naive(r: &NaiveRec) -> Fai {
        Fai { name: r.name.clone(), length: r.seq.len() as u64, offset: r.offset, line_bases: r.line_bases(), line_width: r.line_width() }
    }
}

/// Ok(records) | Err(error class) ; a panic is Err("panic:<sig>")
pub type IndexOutcome = Result<Vec<fai::Record>, String>;

fn error_class(e: &std::io::Error) -> String {
    let s = e.to_string();
    let what = if s.starts_with("invalid line bases") {
        "InvalidLineBases"
    } else if s.starts_with("invalid line width") {
        "InvalidLineWidth"
    } else if s.starts_with("empty sequence") {
        "EmptySequence"
    } else {
        "other"
    };
    format!("{:?}/{}", e.kind(), what)
}

pub fn index_with<R: BufRead>(reader: R) -> IndexOutcome {
    let r = guard::catch(move || -> std::io::Result<Vec<fai::Record>> {
        let mut ix = fasta::io::Indexer::new(reader);
        let mut v = Vec::new();
        while let Some(r) = ix.index_record()? {
            v.push(r);
        }
        Ok(v)
    });
    match r {
        Err(p) => Err(format!("panic:{}", p.sig)),
        Ok(Err(e)) => Err(error_class(&e)),
        Ok(Ok(v)) => Ok(v),
    }
}

/// Offsets at which a window boundary separates CR from LF or a terminator from the next line.
pub fn terminator_cuts(bytes: &[u8]) -> Vec<usize> {
    let mut cuts = Vec::new();
    for (i, &b) in bytes.iter().enumerate() {
        if b == b'\r' {
            cuts.push(i); // window ends right before CR
            cuts.push(i + 1); // CR | LF
        } else if b == b'\n' {
            cuts.push(i);
            cuts.push(i + 1);
        }
    }
    cuts.sort_unstable();
    cuts.dedup();
    cuts
}

/// All indexer input forms over the plain bytes. Returns (form name, outcome).
pub fn indexer_forms(plain: &[u8], rng: &mut Rng, st: &mut Stats) -> Vec<(String, IndexOutcome)> {
    let mut out = Vec::new();
    out.push(("slice".to_string(), index_with(plain)));
    for cap in [1usize, 2, 3, 1 + rng.usize_below(9), 16 + rng.usize_below(100)] {
        out.push((format!("bufreader({cap})"), index_with(BufReader::with_capacity(cap, plain))));
    }
    let arc = Arc::new(plain.to_vec());
    out.push(("chunked(fixed 1)".into(), index_with(ChunkedRead::new(arc.clone(), Sizes::Fixed(1)))));
    let k = 2 + rng.usize_below(12);
    out.push((format!("chunked(random {k})"), index_with(ChunkedRead::new(arc.clone(), Sizes::Random(k, rng.next_u64())))));
    let cuts = terminator_cuts(plain);
    st.split_terminator_fills += cuts.len() as u64;
    out.push(("chunked(cuts at terminators)".into(), index_with(ChunkedRead::new(arc, Sizes::Cuts(cuts)))));
    st.indexer_runs += out.len() as u64;
    out
}

pub fn compare_with_naive(got: &[fai::Record], naive: &[NaiveRec], form: &str) -> Option<Viol> {
    if got.len() != naive.len() {
        return Some((
            "indexer:fai-ne-naive:record-count".into(),
            format!("indexer over {form} produced {} records, naive parse has {}", got.len(), naive.len()),
        ));
    }
    for (g, n) in got.iter().zip(naive) {
        let g = Fai::of(g);
        let e = Fai::naive(n);
        if g != e {
            let field = if g.name != e.name {
                "name"
            } else if g.length != e.length {
                "length"
            } else if g.offset != e.offset {
                "offset"
            } else if g.line_bases != e.line_bases {
                "line_bases"
            } else {
                "line_width"
            };
            return Some((
                format!("indexer:fai-ne-naive:{field}"),
                format!("indexer over {form}: fai record {g:?} != naive geometry {e:?}"),
            ));
        }
    }
    None
}

// -------------------------------------------------------------------------------------------
// queries

#[derive(Clone, Copy, Debug)]
pub struct Q {
    pub rec: usize,
    /// 1-based inclusive; None = unbounded
    pub start: Option<usize>,
    pub end: Option<usize>,
}

fn pos(n: usize) -> Position {
    Position::try_from(n).expect("n >= 1")
}

pub fn region_of(name: &[u8], q: &Q) -> Region {
    match (q.start, q.end) {
        (None, None) => Region::new(name, ..),
        (Some(s), None) => Region::new(name, pos(s)..),
        (None, Some(e)) => Region::new(name, ..=pos(e)),
        (Some(s), Some(e)) => Region::new(name, pos(s)..=pos(e)),
    }
}

/// Query set of one record: exhaustive for short sequences, structured + random otherwise.
pub fn queries_for(rec: usize, len: usize, lb: usize, rng: &mut Rng, exhaustive_max: usize, random_n: usize) -> (Vec<Q>, bool) {
    let mut v = Vec::new();
    v.push(Q { rec, start: None, end: None });
    let exhaustive = len <= exhaustive_max;
    if exhaustive {
        for s in 1..=len + 2 {
            for e in s..=len + 2 {
                v.push(Q { rec, start: Some(s), end: Some(e) });
            }
            v.push(Q { rec, start: Some(s), end: None });
        }
        for e in 1..=len + 2 {
            v.push(Q { rec, start: None, end: Some(e) });
        }
    } else {
        let mut marks: Vec<usize> = vec![1, 2, len / 2, len - 1, len, len + 1, len + 2];
        for k in 1..=3 {
            for d in [-1i64, 0, 1, 2] {
                let m = (k * lb) as i64 + d;
                if m >= 1 {
                    marks.push(m as usize);
                }
            }
        }
        let last_line_start = (len - 1) / lb * lb + 1;
        marks.extend([last_line_start.saturating_sub(1).max(1), last_line_start, last_line_start + 1]);
        marks.retain(|&m| m >= 1 && m <= len + 2);
        marks.sort_unstable();
        marks.dedup();
        for (i, &s) in marks.iter().enumerate() {
            for &e in &marks[i..] {
                v.push(Q { rec, start: Some(s), end: Some(e) });
            }
            v.push(Q { rec, start: Some(s), end: None });
            v.push(Q { rec, start: None, end: Some(s) });
        }
        for _ in 0..random_n {
            let s = rng.urange(1, len);
            let e = match rng.below(4) {
                0 => s,
                1 => (s + rng.usize_below(2 * lb + 2)).min(len + 2),
                _ => rng.urange(s, len + 2),
            };
            v.push(Q { rec, start: Some(s), end: Some(e) });
        }
    }
    // starts beyond the sequence end: the next lines / records / definition lines lie there
    let mut beyond: Vec<usize> = vec![len + 1, len + 2, len + 3, len + lb, len + lb + 1, len + 2 * lb + 3, len + 5 * lb + 7, len + 1000];
    for _ in 0..4 {
        beyond.push(len + 1 + rng.usize_below(6 * lb + 40));
    }
    beyond.sort_unstable();
    beyond.dedup();
    for s in beyond {
        v.push(Q { rec, start: Some(s), end: None });
        v.push(Q { rec, start: Some(s), end: Some(s) });
        v.push(Q { rec, start: Some(s), end: Some(s + 1 + rng.usize_below(2 * lb + 5)) });
    }
    (v, exhaustive)
}

/// What the naive parse says a query must return; `None` = start beyond the end (error or empty
/// are both fine, any byte is not).
pub fn expected<'a>(seq: &'a [u8], q: &Q) -> Option<&'a [u8]> {
    let s = q.start.unwrap_or(1);
    let e = q.end.unwrap_or(usize::MAX).min(seq.len());
    if s > seq.len() {
        return None;
    }
    Some(&seq[s - 1..e.max(s - 1)])
}

pub fn run_queries<R: BufRead + Seek>(
    reader: &mut fasta::io::IndexedReader<R>,
    naive: &[NaiveRec],
    qs: &[Q],
    container: &str,
    form: &str,
    misindex_sig: Option<&str>,
    st: &mut Stats,
) -> Vec<Viol> {
    let mut viols: Vec<Viol> = Vec::new();
    let push = |v: Viol, viols: &mut Vec<Viol>| {
        if !viols.iter().any(|x| x.0 == v.0) {
            viols.push(v);
        }
    };
    for q in qs {
        let n = &naive[q.rec];
        let region = region_of(&n.name, q);
        let exp = expected(&n.seq, q);
        st.queries += 1;
        let got = guard::catch(|| reader.query(&region));
        let show = |b: &[u8]| String::from_utf8_lossy(&b[..b.len().min(60)]).into_owned();
        match exp {
            Some(exp) => {
                if q.end.map(|e| e > n.seq.len()).unwrap_or(false) {
                    st.queries_clipped += 1;
                } else {
                    st.queries_in_range += 1;
                }
                match got {
                    Err(p) => push((format!("query:panic:{}", p.sig), format!("query {region} over {form} panicked: {}", p.message)), &mut viols),
                    Ok(Err(e)) => push(
                        (
                            misindex_sig.map(|s| s.to_string()).unwrap_or_else(|| format!("query:error-on-in-range-region:{container}")),
                            format!("query {region} (sequence length {}) over {form} failed: {e}", n.seq.len()),
                        ),
                        &mut viols,
                    ),
                    Ok(Ok(rec)) => {
                        let g: &[u8] = rec.sequence().as_ref();
                        if g != exp {
                            let class = if g.len() < exp.len() {
                                "short"
                            } else if g.len() > exp.len() {
                                "long"
                            } else {
                                "content"
                            };
                            push(
                                (
                                    misindex_sig.map(|s| s.to_string()).unwrap_or_else(|| format!("query:ne-naive-slice:{container}:{class}")),
                                    format!(
                                        "query {region} over {form}: got {} bases {:?}, naive parse says {} bases {:?} (sequence length {}, line_bases {}, line_width {})",
                                        g.len(),
                                        show(g),
                                        exp.len(),
                                        show(exp),
                                        n.seq.len(),
                                        n.line_bases(),
                                        n.line_width()
                                    ),
                                ),
                                &mut viols,
                            );
                        }
                    }
                }
            }
            None => {
                st.queries_beyond += 1;
                match got {
                    Err(p) => push(
                        (format!("query-start-beyond-end:panic:{}", p.sig), format!("query {region} (sequence length {}) over {form} panicked: {}", n.seq.len(), p.message)),
                        &mut viols,
                    ),
                    Ok(Err(_)) => st.beyond_err += 1,
                    Ok(Ok(rec)) => {
                        let g: &[u8] = rec.sequence().as_ref();
                        if g.is_empty() {
                            st.beyond_empty += 1;
                        } else {
                            st.beyond_foreign += 1;
                            push(
                                (
                                    "query-start-beyond-end:returns-bytes-outside-sequence".into(),
                                    format!(
                                        "query {region} over {form}: the sequence has only {} bases, yet {} bytes were returned: {:?} (bytes of a definition line / another record)",
                                        n.seq.len(),
                                        g.len(),
                                        show(g)
                                    ),
                                ),
                                &mut viols,
                            );
                        }
                    }
                }
            }
        }
    }
    viols
}

pub fn plain_reader_a(plain: &[u8], cap: usize, index: fai::Index) -> fasta::io::IndexedReader<BufReader<Cursor<Vec<u8>>>> {
    fasta::io::IndexedReader::new(BufReader::with_capacity(cap, Cursor::new(plain.to_vec())), index)
}

pub fn plain_reader_b(plain: &[u8], sizes: Sizes, index: fai::Index) -> std::io::Result<fasta::io::IndexedReader<ChunkedRead>> {
    fasta::io::indexed_reader::Builder::default().set_index(index).build_from_reader(ChunkedRead::from_slice(plain, sizes))
}

pub fn bgzf_reader(bgz: &[u8], gzi: Vec<(u64, u64)>, index: fai::Index) -> fasta::io::IndexedReader<bgzf::io::IndexedReader<Cursor<Vec<u8>>>> {
    let inner = bgzf::io::IndexedReader::new(Cursor::new(bgz.to_vec()), bgzf::gzi::Index::from(gzi));
    fasta::io::IndexedReader::new(inner, index)
}

pub fn write_file(p: &Path, b: &[u8]) {
    std::fs::write(p, b).unwrap_or_else(|e| panic!("cannot write scratch file {}: {e}", p.display()));
}
