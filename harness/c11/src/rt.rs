//! Check (iv): FASTA / FASTQ records written by noodles read back equal (any line width; '@' and
//! '+' inside and at the start of quality strings), the written files index to the naive geometry.

use std::{
    io::{BufRead, BufReader, Write},
    num::NonZero,
    sync::{Arc, Mutex},
};

use noodles_fasta as fasta;
use noodles_fastq as fastq;
use vcore::{
    CaseOut, Ctx, Rng,
    adv::{ChunkedRead, Sizes},
    guard,
    rng::fnv1a,
};

use crate::{Case, bgz, index, model};

const SEQ_ALPHA: &[u8] = b"ACGTACGTACGTNacgtnRYKMSWBDHV*-";

fn gen_seq(rng: &mut Rng, len: usize) -> Vec<u8> {
    (0..len).map(|_| SEQ_ALPHA[rng.usize_below(SEQ_ALPHA.len())]).collect()
}

fn read_fasta<R: BufRead>(r: R) -> Result<Vec<fasta::Record>, String> {
    match guard::catch(move || {
        let mut rd = fasta::io::Reader::new(r);
        rd.records().collect::<std::io::Result<Vec<_>>>()
    }) {
        Err(p) => Err(format!("panic:{}", p.sig)),
        Ok(Err(e)) => Err(format!("error:{e}")),
        Ok(Ok(v)) => Ok(v),
    }
}

/// `read_definition` / `read_sequence` loop with ONE reused `Definition` and ONE reused sequence
/// buffer (cleared by the caller, as with `read_to_end`): nothing of a long record with a
/// description may survive into a following short / empty one without description.
fn read_fasta_reused<R: BufRead>(r: R) -> Result<Vec<fasta::Record>, String> {
    match guard::catch(move || -> std::io::Result<Vec<fasta::Record>> {
        let mut rd = fasta::io::Reader::new(r);
        let mut def = fasta::record::Definition::default();
        let mut buf = Vec::new();
        let mut v = Vec::new();
        while rd.read_definition(&mut def)? != 0 {
            buf.clear();
            rd.read_sequence(&mut buf)?;
            v.push(fasta::Record::new(def.clone(), fasta::record::Sequence::from(buf.clone())));
        }
        Ok(v)
    }) {
        Err(p) => Err(format!("panic:{}", p.sig)),
        Ok(Err(e)) => Err(format!("error:{e}")),
        Ok(Ok(v)) => Ok(v),
    }
}

pub fn run_fasta_rt(ctx: &Ctx, idx: u64, c: &Case, o: &mut CaseOut) {
    let mut rng = Rng::new(c.pseed, 0xFA, 0);
    let w = c.width.max(1);
    let mut records = Vec::new();
    let mut any_empty = false;
    for i in 0..c.nseq {
        // every 4th record is long and described, the one after it short or empty and bare
        let len = match (i % 4, rng.below(8)) {
            (0, _) => 3 * w.min(300) + 5 + rng.usize_below(40),
            (1, k) => (k % 3) as usize,
            (_, 0) => 0,
            (_, 1) => 1,
            (_, 2) => w,
            (_, 3) => w + 1,
            (_, 4) => 2 * w,
            (_, 5) => (3 * w).saturating_sub(1),
            _ => rng.usize_below(4 * w.min(300) + 2),
        };
        any_empty |= len == 0;
        let desc = match i % 4 {
            0 => Some(model::gen_desc(&mut rng).unwrap_or_else(|| "a long description ACGT".to_string())),
            1 => None,
            _ => model::gen_desc(&mut rng),
        };
        let def = fasta::record::Definition::new(model::gen_name(&mut rng, i), desc.map(|d| d.into()));
        records.push(fasta::Record::new(def, fasta::record::Sequence::from(gen_seq(&mut rng, len))));
    }
    let recs = records.clone();
    let written = guard::catch(move || -> std::io::Result<Vec<u8>> {
        let mut wr = fasta::io::writer::Builder::default().set_line_base_count(NonZero::new(w).unwrap()).build_from_writer(Vec::new());
        for r in &recs {
            wr.write_record(r)?;
        }
        Ok(wr.into_inner())
    });
    let bytes = match written {
        Ok(Ok(b)) => b,
        Ok(Err(e)) => {
            o.count(&format!("fasta_writer_rejected[{:?}]", e.kind()), 1);
            return;
        }
        Err(p) => {
            o.violation(format!("fasta-rt:writer-panic:{}", p.sig), p.message);
            return;
        }
    };
    o.count("fasta_files_written", 1);
    // sinks that take 1 / 7 bytes per call; then the same records plus >= 200 kB of long ones through
    // the bgzf writer(s), whose write() accepts only what fits into the current block
    bgz::fasta_short_writes(&records, w, &bytes, o);
    // (empty sequences cannot be indexed; they stay covered by the plain pass above)
    let mut big: Vec<fasta::Record> = records.iter().filter(|r| !r.sequence().is_empty()).cloned().collect();
    big.extend(bgz::big_fasta_records(&mut rng));
    let bigc = big.clone();
    let plain_big = guard::catch(move || -> std::io::Result<Vec<u8>> {
        let mut wr = fasta::io::writer::Builder::default().set_line_base_count(NonZero::new(w).unwrap()).build_from_writer(Vec::new());
        for r in &bigc {
            wr.write_record(r)?;
        }
        Ok(wr.into_inner())
    });
    let mut bgz_evals = 0;
    if let Ok(Ok(plain_big)) = plain_big {
        bgz_evals = bgz::fasta_through_bgzf(&big, w, &plain_big, idx % 4 == 0, &mut rng, o);
    }
    // text-level: no line longer than the configured width
    // observed, not judged: the statement only demands equality after reading back
    let too_long = bytes.split(|&b| b == b'\n').any(|l| !l.starts_with(b">") && l.len() > w);
    if too_long {
        o.count("observed_not_judged[written sequence line longer than line_base_count]", 1);
    }
    let cap = *rng.pick(&[1usize, 2, 3, 7, 64]);
    let forms: Vec<(String, Result<Vec<fasta::Record>, String>)> = vec![
        ("slice".into(), read_fasta(&bytes[..])),
        (format!("bufreader({cap})"), read_fasta(BufReader::with_capacity(cap, &bytes[..]))),
        ("chunked(random 5)".into(), read_fasta(ChunkedRead::from_slice(&bytes, Sizes::Random(5, rng.next_u64())))),
        ("chunked(cuts at terminators)".into(), read_fasta(ChunkedRead::from_slice(&bytes, Sizes::Cuts(index::terminator_cuts(&bytes))))),
        ("slice/read_definition+read_sequence into reused buffers".into(), read_fasta_reused(&bytes[..])),
        (format!("bufreader({cap})/read_definition+read_sequence into reused buffers"), read_fasta_reused(BufReader::with_capacity(cap, &bytes[..]))),
    ];
    let mut evals = 0u64;
    for (name, got) in &forms {
        match got {
            Err(e) => {
                let (k, rest) = e.split_once(':').unwrap();
                let sig = if k == "panic" { format!("fasta-rt:reader-panic:{rest}") } else { "fasta-rt:reader-error".to_string() };
                o.violation(sig, format!("reading back the written FASTA over {name} (line_base_count {w}): {e}"));
                break;
            }
            Ok(v) => {
                evals += v.len() as u64;
                if *v != records {
                    let at = v.iter().zip(&records).position(|(a, b)| a != b).unwrap_or(v.len().min(records.len()));
                    let field = match (v.get(at), records.get(at)) {
                        (Some(a), Some(b)) if a.definition() != b.definition() => "definition",
                        (Some(_), Some(_)) => "sequence",
                        _ => "record-count",
                    };
                    o.violation(
                        format!("fasta-rt:readback-ne-written:{field}"),
                        format!("over {name}, line_base_count {w}: record #{at} read back {:?}, written {:?} ({} vs {} records)", v.get(at), records.get(at), v.len(), records.len()),
                    );
                    break;
                }
            }
        }
    }
    o.count("fasta_records_read_back", evals);
    // the written file indexes to the naive geometry and serves whole sequences
    if !any_empty {
        if let Ok(naive) = model::naive_parse_fasta(&bytes) {
            let mut st = index::Stats::default();
            let forms = index::indexer_forms(&bytes, &mut rng, &mut st);
            evals += st.indexer_runs;
            let mut ix = None;
            for (name, out) in &forms {
                match out {
                    Err(e) => {
                        o.violation(format!("fasta-rt:indexer-rejects-written-file:{}", e.split('/').nth(1).unwrap_or("other")), format!("indexer over {name} rejects a file written by the FASTA writer (line_base_count {w}): {e}"));
                        break;
                    }
                    Ok(r) => {
                        if let Some(v) = index::compare_with_naive(r, &naive, name) {
                            o.violation(v.0, format!("written file, line_base_count {w}: {}", v.1));
                            break;
                        }
                        ix = Some(r.clone());
                    }
                }
            }
            if let Some(ix) = ix {
                let ix = fasta::fai::Index::from(ix);
                let mut qs = Vec::new();
                for (i, n) in naive.iter().enumerate() {
                    qs.extend(index::queries_for(i, n.seq.len(), w, &mut rng, 8, 10).0);
                }
                let mut r = index::plain_reader_a(&bytes, 1 + rng.usize_below(40), ix);
                for v in index::run_queries(&mut r, &naive, &qs, "plain", "IndexedReader over the written file", None, &mut st) {
                    o.violation(v.0, v.1);
                }
                evals += st.queries;
                o.count("queries", st.queries);
                o.count("queries_in_range", st.queries_in_range);
                o.count("queries_clipped_at_end", st.queries_clipped);
                o.count("queries_start_beyond_end", st.queries_beyond);
                o.count("start_beyond_end.error", st.beyond_err);
                o.count("start_beyond_end.empty", st.beyond_empty);
                o.count("start_beyond_end.foreign_bytes", st.beyond_foreign);
            }
            o.count("indexer_runs", st.indexer_runs);
            o.count("indexer_accepts", st.indexer_accepts);
            o.count("indexer_rejects", st.indexer_rejects);
        }
    }
    let _ = ctx;
    o.evaluations = (evals + bgz_evals).max(1);
    let wclass = if w <= 4 { 0 } else if w <= 80 { 1 } else if w <= 200 { 2 } else { 3 };
    o.fp = fnv1a(format!("fasta-rt|{wclass}|{any_empty}").as_bytes());
}

// -------------------------------------------------------------------------------------------

#[derive(Clone, Default)]
struct SharedSink(Arc<Mutex<Vec<u8>>>);

impl Write for SharedSink {
    fn write(&mut self, buf: &[u8]) -> std::io::Result<usize> {
        self.0.lock().unwrap().extend_from_slice(buf);
        Ok(buf.len())
    }
    fn flush(&mut self) -> std::io::Result<()> {
        Ok(())
    }
}

fn read_fastq<R: BufRead>(r: R, by_read_record: bool) -> Result<Vec<fastq::Record>, String> {
    match guard::catch(move || -> std::io::Result<Vec<fastq::Record>> {
        let mut rd = fastq::io::Reader::new(r);
        if by_read_record {
            let mut v = Vec::new();
            let mut rec = fastq::Record::default();
            while rd.read_record(&mut rec)? != 0 {
                v.push(rec.clone());
            }
            Ok(v)
        } else {
            rd.records().collect()
        }
    }) {
        Err(p) => Err(format!("panic:{}", p.sig)),
        Ok(Err(e)) => Err(format!("error:{e}")),
        Ok(Ok(v)) => Ok(v),
    }
}

type FqIx = (String, u64, u64, u64, u64, u64);

fn index_fastq<R: BufRead>(r: R) -> Result<Vec<FqIx>, String> {
    match guard::catch(move || -> std::io::Result<Vec<FqIx>> {
        let mut ix = fastq::io::Indexer::new(r);
        let mut v = Vec::new();
        while let Some(r) = ix.index_record()? {
            v.push((r.name().to_string(), r.length(), r.sequence_offset(), r.line_bases(), r.line_width(), r.quality_scores_offset()));
        }
        Ok(v)
    }) {
        Err(p) => Err(format!("panic:{}", p.sig)),
        Ok(Err(e)) => Err(format!("error:{e}")),
        Ok(Ok(v)) => Ok(v),
    }
}

fn fq_expected(n: &model::NaiveFq) -> FqIx {
    (String::from_utf8_lossy(&n.name).into_owned(), n.seq.len() as u64, n.seq_offset, n.line_bases, n.line_width, n.qual_offset)
}

pub fn run_fastq(ctx: &Ctx, idx: u64, c: &Case, o: &mut CaseOut) {
    let mut rng = Rng::new(c.pseed, 0xF9, 0);
    const NAME: &[u8] = b"abcXYZ0189_.:-|/#@+=";
    const DESC: &[u8] = b"abc XYZ\t019:@+>;,=";
    let mut records = Vec::new();
    let mut special_quals = 0u64;
    for i in 0..c.nseq {
        let mut name = format!("r{i}");
        for _ in 0..rng.usize_below(8) {
            name.push(NAME[rng.usize_below(NAME.len())] as char);
        }
        if rng.chance(1, 10) {
            name.push_str("ü");
        }
        // every 4th record is long and described, the one after it short or empty and bare (the readers
        // fill ONE reused record)
        let desc: Vec<u8> = if i % 4 == 1 || (i % 4 != 0 && rng.bool()) { Vec::new() } else { (0..1 + rng.usize_below(12)).map(|_| DESC[rng.usize_below(DESC.len())]).collect() };
        let len = match (i % 4, rng.below(6)) {
            (0, _) => 120 + rng.usize_below(80),
            (1, k) => (k % 3) as usize,
            (_, 0) => 0,
            (_, 1) => 1,
            _ => rng.usize_below(160),
        };
        let seq: Vec<u8> = (0..len).map(|_| b"ACGTN"[rng.usize_below(5)]).collect();
        let mut qual: Vec<u8> = (0..len).map(|_| b'!' + rng.below(94) as u8).collect();
        // '@' and '+' at the start of and inside the quality line
        if len > 0 {
            match rng.below(4) {
                0 => qual[0] = b'@',
                1 => qual[0] = b'+',
                2 => {
                    for q in qual.iter_mut() {
                        *q = if rng.bool() { b'@' } else { b'+' };
                    }
                }
                _ => {}
            }
            if len > 2 {
                let k = rng.usize_below(len);
                qual[k] = b'@';
                let k = rng.usize_below(len);
                qual[k] = b'+';
            }
            if qual[0] == b'@' || qual[0] == b'+' {
                special_quals += 1;
            }
        }
        records.push(fastq::Record::new(fastq::record::Definition::new(name, desc), seq, qual));
    }
    let sep = if rng.chance(1, 3) { b'\t' } else { b' ' };
    let recs = records.clone();
    let sink = SharedSink::default();
    let s2 = sink.clone();
    let via_builder = rng.bool();
    let written = guard::catch(move || -> std::io::Result<()> {
        if via_builder || sep != b' ' {
            let mut w = fastq::io::writer::Builder::default().set_definition_separator(sep).build_from_writer(s2);
            for r in &recs {
                w.write_record(r)?;
            }
        } else {
            let mut w = fastq::io::Writer::new(s2);
            for r in &recs {
                w.write_record(r)?;
            }
        }
        Ok(())
    });
    match written {
        Ok(Ok(())) => {}
        Ok(Err(e)) => {
            o.count(&format!("fastq_writer_rejected[{:?}]", e.kind()), 1);
            return;
        }
        Err(p) => {
            o.violation(format!("fastq-rt:writer-panic:{}", p.sig), p.message);
            return;
        }
    }
    let mut bytes = sink.0.lock().unwrap().clone();
    o.count("fastq_files_written", 1);
    bgz::fastq_short_writes(&records, sep, &bytes, o);
    let mut big = records.clone();
    for (i, len) in [70_001usize, 65_280, 66_123].into_iter().enumerate() {
        let seq: Vec<u8> = (0..len).map(|_| b"ACGTN"[rng.usize_below(5)]).collect();
        let qual: Vec<u8> = (0..len).map(|_| b'!' + rng.below(94) as u8).collect();
        big.push(fastq::Record::new(fastq::record::Definition::new(format!("long{i}"), if i == 1 { "" } else { "a long read" }), seq, qual));
    }
    let bgz_evals = bgz::fastq_through_bgzf(&big, o);
    o.count("fastq_quality_lines_starting_with_at_or_plus", special_quals);
    let mut evals = 0u64;
    let cap = *rng.pick(&[1usize, 2, 3, 7, 64]);
    let forms: Vec<(String, Result<Vec<fastq::Record>, String>)> = vec![
        ("slice/records()".into(), read_fastq(&bytes[..], false)),
        (format!("bufreader({cap})/read_record"), read_fastq(BufReader::with_capacity(cap, &bytes[..]), true)),
        ("chunked(random 6)/records()".into(), read_fastq(ChunkedRead::from_slice(&bytes, Sizes::Random(6, rng.next_u64())), false)),
        ("chunked(cuts at terminators)/read_record".into(), read_fastq(ChunkedRead::from_slice(&bytes, Sizes::Cuts(index::terminator_cuts(&bytes))), true)),
    ];
    for (name, got) in &forms {
        match got {
            Err(e) => {
                let (k, rest) = e.split_once(':').unwrap();
                let sig = if k == "panic" { format!("fastq-rt:reader-panic:{rest}") } else { "fastq-rt:reader-error".to_string() };
                o.violation(sig, format!("reading back the written FASTQ over {name}: {e}"));
                break;
            }
            Ok(v) => {
                evals += v.len() as u64;
                if *v != records {
                    let at = v.iter().zip(&records).position(|(a, b)| a != b).unwrap_or(v.len().min(records.len()));
                    let field = match (v.get(at), records.get(at)) {
                        (Some(a), Some(b)) if a.definition() != b.definition() => "definition",
                        (Some(a), Some(b)) if a.sequence() != b.sequence() => "sequence",
                        (Some(_), Some(_)) => "quality",
                        _ => "record-count",
                    };
                    o.violation(format!("fastq-rt:readback-ne-written:{field}"), format!("over {name}: record #{at} read back {:?}, written {:?} ({} vs {} records)", v.get(at), records.get(at), v.len(), records.len()));
                    break;
                }
            }
        }
    }
    o.count("fastq_records_read_back", evals);

    // FASTQ index geometry vs naive parse. CRLF variant = the same file with every LF turned into CRLF
    // by the harness (noodles writes LF only); `no_final_newline` drops the last terminator.
    if c.crlf {
        let mut v = Vec::with_capacity(bytes.len() + bytes.len() / 20);
        for &b in &bytes {
            if b == b'\n' {
                v.push(b'\r');
            }
            v.push(b);
        }
        bytes = v;
    }
    if c.no_final_newline {
        while bytes.last() == Some(&b'\n') || bytes.last() == Some(&b'\r') {
            bytes.pop();
        }
    }
    let naive = match model::naive_parse_fastq(&bytes) {
        Ok(n) => n,
        Err(e) => {
            // an empty last quality line without terminator is not a line any more
            o.count("fastq_index_naive_parse_skipped", 1);
            let _ = e;
            o.evaluations = (evals + bgz_evals).max(1);
            o.fp = fnv1a(format!("fastq|{}|{}|skipped", c.crlf, c.no_final_newline).as_bytes());
            return;
        }
    };
    let expected: Vec<FqIx> = naive.iter().map(fq_expected).collect();
    let mut iforms: Vec<(String, Result<Vec<FqIx>, String>, bool)> = vec![("slice".into(), index_fastq(&bytes[..]), true), ("bufreader(8192)".into(), index_fastq(BufReader::with_capacity(8192, &bytes[..])), true)];
    // small windows: part of the property for the LF files noodles writes; for harness-made CRLF files a
    // CR/LF pair split over two fills is C12's subject and only observed here
    let strict_small = !c.crlf;
    iforms.push((format!("bufreader({cap})"), index_fastq(BufReader::with_capacity(cap, &bytes[..])), strict_small));
    iforms.push(("chunked(cuts at terminators)".into(), index_fastq(ChunkedRead::from_slice(&bytes, Sizes::Cuts(index::terminator_cuts(&bytes)))), strict_small));
    if c.fs {
        let p = ctx.work.join(format!("c{idx}.fq"));
        index::write_file(&p, &bytes);
        let p2 = p.clone();
        let r = match guard::catch(move || fastq::fs::index(&p2)) {
            Err(p) => Err(format!("panic:{}", p.sig)),
            Ok(Err(e)) => Err(format!("error:{e}")),
            Ok(Ok(ix)) => Ok(ix.iter().map(|r| (r.name().to_string(), r.length(), r.sequence_offset(), r.line_bases(), r.line_width(), r.quality_scores_offset())).collect()),
        };
        iforms.push(("fastq::fs::index".into(), r, true));
        let _ = std::fs::remove_file(&p);
    }
    for (name, got, strict) in &iforms {
        let bad: Option<(String, String)> = match got {
            Err(e) => {
                let (k, rest) = e.split_once(':').unwrap();
                Some((if k == "panic" { format!("fastq-index:panic:{rest}") } else { "fastq-index:error".to_string() }, format!("FASTQ indexer over {name}: {e}")))
            }
            Ok(v) => {
                evals += v.len() as u64;
                o.count("fastq_index_records_compared", v.len() as u64);
                if *v != expected {
                    let at = v.iter().zip(&expected).position(|(a, b)| a != b).unwrap_or(v.len().min(expected.len()));
                    let field = match (v.get(at), expected.get(at)) {
                        (Some(a), Some(b)) if a.0 != b.0 => "name",
                        (Some(a), Some(b)) if a.1 != b.1 => "length",
                        (Some(a), Some(b)) if a.2 != b.2 => "sequence_offset",
                        (Some(a), Some(b)) if a.3 != b.3 => "line_bases",
                        (Some(a), Some(b)) if a.4 != b.4 => "line_width",
                        (Some(_), Some(_)) => "quality_scores_offset",
                        _ => "record-count",
                    };
                    Some((format!("fastq-index:field-ne-naive:{field}"), format!("FASTQ indexer over {name} ({}): record #{at} is {:?}, naive geometry {:?}", if c.crlf { "CRLF" } else { "LF" }, v.get(at), expected.get(at))))
                } else {
                    None
                }
            }
        };
        if let Some((sig, desc)) = bad {
            if *strict {
                o.violation(sig, desc);
                break;
            } else {
                o.count(&format!("observed_not_judged[{sig} on a CRLF FASTQ read through small windows]"), 1);
            }
        }
    }
    o.evaluations = (evals + bgz_evals).max(1);
    o.fp = fnv1a(format!("fastq|{}|{}|{}|{}", c.crlf, c.no_final_newline, sep, c.fs).as_bytes());
}
