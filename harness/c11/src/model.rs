//! FASTA/FASTQ file models of the C11 monitor: explicit line layouts (so that ragged files can be
//! expressed), the byte rendering, and the naive whole-file parsers that serve as the oracle.

use vcore::Rng;

#[derive(Clone, Copy, Debug, PartialEq, Eq)]
pub enum Term {
    Lf,
    CrLf,
    /// no terminator (only legal for the very last line of a file)
    None,
}

impl Term {
    pub fn bytes(self) -> &'static [u8] {
        match self {
            Term::Lf => b"\n",
            Term::CrLf => b"\r\n",
            Term::None => b"",
        }
    }
}

#[derive(Clone, Debug)]
pub struct RecLayout {
    pub name: String,
    pub desc: Option<String>,
    pub def_sep: u8,
    pub def_term: Term,
    /// (number of bases, terminator); 0 bases = blank line
    pub lines: Vec<(usize, Term)>,
}

/// Sequence lines of a regular record: `len` bases, `width` bases per line.
pub fn regular_lines(len: usize, width: usize, term: Term) -> Vec<(usize, Term)> {
    let mut v = Vec::new();
    let mut left = len;
    while left > 0 {
        let n = left.min(width);
        v.push((n, term));
        left -= n;
    }
    v
}

const BASES: &[u8] = b"ACGTACGTACGTACGTNacgtnRYKMSWBDHV";

pub struct Rendered {
    pub bytes: Vec<u8>,
    /// the generator's own description: (name, sequence)
    pub seqs: Vec<(Vec<u8>, Vec<u8>)>,
}

pub fn render(recs: &[RecLayout], rng: &mut Rng) -> Rendered {
    let mut bytes = Vec::new();
    let mut seqs = Vec::new();
    for r in recs {
        bytes.push(b'>');
        bytes.extend_from_slice(r.name.as_bytes());
        if let Some(d) = &r.desc {
            bytes.push(r.def_sep);
            bytes.extend_from_slice(d.as_bytes());
        }
        bytes.extend_from_slice(r.def_term.bytes());
        let mut seq = Vec::new();
        for &(n, t) in &r.lines {
            for _ in 0..n {
                let b = BASES[rng.usize_below(BASES.len())];
                seq.push(b);
                bytes.push(b);
            }
            bytes.extend_from_slice(t.bytes());
        }
        seqs.push((r.name.as_bytes().to_vec(), seq));
    }
    Rendered { bytes, seqs }
}

pub fn gen_name(rng: &mut Rng, i: usize) -> String {
    const ALPHA: &[u8] = b"abcXYZ019_.:-|*#@+=/\\ACGT>";
    let mut s = format!("s{i}x"); // the letter keeps names unique whatever suffix follows
    for _ in 0..rng.usize_below(6) {
        s.push(ALPHA[rng.usize_below(ALPHA.len())] as char);
    }
    if rng.chance(1, 8) {
        s.push_str("é測");
    }
    s
}

pub fn gen_desc(rng: &mut Rng) -> Option<String> {
    if rng.chance(1, 2) {
        return None;
    }
    // looks like sequence on purpose; inner blanks, '>' and tabs allowed, no leading/trailing blank
    const WORDS: &[&str] = &["ACGTACGT", "len=12", ">x", "NNNN", "a b", "GATTACA", "x\ty", "é", "@+", "ACGT"];
    let n = 1 + rng.usize_below(4);
    let mut s = String::new();
    for k in 0..n {
        if k > 0 {
            s.push(if rng.chance(1, 5) { '\t' } else { ' ' });
        }
        s.push_str(WORDS[rng.usize_below(WORDS.len())]);
    }
    Some(s)
}

// -------------------------------------------------------------------------------------------
// naive FASTA parser (the oracle)

#[derive(Clone, Debug)]
pub struct NaiveRec {
    pub name: Vec<u8>,
    #[allow(dead_code)]
    pub desc: Vec<u8>,
    pub seq: Vec<u8>,
    /// offset of the byte that follows the definition line
    pub offset: u64,
    /// (bases, width incl. terminator) of every line after the definition line, blank ones included
    pub lines: Vec<(u64, u64)>,
}

impl NaiveRec {
    pub fn line_bases(&self) -> u64 {
        self.lines.first().map(|l| l.0).unwrap_or(0)
    }
    pub fn line_width(&self) -> u64 {
        self.lines.first().map(|l| l.1).unwrap_or(0)
    }
    pub fn has_blank(&self) -> bool {
        self.lines.iter().any(|l| l.0 == 0)
    }
    /// Geometry is well defined (faidx semantics, no blank lines): all lines but the last have the
    /// geometry of the first, the last has at most as many bases (its terminator is free).
    pub fn regular(&self) -> bool {
        if self.lines.is_empty() || self.has_blank() {
            return false;
        }
        let first = self.lines[0];
        let n = self.lines.len();
        self.lines[..n - 1].iter().all(|l| *l == first) && self.lines[n - 1].0 <= first.0
    }
    /// Regular, and the last line's terminator is not longer than the others' (an LF file whose
    /// last line ends in CRLF may be refused: the statement names short last lines only).
    pub fn strictly_regular(&self) -> bool {
        if !self.regular() {
            return false;
        }
        let first = self.lines[0];
        let last = self.lines[self.lines.len() - 1];
        last.1 - last.0 <= first.1 - first.0
    }
    /// regular once *trailing* blank lines are ignored
    pub fn regular_with_trailing_blanks(&self) -> bool {
        let mut l = self.lines.clone();
        while l.last().map(|x| x.0 == 0).unwrap_or(false) {
            l.pop();
        }
        let r = NaiveRec { lines: l, ..self.clone() };
        r.regular()
    }
}

pub fn naive_parse_fasta(bytes: &[u8]) -> Result<Vec<NaiveRec>, String> {
    let mut recs: Vec<NaiveRec> = Vec::new();
    let mut p = 0usize;
    while p < bytes.len() {
        let end = bytes[p..].iter().position(|&b| b == b'\n').map(|i| p + i + 1).unwrap_or(bytes.len());
        let raw = &bytes[p..end];
        let mut content = raw;
        if content.ends_with(b"\n") {
            content = &content[..content.len() - 1];
        }
        if content.ends_with(b"\r") {
            content = &content[..content.len() - 1];
        }
        if content.first() == Some(&b'>') {
            let body = &content[1..];
            let i = body.iter().position(|b| b.is_ascii_whitespace()).unwrap_or(body.len());
            let desc = body[i..].trim_ascii().to_vec();
            recs.push(NaiveRec { name: body[..i].to_vec(), desc, seq: Vec::new(), offset: end as u64, lines: Vec::new() });
        } else {
            let r = recs.last_mut().ok_or_else(|| "sequence line before the first definition".to_string())?;
            r.seq.extend_from_slice(content);
            r.lines.push((content.len() as u64, raw.len() as u64));
        }
        p = end;
    }
    Ok(recs)
}

// -------------------------------------------------------------------------------------------
// naive FASTQ parser (4 lines per record)

#[derive(Clone, Debug, PartialEq, Eq)]
pub struct NaiveFq {
    pub name: Vec<u8>,
    pub desc: Vec<u8>,
    pub seq: Vec<u8>,
    pub qual: Vec<u8>,
    pub seq_offset: u64,
    pub line_bases: u64,
    pub line_width: u64,
    pub qual_offset: u64,
}

fn strip_term(raw: &[u8]) -> &[u8] {
    let mut c = raw;
    if c.ends_with(b"\n") {
        c = &c[..c.len() - 1];
    }
    if c.ends_with(b"\r") {
        c = &c[..c.len() - 1];
    }
    c
}

pub fn naive_parse_fastq(bytes: &[u8]) -> Result<Vec<NaiveFq>, String> {
    let mut lines: Vec<(usize, &[u8])> = Vec::new();
    let mut p = 0usize;
    while p < bytes.len() {
        let end = bytes[p..].iter().position(|&b| b == b'\n').map(|i| p + i + 1).unwrap_or(bytes.len());
        lines.push((p, &bytes[p..end]));
        p = end;
    }
    if lines.len() % 4 != 0 {
        return Err(format!("{} lines is not a multiple of 4", lines.len()));
    }
    let mut out = Vec::new();
    for g in lines.chunks(4) {
        let def = strip_term(g[0].1);
        if def.first() != Some(&b'@') {
            return Err("definition line does not start with '@'".into());
        }
        let body = &def[1..];
        let i = body.iter().position(|&b| b == b' ' || b == b'\t').unwrap_or(body.len());
        let desc = if i < body.len() { body[i + 1..].to_vec() } else { Vec::new() };
        if strip_term(g[2].1).first() != Some(&b'+') {
            return Err("third line does not start with '+'".into());
        }
        let seq = strip_term(g[1].1);
        out.push(NaiveFq {
            name: body[..i].to_vec(),
            desc,
            seq: seq.to_vec(),
            qual: strip_term(g[3].1).to_vec(),
            seq_offset: g[1].0 as u64,
            line_bases: seq.len() as u64,
            line_width: g[1].1.len() as u64,
            qual_offset: g[3].0 as u64,
        });
    }
    Ok(out)
}

/// gzi file content for a BGZF file, from the independent walker: one `(compressed offset,
/// uncompressed offset)` entry for every member after the first (noodles' and htslib's
/// convention: the implicit first entry (0, 0) is not stored).
pub fn gzi_entries(walk: &vcore::bgzf::Walk, include_eof_member: bool) -> Vec<(u64, u64)> {
    let mut v = Vec::new();
    for (i, m) in walk.members.iter().enumerate().skip(1) {
        if m.is_eof_marker && i + 1 == walk.members.len() && !include_eof_member {
            continue;
        }
        v.push((m.offset, walk.starts[i]));
    }
    v
}

pub fn gzi_file_bytes(entries: &[(u64, u64)]) -> Vec<u8> {
    let mut v = Vec::with_capacity(8 + entries.len() * 16);
    v.extend_from_slice(&(entries.len() as u64).to_le_bytes());
    for (c, u) in entries {
        v.extend_from_slice(&c.to_le_bytes());
        v.extend_from_slice(&u.to_le_bytes());
    }
    v
}
