//! C19 — CRAM indexing and region queries return exactly the scan-filtered records.
//!
//! Monitor: coordinate-sorted CRAM-mode streams (gencram, 1–4 references, unmapped tail) are written
//! with the real writer to a scratch file with H3 (records per slice 3–50, ONE slice per container:
//! the only layout the production writer emits). `cram::fs::index(path)` must succeed; its entries'
//! (reference, start, span) are compared with the per-reference spans computed from the generator's
//! descriptions (here) and its (container offset, landmark, slice length) with the geometry the
//! independent container walker derives (`post` hook in py/props/c19.py, on the dumped files);
//! region queries through `IndexedReader::query` (index in memory) and `Reader::query` (index after
//! `crai::fs::write` + `crai::fs::read`) must return exactly the scan filter computed from the
//! descriptions: same reference AND span intersects the region, each record once, in file order.

use std::collections::{BTreeMap, BTreeSet};

use gencram::{GenOpts, ReadDesc, Stream, rawwalk};
use noodles_core::{Position, Region};
use noodles_cram::{self as cram, crai};
use noodles_sam::{self as sam, alignment::RecordBuf, alignment::io::Write as _};
use serde_json::{Value as Json, json};
use vcore::{CaseOut, Ctx, Report, Rng, guard, rng::fnv1a, run_cases};

#[derive(Clone, Debug)]
struct Case {
    class: String,
    gseed: u64,
    opts: GenOpts,
    rps: usize,
    deltas: bool,
    emap_none: bool,
    regions: usize,
}

fn case_json(c: &Case) -> Json {
    json!({"class": c.class, "gseed": c.gseed.to_string(), "records_per_slice": c.rps, "position_deltas": c.deltas,
           "uncompressed_blocks": c.emap_none, "regions": c.regions, "opts": format!("{:?}", c.opts)})
}

fn rd(name: &str, flags: u16, ref_id: Option<usize>, pos: Option<usize>, cigar: &[(char, usize)], bases: &[u8]) -> ReadDesc {
    ReadDesc {
        name: Some(name.as_bytes().to_vec()),
        flags,
        ref_id,
        pos,
        mapq: if flags & gencram::F_UNMAPPED != 0 { None } else { Some(30) },
        cigar: cigar.to_vec(),
        bases: bases.to_vec(),
        quals: vec![30; bases.len()],
        mate_ref: None,
        mate_pos: None,
        tlen: 0,
        tags: Vec::new(),
        edits: Vec::new(),
        features: Default::default(),
        template: 0,
        mate: None,
    }
}

const DET: &[&str] = &["det:two-references-in-one-slice", "det:overlapping-coordinates-on-two-references", "det:mapped-then-unplaced-in-one-slice", "det:single-reference-two-containers"];

fn det_stream(name: &str) -> (Stream, usize) {
    let refs = vec![
        gencram::RefSeq { name: "sq0".into(), seq: b"ACGTACGTTTGACCAGTNNACGGATCAGCTAGCATCGACTAGCATCGGGATATCCGAT".to_vec(), with_m5: false },
        gencram::RefSeq { name: "sq1".into(), seq: b"TTGACGATCGGCTATATAGCGCGATCGATCGGGCATACGACTAGCAAAACGT".to_vec(), with_m5: true },
    ];
    let (mut reads, rps) = match name {
        // the probe of DESIGN.md section 1: 2+2 records on two references inside one slice
        "det:two-references-in-one-slice" => (
            vec![
                rd("a0", 0, Some(0), Some(1), &[('M', 8)], b"ACGTACGT"),
                rd("a1", 0, Some(0), Some(5), &[('M', 8)], b"ACGTTTGA"),
                rd("b0", 0, Some(1), Some(3), &[('M', 8)], b"GACGATCG"),
                rd("b1", 0, Some(1), Some(30), &[('M', 8)], b"GGGCATAC"),
            ],
            10,
        ),
        "det:overlapping-coordinates-on-two-references" => (
            vec![
                rd("a0", 0, Some(0), Some(3), &[('M', 8)], b"GTACGTTT"),
                rd("b0", 0, Some(1), Some(3), &[('M', 8)], b"GACGATCG"),
                rd("b1", 0, Some(1), Some(4), &[('M', 8)], b"ACGATCGG"),
            ],
            3,
        ),
        "det:mapped-then-unplaced-in-one-slice" => (
            vec![
                rd("a0", 0, Some(0), Some(1), &[('M', 8)], b"ACGTACGT"),
                rd("a1", 0, Some(0), Some(5), &[('M', 8)], b"ACGTTTGA"),
                rd("u0", gencram::F_UNMAPPED, None, None, &[], b"GGGGTTTT"),
            ],
            5,
        ),
        "det:single-reference-two-containers" => (
            vec![
                rd("a0", 0, Some(0), Some(1), &[('M', 8)], b"ACGTACGT"),
                rd("a1", 0, Some(0), Some(5), &[('M', 4), ('D', 3), ('M', 4)], b"ACGTGACC"),
                rd("a2", 0, Some(0), Some(9), &[('M', 8)], b"TTGACCAG"),
                rd("a3", 0, Some(0), Some(21), &[('M', 8)], b"CGGATCAG"),
            ],
            2,
        ),
        _ => panic!("unknown deterministic case {name}"),
    };
    for (i, r) in reads.iter_mut().enumerate() {
        r.template = i;
    }
    (Stream { refs, read_groups: vec![], reads }, rps)
}

fn gen_cases(ctx: &Ctx) -> Vec<Case> {
    let mut cases = Vec::new();
    for name in DET {
        cases.push(Case { class: name.to_string(), gseed: 0, opts: GenOpts::default(), rps: 0, deltas: true, emap_none: false, regions: 40 });
    }
    let n = ctx.budget("cases", 600, 6000);
    let regions = ctx.budget("regions", 40, 40) as usize;
    let mut rng = Rng::new(ctx.seed, 0xC19, 0);
    for _ in 0..n {
        let mut o = GenOpts::default();
        o.sorted = true;
        o.n_refs = rng.urange(1, 4);
        o.ref_len = (rng.urange(30, 100), rng.urange(100, 900));
        o.n_templates = 2 + rng.skewed(160) as usize;
        o.iupac_ref = rng.chance(1, 5);
        o.single_ref_reads = rng.chance(2, 5);
        o.pm_pair = *rng.pick(&[0, 200, 500]);
        o.pm_unmapped_single = *rng.pick(&[0, 0, 50, 150, 300]);
        o.max_read_len = *rng.pick(&[8, 30, 80]);
        o.max_skip = *rng.pick(&[10, 120, 400]);
        o.pm_tags = 300;
        cases.push(Case {
            class: "rand".into(),
            gseed: rng.next_u64(),
            opts: o,
            rps: rng.urange(3, 50),
            deltas: rng.bool(),
            emap_none: rng.chance(1, 4),
            regions,
        });
    }
    cases
}

fn build_stream(c: &Case) -> (Stream, usize) {
    if c.class.starts_with("det:") {
        det_stream(&c.class)
    } else {
        let mut rng = Rng::new(c.gseed, 0x5EED, 0);
        (gencram::gen_stream(&mut rng, &c.opts), c.rps)
    }
}

/// What the index must say about one slice, from the descriptions: one entry per reference
/// (`None` = unplaced records), with the inclusive span of the records on it. `exact` is false
/// when placed unmapped records take part (the statement does not define their span).
#[derive(Clone, Debug, PartialEq, Eq)]
struct RefSpan {
    ref_id: Option<usize>,
    start: usize,
    end: usize,
    exact: bool,
}

fn expected_entries(slice: &[ReadDesc]) -> (Vec<RefSpan>, &'static str) {
    let mut m: BTreeMap<Option<usize>, RefSpan> = BTreeMap::new();
    for r in slice {
        let placed = r.ref_id.is_some() && r.pos.is_some();
        let key = if placed { r.ref_id } else { None };
        let (s, e, exact) = match (placed, r.span()) {
            (true, Some((s, e))) => (s, e, true),
            (true, None) => (r.pos.unwrap(), r.pos.unwrap(), false),
            _ => (0, 0, true),
        };
        let ent = m.entry(key).or_insert(RefSpan { ref_id: key, start: usize::MAX, end: 0, exact: true });
        if key.is_some() {
            ent.start = ent.start.min(s);
            ent.end = ent.end.max(e);
            ent.exact &= exact;
        } else {
            ent.start = 0;
        }
    }
    let kind = match gencram::slice_context(slice) {
        gencram::SliceCtx::Single { .. } => "single-reference-slice",
        gencram::SliceCtx::Unmapped => "unmapped-slice",
        gencram::SliceCtx::Multi => "multi-reference-slice",
    };
    (m.into_values().collect(), kind)
}

fn key_of_desc(r: &ReadDesc) -> (Vec<u8>, u16) {
    (r.name.clone().unwrap_or_default(), r.flags & 0xC0)
}

fn key_of_buf(r: &RecordBuf) -> (Vec<u8>, u16) {
    (r.name().map(|n| n.to_vec()).unwrap_or_default(), u16::from(r.flags()) & 0xC0)
}

#[derive(Clone, Debug)]
struct Reg {
    ref_id: usize,
    /// inclusive 1-based bounds; None = unbounded
    start: Option<usize>,
    end: Option<usize>,
    kind: &'static str,
}

impl Reg {
    fn to_region(&self, s: &Stream) -> Region {
        let name = s.refs[self.ref_id].name.as_bytes().to_vec();
        let p = |x: usize| Position::new(x).expect("position > 0");
        match (self.start, self.end) {
            (None, None) => Region::new(name, ..),
            (Some(a), None) => Region::new(name, p(a)..),
            (None, Some(b)) => Region::new(name, ..=p(b)),
            (Some(a), Some(b)) => Region::new(name, p(a)..=p(b)),
        }
    }
    fn render(&self, s: &Stream) -> String {
        format!("{}:{}-{} ({})", s.refs[self.ref_id].name, self.start.map(|x| x.to_string()).unwrap_or_default(), self.end.map(|x| x.to_string()).unwrap_or_default(), self.kind)
    }
}

fn gen_regions(rng: &mut Rng, s: &Stream, n: usize) -> Vec<Reg> {
    let mut out = Vec::new();
    let mapped: Vec<&ReadDesc> = s.reads.iter().filter(|r| r.span().is_some()).collect();
    // whole references (by name only), incl. references without records
    for i in 0..s.refs.len() {
        out.push(Reg { ref_id: i, start: None, end: None, kind: "whole-reference" });
    }
    while out.len() < n {
        let k = rng.below(12);
        if mapped.is_empty() || k == 11 {
            let rid = rng.usize_below(s.refs.len());
            let len = s.refs[rid].seq.len();
            let a = rng.urange(1, len);
            let b = rng.urange(a, len);
            out.push(Reg { ref_id: rid, start: Some(a), end: Some(b), kind: "random-window" });
            continue;
        }
        let r = *rng.pick(&mapped);
        let (a, b) = r.span().unwrap();
        let rid = r.ref_id.unwrap();
        let len = s.refs[rid].seq.len();
        let reg = match k {
            0 => Reg { ref_id: rid, start: Some(a), end: Some(b), kind: "own-span" },
            1 if a > 1 => Reg { ref_id: rid, start: Some(a - 1), end: Some(a - 1), kind: "point-before-start" },
            2 => Reg { ref_id: rid, start: Some(b + 1), end: Some(b + 1), kind: "point-after-end" },
            3 => Reg { ref_id: rid, start: Some(a), end: Some(a), kind: "point-at-start" },
            4 => Reg { ref_id: rid, start: Some(b), end: Some(b), kind: "point-at-end" },
            5 => Reg { ref_id: rid, start: None, end: Some(a), kind: "unbounded-start" },
            6 => Reg { ref_id: rid, start: Some(b), end: None, kind: "unbounded-end" },
            7 if a > 1 => Reg { ref_id: rid, start: None, end: Some(a - 1), kind: "unbounded-start-before" },
            8 => Reg { ref_id: rid, start: Some(b + 1), end: None, kind: "unbounded-end-after" },
            9 => {
                // the same coordinates on another reference
                let other = (rid + 1) % s.refs.len();
                Reg { ref_id: other, start: Some(a), end: Some(b), kind: "own-span-on-other-reference" }
            }
            10 => Reg { ref_id: rid, start: Some(len + 1), end: Some(len + 50), kind: "beyond-reference-end" },
            _ => Reg { ref_id: rid, start: Some(a), end: Some(b.max(a + rng.skewed(60) as usize)), kind: "span-extended" },
        };
        out.push(reg);
    }
    out
}

fn scan_filter<'a>(s: &'a Stream, g: &Reg) -> Vec<&'a ReadDesc> {
    s.reads
        .iter()
        .filter(|r| {
            let Some((a, b)) = r.span() else { return false };
            r.ref_id == Some(g.ref_id) && g.start.map(|x| b >= x).unwrap_or(true) && g.end.map(|y| a <= y).unwrap_or(true)
        })
        .collect()
}

fn classify_error(m: &str) -> String {
    let mut s = guard::normalise_message(m);
    if s.len() > 90 {
        s.truncate(90);
    }
    s
}

fn run_queries(
    c: &Case,
    s: &Stream,
    path: &std::path::Path,
    index: &crai::Index,
    via: &str,
    regions: &[Reg],
    o: &mut CaseOut,
    has_multi: bool,
) {
    let by_key: BTreeMap<(Vec<u8>, u16), &ReadDesc> = s.reads.iter().map(|r| (key_of_desc(r), r)).collect();
    let order: BTreeMap<(Vec<u8>, u16), usize> = s.reads.iter().enumerate().map(|(i, r)| (key_of_desc(r), i)).collect();
    let layout = if has_multi { "file-with-multi-reference-slice" } else { "single-reference-slices-only" };
    let mut seen: BTreeSet<String> = BTreeSet::new();
    for g in regions {
        let region = g.to_region(s);
        let repo = s.repository();
        let res = guard::catch(|| -> std::io::Result<Vec<RecordBuf>> {
            if via == "indexed-reader" {
                let mut r = cram::io::indexed_reader::Builder::default()
                    .set_reference_sequence_repository(repo)
                    .set_index(index.clone())
                    .build_from_path(path)?;
                let header = r.read_header()?;
                let q = r.query(&header, &region)?;
                q.records().collect()
            } else {
                let mut r = cram::io::reader::Builder::default().set_reference_sequence_repository(repo).build_from_path(path)?;
                let header = r.read_header()?;
                let q = r.query(&header, index, &region)?;
                q.records().collect()
            }
        });
        o.count("queries", 1);
        o.count(&format!("queries[{}]", g.kind), 1);
        let mut push = |o: &mut CaseOut, sig: String, desc: String| {
            if seen.insert(sig.clone()) {
                o.violation(sig, desc);
            }
        };
        let got = match res {
            Err(p) => {
                push(o, format!("query:panic:{layout}:{}", p.sig), format!("query {} via {via} panicked: {}", g.render(s), p.message));
                continue;
            }
            Ok(Err(e)) => {
                push(o, format!("query:error:{layout}:{}", classify_error(&e.to_string())), format!("query {} via {via} failed: {e}", g.render(s)));
                continue;
            }
            Ok(Ok(v)) => v,
        };
        let want = scan_filter(s, g);
        if !want.is_empty() {
            o.count("queries_with_nonempty_answer", 1);
        }
        // placed unmapped records have no alignment: whether a region "intersects" them is not
        // defined by the statement; they are tolerated either way
        let got_keys: Vec<(Vec<u8>, u16)> = got
            .iter()
            .map(key_of_buf)
            .filter(|k| {
                let placed_unmapped = by_key.get(k).map(|r| r.is_unmapped() && r.pos.is_some()).unwrap_or(false);
                if placed_unmapped {
                    o.count("placed_unmapped_records_returned_by_queries (tolerated)", 1);
                }
                !placed_unmapped
            })
            .collect();
        let want_keys: Vec<(Vec<u8>, u16)> = want.iter().map(|r| key_of_desc(r)).collect();
        o.count("records_returned", got_keys.len() as u64);
        if got_keys == want_keys {
            continue;
        }
        let gs: BTreeSet<_> = got_keys.iter().cloned().collect();
        let ws: BTreeSet<_> = want_keys.iter().cloned().collect();
        let name = |k: &(Vec<u8>, u16)| String::from_utf8_lossy(&k.0).to_string();
        let ctx_desc = format!("query {} via {via} (index from {}): expected {:?}, got {:?}", g.render(s), c.class, want_keys.iter().map(name).collect::<Vec<_>>(), got_keys.iter().map(name).collect::<Vec<_>>());
        let mut explained = false;
        for k in gs.difference(&ws) {
            explained = true;
            match by_key.get(k) {
                None => push(o, "query:returns-unknown-record".into(), format!("record {:?} was never written; {ctx_desc}", name(k))),
                Some(r) if r.ref_id != Some(g.ref_id) => push(
                    o,
                    format!("query:returns-record-of-other-reference:{layout}"),
                    format!("record {:?} lies on {} ; {ctx_desc}; written: {}", name(k), r.ref_id.map(|i| s.refs[i].name.clone()).unwrap_or("*".into()), r.sam_line(&s.refs)),
                ),
                Some(r) => push(
                    o,
                    format!("query:returns-non-intersecting-record:{}", g.kind),
                    format!("record {:?} spans {:?}; {ctx_desc}; written: {}", name(k), r.span(), r.sam_line(&s.refs)),
                ),
            }
        }
        for k in ws.difference(&gs) {
            explained = true;
            let r = by_key[k];
            push(o, format!("query:misses-record:{layout}:{}", g.kind), format!("record {:?} spans {:?}; {ctx_desc}; written: {}", name(k), r.span(), r.sam_line(&s.refs)));
        }
        if got_keys.len() != gs.len() {
            explained = true;
            push(o, format!("query:duplicate-record:{layout}"), ctx_desc.clone());
        }
        if !explained {
            let idx: Vec<usize> = got_keys.iter().map(|k| order[k]).collect();
            if idx.windows(2).any(|w| w[0] > w[1]) {
                push(o, format!("query:not-in-file-order:{layout}"), ctx_desc.clone());
            } else {
                push(o, "query:differs".into(), ctx_desc.clone());
            }
        }
    }
}

fn run_case(ctx: &Ctx, idx: u64, c: &Case) -> CaseOut {
    let mut o = CaseOut::new();
    let (s, rps) = build_stream(c);
    let header: sam::Header = s.header();
    let records = s.record_bufs();
    let dump = ctx.work.join("dump");
    let _ = std::fs::create_dir_all(&dump);
    let path = dump.join(format!("{idx}.cram"));
    let repo = s.repository();
    let w = guard::catch(|| -> std::io::Result<()> {
        let mut b = cram::io::writer::Builder::default()
            .set_reference_sequence_repository(repo)
            .encode_alignment_start_positions_as_deltas(c.deltas)
            .verif_set_layout(rps, 1);
        if c.emap_none {
            let mut m = cram::container::BlockContentEncoderMap::builder().set_core_data_encoder(None).set_default_encoder(None);
            for ds in ALL_SERIES {
                m = m.set_data_series_encoder(ds, None);
            }
            b = b.set_block_content_encoder_map(m.build());
        }
        let mut w = b.build_from_path(&path)?;
        w.write_header(&header)?;
        for r in &records {
            w.write_alignment_record(&header, r)?;
        }
        w.try_finish(&header)?;
        Ok(())
    });
    match w {
        Err(p) => {
            o.count(&format!("writer_panics[{}]", p.sig), 1);
            let _ = std::fs::remove_file(&path);
            return o;
        }
        Ok(Err(e)) => {
            o.count(&format!("writer_rejected[{}]", classify_error(&e.to_string())), 1);
            let _ = std::fs::remove_file(&path);
            return o;
        }
        Ok(Ok(())) => {}
    }
    o.count("files_written", 1);
    o.count("records_written", s.reads.len() as u64);

    // expectations from the descriptions
    let slices: Vec<&[ReadDesc]> = s.reads.chunks(rps).collect();
    let exp: Vec<(Vec<RefSpan>, &str)> = slices.iter().map(|sl| expected_entries(sl)).collect();
    let has_multi = exp.iter().any(|e| e.1 == "multi-reference-slice");
    let mut kinds_mask = 0u32;
    for e in &exp {
        o.count(&format!("slices[{}]", e.1), 1);
        kinds_mask |= match e.1 {
            "single-reference-slice" => 1,
            "unmapped-slice" => 2,
            _ => 4,
        };
    }
    if slices.len() > 1 {
        o.count("files_with_several_containers", 1);
    }
    if has_multi {
        o.count("files_with_multi_reference_slice", 1);
    }
    if s.reads.iter().any(|r| r.ref_id.is_none()) {
        o.count("files_with_unplaced_tail", 1);
    }

    // sidecar for the walker (same format as C07) + expected index entries per slice
    let side = json!({
        "records": s.reads.len(),
        "refs": s.refs.iter().map(|r| json!({"name": r.name, "seq": String::from_utf8_lossy(&r.seq)})).collect::<Vec<_>>(),
        "expected_index": exp.iter().map(|(v, kind)| json!({"kind": kind, "entries": v.iter().map(|e| json!({
            "ref": e.ref_id.map(|x| x as i64).unwrap_or(-1), "start": e.start, "span": if e.ref_id.is_some() { e.end - e.start + 1 } else { 0 }, "exact": e.exact})).collect::<Vec<_>>()})).collect::<Vec<_>>(),
        "case": case_json(c),
    });
    std::fs::write(dump.join(format!("{idx}.json")), serde_json::to_vec(&side).unwrap()).expect("sidecar");

    // index
    let layout = if has_multi { "file-with-multi-reference-slice" } else { "single-reference-slices-only" };
    let built = guard::catch(|| cram::fs::index(&path));
    let (index, source): (crai::Index, &str) = match built {
        Ok(Ok(ix)) => {
            o.count("indexes_built", 1);
            (ix, "noodles")
        }
        other => {
            match other {
                Err(p) => o.violation(format!("index:panic:{layout}:{}", p.sig), format!("cram::fs::index panicked on a sorted noodles-written file ({} records, {} slices of <= {rps} records): {}", s.reads.len(), slices.len(), p.message)),
                Ok(Err(e)) => o.violation(format!("index:error:{layout}:{}", classify_error(&e.to_string())), format!("cram::fs::index failed on a sorted noodles-written file: {e}")),
                _ => unreachable!(),
            }
            // Stand-in index (walker geometry + expected spans) so that the query half of the
            // property is still evaluated on this file.
            let bytes = std::fs::read(&path).expect("read back scratch file");
            let Some(geom) = rawwalk::geometry(&bytes) else {
                o.inconclusive.push("stand-in index: could not derive the geometry of the written file".into());
                return o;
            };
            if geom.len() != exp.len() || geom.iter().any(|g| g.slices.len() != 1) {
                o.inconclusive.push(format!("stand-in index: {} containers for {} expected slices", geom.len(), exp.len()));
                return o;
            }
            let mut ix = Vec::new();
            for (g, (ents, _)) in geom.iter().zip(&exp) {
                for e in ents {
                    ix.push(crai::Record::new(e.ref_id, if e.ref_id.is_some() { Position::new(e.start) } else { None }, if e.ref_id.is_some() { e.end - e.start + 1 } else { 0 }, g.offset, g.slices[0].landmark, g.slices[0].length));
                }
            }
            o.count("stand_in_indexes_used", 1);
            (ix, "stand-in")
        }
    };

    if source == "noodles" {
        // (reference, start, span) per slice against the descriptions; entries are grouped by
        // container offset (one slice per container)
        let mut groups: Vec<Vec<&crai::Record>> = Vec::new();
        for r in &index {
            match groups.last_mut() {
                Some(g) if g[0].offset() == r.offset() && g[0].landmark() == r.landmark() => g.push(r),
                _ => groups.push(vec![r]),
            }
        }
        o.count("index_entries", index.len() as u64);
        if groups.len() != exp.len() {
            o.violation(format!("index:slice-count:{layout}"), format!("the index lists {} slices, {} were written", groups.len(), exp.len()));
        } else {
            let mut seen = BTreeSet::new();
            for (k, (g, (ents, kind))) in groups.iter().zip(&exp).enumerate() {
                o.count("index_slices_compared", 1);
                let got: BTreeSet<(Option<usize>, usize, usize)> = g.iter().map(|r| (r.reference_sequence_id(), r.alignment_start().map(usize::from).unwrap_or(0), r.alignment_span())).collect();
                let want: BTreeSet<(Option<usize>, usize, usize)> = ents.iter().map(|e| (e.ref_id, e.start, if e.ref_id.is_some() { e.end - e.start + 1 } else { 0 })).collect();
                let exact = ents.iter().all(|e| e.exact);
                let ok = if exact {
                    got == want && got.len() == g.len()
                } else {
                    // placed unmapped records: the entry must at least cover the expected span
                    got.len() == want.len()
                        && got.iter().zip(&want).all(|(a, b)| a.0 == b.0 && (a.0.is_none() || (a.1 <= b.1 && a.1 + a.2 >= b.1 + b.2)))
                };
                if !ok {
                    let what = if got.len() != want.len() || g.len() != got.len() {
                        "entry-count"
                    } else if got.iter().map(|x| x.0).collect::<Vec<_>>() != want.iter().map(|x| x.0).collect::<Vec<_>>() {
                        "reference"
                    } else {
                        "span"
                    };
                    let sig = format!("index:{what}:{kind}");
                    if seen.insert(sig.clone()) {
                        o.violation(sig, format!("slice #{k}: index entries (ref, start, span) {got:?}, the records of the slice cover {want:?}"));
                    }
                }
            }
        }
        // index file round trip
        let cpath = dump.join(format!("{idx}.crai"));
        let rt = guard::catch(|| -> std::io::Result<crai::Index> {
            crai::fs::write(&cpath, &index)?;
            crai::fs::read(&cpath)
        });
        match rt {
            Err(p) => o.violation(format!("crai:panic:{}", p.sig), format!("crai write/read panicked: {}", p.message)),
            Ok(Err(e)) => o.violation(format!("crai:error:{}", classify_error(&e.to_string())), format!("crai::fs::write/read failed: {e}")),
            Ok(Ok(back)) => {
                o.count("index_files_round_tripped", 1);
                if back != index {
                    let at = back.iter().zip(&index).position(|(a, b)| a != b).unwrap_or(back.len().min(index.len()));
                    o.violation("crai:roundtrip-differs", format!("index of {} entries reads back with {} entries; first difference at entry {at}: {:?} vs {:?}", index.len(), back.len(), index.get(at), back.get(at)));
                }
            }
        }
    }

    // queries
    let mut rng = Rng::new(c.gseed ^ 0xA11CE, 0xC19, idx);
    let regions = gen_regions(&mut rng, &s, c.regions);
    let half = regions.len() / 2;
    run_queries(c, &s, &path, &index, "indexed-reader", &regions[..half], &mut o, has_multi);
    let index2 = if source == "noodles" { crai::fs::read(dump.join(format!("{idx}.crai"))).unwrap_or_else(|_| index.clone()) } else { index.clone() };
    run_queries(c, &s, &path, &index2, "reader-query-with-reread-index", &regions[half..], &mut o, has_multi);
    o.count(&format!("files_queried_through_{source}_index"), 1);

    o.evaluations = 1;
    o.fp = fnv1a(format!("{kinds_mask}|{}|{}|{}|{}|{source}", slices.len().min(6), c.deltas, s.refs.len(), s.reads.iter().any(|r| r.is_unmapped() && r.pos.is_some())).as_bytes());
    if idx % 31 == 0 {
        o.sample = Some(json!({"case": case_json(c), "slices": exp.iter().map(|e| e.1).collect::<Vec<_>>(), "first_regions": regions.iter().take(4).map(|g| g.render(&s)).collect::<Vec<_>>()}));
    }
    o
}

use noodles_cram::container::compression_header::data_series_encodings::DataSeries;
const ALL_SERIES: [DataSeries; 28] = [
    DataSeries::BamFlags,
    DataSeries::CramFlags,
    DataSeries::ReferenceSequenceIds,
    DataSeries::ReadLengths,
    DataSeries::AlignmentStarts,
    DataSeries::ReadGroupIds,
    DataSeries::Names,
    DataSeries::MateFlags,
    DataSeries::MateReferenceSequenceIds,
    DataSeries::MateAlignmentStarts,
    DataSeries::TemplateLengths,
    DataSeries::MateDistances,
    DataSeries::TagSetIds,
    DataSeries::FeatureCounts,
    DataSeries::FeatureCodes,
    DataSeries::FeaturePositionDeltas,
    DataSeries::DeletionLengths,
    DataSeries::StretchesOfBases,
    DataSeries::StretchesOfQualityScores,
    DataSeries::BaseSubstitutionCodes,
    DataSeries::InsertionBases,
    DataSeries::ReferenceSkipLengths,
    DataSeries::PaddingLengths,
    DataSeries::HardClipLengths,
    DataSeries::SoftClipBases,
    DataSeries::MappingQualities,
    DataSeries::Bases,
    DataSeries::QualityScores,
];

fn main() {
    let ctx = Ctx::from_args();
    let ctx = vcore::cases::replay_request(&ctx).map(|r| r.1).unwrap_or(ctx);
    let mut rep = Report::new(
        "case = one coordinate-sorted generated stream (gencram, 1-4 references, unplaced tail) written with H3 \
         (3-50 records per slice, one slice per container) to a scratch file, indexed with cram::fs::index, queried with \
         ~40 regions (whole reference, own span, points at/around span ends, unbounded bounds, same coordinates on another \
         reference, windows hitting nothing) through IndexedReader::query (index in memory) and Reader::query (index \
         after crai::fs::write/read); deterministic witnesses + a VERIF_SEED-seeded random part; distinct = distinct \
         (slice-kind bitmask [single / unmapped / multi-reference], container count capped at 6, position deltas, number \
         of references, placed unmapped reads present, index source); non-trivial = the file was written and queried",
    );
    for a in [
        "query answers are identified by (read name, first/last segment bits); names are unique per template by construction",
        "expected answer = records whose reference equals the region's and whose span POS..POS+sum(M/D/N/=/X)-1 (computed by the harness) intersects the region, in file order",
        "placed unmapped records have no alignment: whether a query returns them is not judged; index spans of slices that contain them are only required to cover the mapped records",
        "when cram::fs::index fails (violation) the queries of that file run through a stand-in index built from the independent geometry and the expected spans, so the query half of the property is still evaluated",
        "CRAI byte geometry (container offset, landmark, slice length) is judged by py/cram_walk.py in the post hook; the order of the entries of one multi-reference slice is not judged",
        "only the layout the production writer emits (one slice per container) is generated",
    ] {
        rep.assumptions.push(a.into());
    }
    let cases = gen_cases(&ctx);
    let f = |i: u64| -> CaseOut { run_case(&ctx, i, &cases[i as usize]) };
    run_cases(&ctx, &mut rep, cases.len() as u64, 120.0, &f, &|i| case_json(&cases[i as usize]));
    if ctx.replay.is_none() {
        let counters = rep.counters.clone();
        let g = |k: &str| counters.get(k).copied().unwrap_or(0);
        rep.floor("files_written", g("files_written"), cases.len() as u64 * 8 / 10);
        rep.floor("queries", g("queries"), 2000);
        rep.floor("queries_with_nonempty_answer", g("queries_with_nonempty_answer"), 500);
        rep.floor("files_with_multi_reference_slice", g("files_with_multi_reference_slice"), 10);
        rep.floor("files_with_several_containers", g("files_with_several_containers"), 30);
        rep.floor("files_with_unplaced_tail", g("files_with_unplaced_tail"), 10);
    }
    rep.finish(&ctx);
}
