//! C19 — stub (to be implemented).

fn main() {
    eprintln!("c19: not implemented");
    std::process::exit(2);
}
