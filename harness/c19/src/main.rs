//! C19 — CRAM indexing and region queries return exactly the scan-filtered records.
//!
//! Monitor: coordinate-sorted CRAM-mode streams (gencram, 1–4 references, unmapped tail) are written
//! with the real writer to a scratch file with H3 (records per slice 3–50, ONE slice per container:
//! the only layout the production writer emits). `cram::fs::index(path)` must succeed; its entries'
//! (reference, start, span) are compared with the per-reference spans computed from the generator's
//! descriptions (here) and its (container offset, landmark, slice length) with the geometry the
//! independent container walker derives (`post` hook in py/props/c19.py, on the dumped files);
//! region queries through `IndexedReader::query` (index in memory) and `Reader::query` (index after
//! `crai::fs::write` + `crai::fs::read`) must return exactly the scan filter computed from the
//! descriptions: same reference AND span intersects the region, each record once, in file order.

use std::collections::{BTreeMap, BTreeSet};

use gencram::{GenOpts, ReadDesc, Stream, rawwalk};
use noodles_core::{Position, Region};
use noodles_cram::{self as cram, crai};
use noodles_sam::{self as sam, alignment::RecordBuf, alignment::io::Write as _};
use serde_json::{Value as Json, json};
use vcore::{CaseOut, Ctx, Report, Rng, guard, rng::fnv1a, run_cases};

#[derive(Clone, Debug)]
struct Case {
    class: String,
    gseed: u64,
    opts: GenOpts,
    rps: usize,
    deltas: bool,
    emap_none: bool,
    regions: usize,
}

fn case_json(c: &Case) -> Json {
    json!({"class": c.class, "gseed": c.gseed.to_string(), "records_per_slice": c.rps, "position_deltas": c.deltas,
           "uncompressed_blocks": c.emap_none, "regions": c.regions, "opts": format!("{:?}", c.opts)})
}

fn rd(name: &str, flags: u16, ref_id: Option<usize>, pos: Option<usize>, cigar: &[(char, usize)], bases: &[u8]) -> ReadDesc {
    ReadDesc {
        name: Some(name.as_bytes().to_vec()),
        flags,
        ref_id,
        pos,
        mapq: if flags & gencram::F_UNMAPPED != 0 { None } else { Some(30) },
        cigar: cigar.to_vec(),
        bases: bases.to_vec(),
        quals: vec![30; bases.len()],
        mate_ref: None,
        mate_pos: None,
        tlen: 0,
        tags: Vec::new(),
        edits: Vec::new(),
        features: Default::default(),
        template: 0,
        mate: None,
        stale: None,
    }
}

const DET: &[&str] = &["det:slice-of-more-than-2-MiB-then-more-containers", "det:two-references-in-one-slice", "det:overlapping-coordinates-on-two-references", "det:mapped-then-unplaced-in-one-slice", "det:single-reference-two-containers"];

fn det_stream(name: &str) -> (Stream, usize) {
    let refs = vec![
        gencram::RefSeq { name: "sq0".into(), seq: b"ACGTACGTTTGACCAGTNNACGGATCAGCTAGCATCGACTAGCATCGGGATATCCGAT".to_vec(), with_m5: false },
        gencram::RefSeq { name: "sq1".into(), seq: b"TTGACGATCGGCTATATAGCGCGATCGATCGGGCATACGACTAGCAAAACGT".to_vec(), with_m5: true },
    ];
    let (mut reads, rps) = match name {
        // the probe of DESIGN.md section 1: 2+2 records on two references inside one slice
        "det:two-references-in-one-slice" => (
            vec![
                rd("a0", 0, Some(0), Some(1), &[('M', 8)], b"ACGTACGT"),
                rd("a1", 0, Some(0), Some(5), &[('M', 8)], b"ACGTTTGA"),
                rd("b0", 0, Some(1), Some(3), &[('M', 8)], b"GACGATCG"),
                rd("b1", 0, Some(1), Some(30), &[('M', 8)], b"GGGCATAC"),
            ],
            10,
        ),
        "det:overlapping-coordinates-on-two-references" => (
            vec![
                rd("a0", 0, Some(0), Some(3), &[('M', 8)], b"GTACGTTT"),
                rd("b0", 0, Some(1), Some(3), &[('M', 8)], b"GACGATCG"),
                rd("b1", 0, Some(1), Some(4), &[('M', 8)], b"ACGATCGG"),
            ],
            3,
        ),
        "det:mapped-then-unplaced-in-one-slice" => (
            vec![
                rd("a0", 0, Some(0), Some(1), &[('M', 8)], b"ACGTACGT"),
                rd("a1", 0, Some(0), Some(5), &[('M', 8)], b"ACGTTTGA"),
                rd("u0", gencram::F_UNMAPPED, None, None, &[], b"GGGGTTTT"),
            ],
            5,
        ),
        // slice length and the offsets of the following containers >= 2^21 (ITF8/size arithmetic of
        // the writer and of the indexer on real sizes): a read with a 2.2 Mb soft clip, sorted first
        "det:slice-of-more-than-2-MiB-then-more-containers" => {
            let mut rng = Rng::new(0xB16, 0xC19, 0);
            let n = 2_200_000usize;
            let mut raw = vec![0u8; n];
            rng.fill(&mut raw);
            let mut bases: Vec<u8> = raw.iter().map(|b| b"ACGT"[(b & 3) as usize]).collect();
            bases.extend_from_slice(b"ACGTACGT");
            let mut big = rd("big", 0, Some(0), Some(1), &[('S', n), ('M', 8)], &bases);
            rng.fill(&mut raw);
            big.quals = raw.iter().map(|b| b % 94).chain([30u8; 8]).collect();
            (
                vec![
                    big,
                    rd("a1", 0, Some(0), Some(5), &[('M', 8)], b"ACGTTTGA"),
                    rd("a2", 0, Some(0), Some(9), &[('M', 8)], b"TTGACCAG"),
                    rd("a3", 0, Some(0), Some(21), &[('M', 8)], b"CGGATCAG"),
                    rd("b0", 0, Some(1), Some(3), &[('M', 8)], b"GACGATCG"),
                    rd("u0", gencram::F_UNMAPPED, None, None, &[], b"GGGGTTTT"),
                ],
                2,
            )
        }
        "det:single-reference-two-containers" => (
            vec![
                rd("a0", 0, Some(0), Some(1), &[('M', 8)], b"ACGTACGT"),
                rd("a1", 0, Some(0), Some(5), &[('M', 4), ('D', 3), ('M', 4)], b"ACGTGACC"),
                rd("a2", 0, Some(0), Some(9), &[('M', 8)], b"TTGACCAG"),
                rd("a3", 0, Some(0), Some(21), &[('M', 8)], b"CGGATCAG"),
            ],
            2,
        ),
        _ => panic!("unknown deterministic case {name}"),
    };
    for (i, r) in reads.iter_mut().enumerate() {
        r.template = i;
    }
    (Stream { refs, read_groups: vec![], reads, declared_lengths: None }, rps)
}

fn gen_cases(ctx: &Ctx) -> Vec<Case> {
    let mut cases = Vec::new();
    for name in DET {
        cases.push(Case { class: name.to_string(), gseed: 0, opts: GenOpts::default(), rps: 0, deltas: true, emap_none: false, regions: 40 });
    }
    let n = ctx.budget("cases", 600, 6000);
    let regions = ctx.budget("regions", 40, 40) as usize;
    let mut rng = Rng::new(ctx.seed, 0xC19, 0);
    for _ in 0..n {
        let mut o = GenOpts::default();
        o.sorted = true;
        o.n_refs = rng.urange(1, 4);
        o.ref_len = (rng.urange(30, 100), rng.urange(100, 900));
        o.n_templates = 2 + rng.skewed(160) as usize;
        o.iupac_ref = rng.chance(1, 5);
        o.single_ref_reads = rng.chance(2, 5);
        o.pm_pair = *rng.pick(&[0, 200, 500]);
        o.pm_unmapped_single = *rng.pick(&[0, 0, 50, 150, 300]);
        o.max_read_len = *rng.pick(&[8, 30, 80]);
        o.max_skip = *rng.pick(&[10, 120, 400]);
        o.pm_tags = 300;
        // shapes that the writer could not store before its fixes are ordinary members now
        if rng.chance(1, 4) {
            o.pm_noqual = 200;
        }
        if rng.chance(1, 5) {
            o.pm_nobases_unmapped = 300;
        }
        if rng.chance(1, 4) {
            o.pm_supp_of_pair = 400;
        }
        if rng.chance(1, 4) {
            o.pm_minimal = 150;
        }
        cases.push(Case {
            class: "rand".into(),
            gseed: rng.next_u64(),
            opts: o,
            rps: rng.urange(3, 50),
            deltas: rng.bool(),
            emap_none: rng.chance(1, 4),
            regions,
        });
    }
    cases
}

fn build_stream(c: &Case) -> (Stream, usize) {
    if c.class.starts_with("det:") {
        det_stream(&c.class)
    } else {
        let mut rng = Rng::new(c.gseed, 0x5EED, 0);
        (gencram::gen_stream(&mut rng, &c.opts), c.rps)
    }
}

/// What the index must say about one slice, from the descriptions: one entry per reference
/// (`None` = unplaced records), with the inclusive span of the records on it. `exact` is false
/// when placed unmapped records take part (the statement does not define their span).
#[derive(Clone, Debug, PartialEq, Eq)]
struct RefSpan {
    ref_id: Option<usize>,
    start: usize,
    end: usize,
    exact: bool,
}

fn expected_entries(slice: &[ReadDesc]) -> (Vec<RefSpan>, &'static str) {
    let mut m: BTreeMap<Option<usize>, RefSpan> = BTreeMap::new();
    for r in slice {
        let placed = r.ref_id.is_some() && r.pos.is_some();
        let key = if placed { r.ref_id } else { None };
        let (s, e, exact) = match (placed, r.span()) {
            (true, Some((s, e))) => (s, e, true),
            (true, None) => (r.pos.unwrap(), r.pos.unwrap(), false),
            _ => (0, 0, true),
        };
        let ent = m.entry(key).or_insert(RefSpan { ref_id: key, start: usize::MAX, end: 0, exact: true });
        if key.is_some() {
            ent.start = ent.start.min(s);
            ent.end = ent.end.max(e);
            ent.exact &= exact;
        } else {
            ent.start = 0;
        }
    }
    let kind = match gencram::slice_context(slice) {
        gencram::SliceCtx::Single { .. } => "single-reference-slice",
        gencram::SliceCtx::Unmapped => "unmapped-slice",
        gencram::SliceCtx::Multi => "multi-reference-slice",
    };
    (m.into_values().collect(), kind)
}

fn key_of_desc(r: &ReadDesc) -> (Vec<u8>, u16) {
    (r.name.clone().unwrap_or_default(), r.flags & 0x9C0)
}

fn key_of_buf(r: &RecordBuf) -> (Vec<u8>, u16) {
    (r.name().map(|n| n.to_vec()).unwrap_or_default(), u16::from(r.flags()) & 0x9C0)
}

#[derive(Clone, Debug)]
struct Reg {
    ref_id: usize,
    /// inclusive 1-based bounds; None = unbounded
    start: Option<usize>,
    end: Option<usize>,
    kind: &'static str,
}

impl Reg {
    fn to_region(&self, s: &Stream) -> Region {
        let name = s.refs[self.ref_id].name.as_bytes().to_vec();
        let p = |x: usize| Position::new(x).expect("position > 0");
        match (self.start, self.end) {
            (None, None) => Region::new(name, ..),
            (Some(a), None) => Region::new(name, p(a)..),
            (None, Some(b)) => Region::new(name, ..=p(b)),
            (Some(a), Some(b)) => Region::new(name, p(a)..=p(b)),
        }
    }
    fn render(&self, s: &Stream) -> String {
        format!("{}:{}-{} ({})", s.refs[self.ref_id].name, self.start.map(|x| x.to_string()).unwrap_or_default(), self.end.map(|x| x.to_string()).unwrap_or_default(), self.kind)
    }
}

fn gen_regions(rng: &mut Rng, s: &Stream, n: usize) -> Vec<Reg> {
    let mut out = Vec::new();
    let mapped: Vec<&ReadDesc> = s.reads.iter().filter(|r| r.span().is_some()).collect();
    // whole references (by name only), incl. references without records
    for i in 0..s.refs.len() {
        out.push(Reg { ref_id: i, start: None, end: None, kind: "whole-reference" });
    }
    // regions around placed unmapped reads: at POS, just right of it, at the last base it would
    // cover if it were aligned, and from there on
    let placed: Vec<&ReadDesc> = s.reads.iter().filter(|r| r.is_unmapped() && r.pos.is_some() && r.ref_id.is_some()).collect();
    for _ in 0..(n / 6).min(2 * placed.len()) {
        let r = *rng.pick(&placed);
        let (rid, p, l) = (r.ref_id.unwrap(), r.pos.unwrap(), r.bases.len().max(1));
        out.push(match rng.below(4) {
            0 => Reg { ref_id: rid, start: Some(p), end: Some(p), kind: "placed-unmapped:at-pos" },
            1 => Reg { ref_id: rid, start: Some(p + 1), end: Some(p + 1), kind: "placed-unmapped:right-of-pos" },
            2 => Reg { ref_id: rid, start: Some(p + l - 1 + usize::from(l == 1)), end: Some(p + l + 3), kind: "placed-unmapped:at-last-base-of-read-length" },
            _ => Reg { ref_id: rid, start: Some(p + 1), end: None, kind: "placed-unmapped:from-right-of-pos-on" },
        });
    }
    while out.len() < n {
        let k = rng.below(12);
        if mapped.is_empty() || k == 11 {
            let rid = rng.usize_below(s.refs.len());
            let len = s.refs[rid].seq.len();
            let a = rng.urange(1, len);
            let b = rng.urange(a, len);
            out.push(Reg { ref_id: rid, start: Some(a), end: Some(b), kind: "random-window" });
            continue;
        }
        let r = *rng.pick(&mapped);
        let (a, b) = r.span().unwrap();
        let rid = r.ref_id.unwrap();
        let len = s.refs[rid].seq.len();
        let reg = match k {
            0 => Reg { ref_id: rid, start: Some(a), end: Some(b), kind: "own-span" },
            1 if a > 1 => Reg { ref_id: rid, start: Some(a - 1), end: Some(a - 1), kind: "point-before-start" },
            2 => Reg { ref_id: rid, start: Some(b + 1), end: Some(b + 1), kind: "point-after-end" },
            3 => Reg { ref_id: rid, start: Some(a), end: Some(a), kind: "point-at-start" },
            4 => Reg { ref_id: rid, start: Some(b), end: Some(b), kind: "point-at-end" },
            5 => Reg { ref_id: rid, start: None, end: Some(a), kind: "unbounded-start" },
            6 => Reg { ref_id: rid, start: Some(b), end: None, kind: "unbounded-end" },
            7 if a > 1 => Reg { ref_id: rid, start: None, end: Some(a - 1), kind: "unbounded-start-before" },
            8 => Reg { ref_id: rid, start: Some(b + 1), end: None, kind: "unbounded-end-after" },
            9 => {
                // the same coordinates on another reference
                let other = (rid + 1) % s.refs.len();
                Reg { ref_id: other, start: Some(a), end: Some(b), kind: "own-span-on-other-reference" }
            }
            10 => Reg { ref_id: rid, start: Some(len + 1), end: Some(len + 50), kind: "beyond-reference-end" },
            _ => Reg { ref_id: rid, start: Some(a), end: Some(b.max(a + rng.skewed(60) as usize)), kind: "span-extended" },
        };
        out.push(reg);
    }
    out
}

fn scan_filter<'a>(s: &'a Stream, g: &Reg) -> Vec<&'a ReadDesc> {
    s.reads
        .iter()
        .filter(|r| {
            let Some((a, b)) = r.span() else { return false };
            r.ref_id == Some(g.ref_id) && g.start.map(|x| b >= x).unwrap_or(true) && g.end.map(|y| a <= y).unwrap_or(true)
        })
        .collect()
}

fn classify_error(m: &str) -> String {
    let mut s = guard::normalise_message(m);
    if s.len() > 90 {
        s.truncate(90);
    }
    s
}

/// ONE reader per file and access path, used for every query, scan and unmapped query of that
/// path (the way applications use it): state left over from an earlier call — stream position,
/// current container, pending records — must not leak into the next.
enum AnyReader {
    Indexed(cram::io::IndexedReader<std::fs::File>),
    Plain(cram::io::Reader<std::fs::File>, crai::Index),
}

impl AnyReader {
    fn open(via: &str, s: &Stream, path: &std::path::Path, index: &crai::Index) -> std::io::Result<(AnyReader, sam::Header, u64)> {
        use std::io::Seek;
        if via == "indexed-reader" {
            let mut r = cram::io::indexed_reader::Builder::default()
                .set_reference_sequence_repository(s.repository())
                .set_index(index.clone())
                .build_from_path(path)?;
            let header = r.read_header()?;
            let start = r.get_mut().stream_position()?;
            Ok((AnyReader::Indexed(r), header, start))
        } else {
            let mut r = cram::io::reader::Builder::default().set_reference_sequence_repository(s.repository()).build_from_path(path)?;
            let header = r.read_header()?;
            let start = r.position()?;
            Ok((AnyReader::Plain(r, index.clone()), header, start))
        }
    }

    /// Runs one query; `limit` = consume only that many records, then drop the iterator.
    /// With `target` the records are pulled with `Query::read_record_buf` into that one reused
    /// `RecordBuf` (and snapshotted) instead of through the `records()` iterator.
    fn query(&mut self, header: &sam::Header, region: &Region, limit: Option<usize>, target: Option<&mut RecordBuf>) -> std::io::Result<Vec<RecordBuf>> {
        let n = limit.unwrap_or(usize::MAX);
        let mut q = match self {
            AnyReader::Indexed(r) => r.query(header, region)?,
            AnyReader::Plain(r, ix) => r.query(header, ix, region)?,
        };
        match target {
            None => q.records().take(n).collect(),
            Some(t) => {
                let mut out = Vec::new();
                while out.len() < n && q.read_record_buf(t)? != 0 {
                    out.push(t.clone());
                }
                Ok(out)
            }
        }
    }

    /// Sequential read of the whole file after seeking back to the first data container.
    fn scan(&mut self, header: &sam::Header, start: u64) -> std::io::Result<Vec<RecordBuf>> {
        use std::io::{Seek, SeekFrom};
        match self {
            AnyReader::Indexed(r) => {
                r.get_mut().seek(SeekFrom::Start(start))?;
                r.records(header).collect()
            }
            AnyReader::Plain(r, _) => {
                r.seek(SeekFrom::Start(start))?;
                r.records(header).collect()
            }
        }
    }

    fn unmapped(&mut self, header: &sam::Header) -> std::io::Result<Vec<RecordBuf>> {
        match self {
            AnyReader::Indexed(r) => r.query_unmapped(header)?.collect(),
            AnyReader::Plain(r, ix) => r.query_unmapped(header, ix)?.collect(),
        }
    }
}

#[allow(clippy::too_many_arguments)]
fn run_queries(
    c: &Case,
    s: &Stream,
    path: &std::path::Path,
    index: &crai::Index,
    via: &str,
    regions: &[Reg],
    o: &mut CaseOut,
    has_multi: bool,
    rng: &mut Rng,
) {
    let by_key: BTreeMap<(Vec<u8>, u16), &ReadDesc> = s.reads.iter().map(|r| (key_of_desc(r), r)).collect();
    let order: BTreeMap<(Vec<u8>, u16), usize> = s.reads.iter().enumerate().map(|(i, r)| (key_of_desc(r), i)).collect();
    let layout = if has_multi { "file-with-multi-reference-slice" } else { "single-reference-slices-only" };
    let mut seen: BTreeSet<String> = BTreeSet::new();
    let mut push = |o: &mut CaseOut, sig: String, desc: String| {
        if seen.insert(sig.clone()) {
            o.violation(sig, desc);
        }
    };
    let opened = guard::catch(|| AnyReader::open(via, s, path, index));
    let (mut reader, header, start) = match opened {
        Ok(Ok(x)) => x,
        Ok(Err(e)) => {
            push(o, format!("query:open:{}", classify_error(&e.to_string())), format!("opening the file via {via} failed: {e}"));
            return;
        }
        Err(p) => {
            push(o, format!("query:open-panic:{}", p.sig), format!("opening the file via {via} panicked: {}", p.message));
            return;
        }
    };
    let name = |k: &(Vec<u8>, u16)| String::from_utf8_lossy(&k.0).to_string();
    // one RecordBuf for all `read_record_buf` pulls of this reader
    let mut target = RecordBuf::default();
    // what the same reader did just before (for the diagnosis of leftover state)
    let mut prev = "first-call".to_string();
    let mut prev_ref: Option<usize> = None;
    for g in regions {
        let region = g.to_region(s);
        let want = scan_filter(s, g);
        let want_keys: Vec<(Vec<u8>, u16)> = want.iter().map(|r| key_of_desc(r)).collect();
        // consumption: full (6/10), partial then dropped (4/10)
        let limit = if rng.below(10) < 6 { None } else { Some(rng.usize_below(want.len() + 2)) };
        let into_reused_target = rng.bool();
        if into_reused_target {
            o.count("queries_read_into_one_reused_record_buf", 1);
        }
        let res = guard::catch(|| reader.query(&header, &region, limit, if into_reused_target { Some(&mut target) } else { None }));
        o.count("queries", 1);
        o.count(&format!("queries[{}]", g.kind), 1);
        let this = match (limit, prev_ref) {
            (Some(_), _) => "partially-consumed-query",
            (None, Some(p)) if p != g.ref_id => "full-query",
            _ => "full-query",
        };
        if prev_ref.is_some() && prev_ref != Some(g.ref_id) {
            o.count("queries_following_a_query_on_another_reference", 1);
        }
        if prev == "partially-consumed-query" {
            o.count("queries_following_an_abandoned_query", 1);
        }
        let after = prev.clone();
        prev = this.to_string();
        prev_ref = Some(g.ref_id);
        let got = match res {
            Err(p) => {
                push(o, format!("query:panic:{layout}:{}", p.sig), format!("query {} via {via} (same reader, after {after}) panicked: {}", g.render(s), p.message));
                // the reader may be in any state now: start over with a new one
                match guard::catch(|| AnyReader::open(via, s, path, index)) {
                    Ok(Ok(x)) => {
                        reader = x.0;
                        prev = "first-call".into();
                        prev_ref = None;
                    }
                    _ => return,
                }
                continue;
            }
            Ok(Err(e)) => {
                push(o, format!("query:error:{layout}:{}", classify_error(&e.to_string())), format!("query {} via {via} (same reader, after {after}) failed: {e}", g.render(s)));
                continue;
            }
            Ok(Ok(v)) => v,
        };
        if !want.is_empty() {
            o.count("queries_with_nonempty_answer", 1);
        }
        if limit.is_some() {
            o.count("queries_consumed_partially", 1);
        }
        // A placed unmapped record has no alignment: whether a region at its position returns it
        // is not defined by the statement (SAM tools treat it as one base at POS; noodles gives it
        // the empty interval POS..POS-1), so it is tolerated either way — but only where one of the
        // two readings puts it: on its own reference and in a region that touches [POS-1, POS].
        let filter = |o: &mut CaseOut, v: &[RecordBuf]| -> Vec<(Vec<u8>, u16)> {
            v.iter()
                .map(key_of_buf)
                .filter(|k| {
                    let placed_unmapped = by_key
                        .get(k)
                        .map(|r| {
                            r.is_unmapped()
                                && r.ref_id == Some(g.ref_id)
                                && r.pos.map(|p| g.start.map(|a| a <= p).unwrap_or(true) && g.end.map(|b| b + 1 >= p).unwrap_or(true)).unwrap_or(false)
                        })
                        .unwrap_or(false);
                    if placed_unmapped {
                        o.count("placed_unmapped_records_returned_by_queries (tolerated)", 1);
                    }
                    !placed_unmapped
                })
                .collect()
        };
        let got_keys = filter(o, &got);
        o.count("records_returned", got_keys.len() as u64);
        // the content of what came back (full comparison is C07's; this sees stale state in reused buffers)
        for r in &got {
            let Some(w) = by_key.get(&key_of_buf(r)) else { continue };
            let diffs = [
                ("position", r.alignment_start().map(usize::from) != w.pos),
                ("bases", !AsRef::<[u8]>::as_ref(r.sequence()).eq_ignore_ascii_case(&w.bases)),
                ("quality-scores", AsRef::<[u8]>::as_ref(r.quality_scores()) != &w.quals[..]),
                ("tag-count", r.data().len() != w.tags.len()),
                ("cigar-length", r.cigar().as_ref().iter().map(|op| if op.kind().consumes_reference() { op.len() } else { 0 }).sum::<usize>() != w.ref_len()),
            ];
            if let Some((f, _)) = diffs.iter().find(|d| d.1) {
                push(o, format!("query:record-content-differs:{f}:{}", if into_reused_target { "read_record_buf-into-reused-record-buf" } else { "records-iterator" }),
                     format!("query {} via {via}: record {:?} came back with a different {f}; written: {}", g.render(s), name(&key_of_buf(r)), w.sam_line(&s.refs)));
            }
        }
        let ok = match limit {
            None => got_keys == want_keys,
            // a prefix of the answer; exactly `limit` raw records unless the answer is shorter
            Some(n) => got_keys.len() <= want_keys.len() && got_keys[..] == want_keys[..got_keys.len()] && (got.len() == n || got_keys.len() == want_keys.len()),
        };
        if !ok {
            // Is it the reader's history? Ask a fresh reader the same question.
            let fresh = guard::catch(|| -> std::io::Result<Vec<RecordBuf>> {
                let (mut r, h, _) = AnyReader::open(via, s, path, index)?;
                r.query(&h, &region, None, None)
            });
            let fresh_ok = matches!(&fresh, Ok(Ok(v)) if filter(o, v) == want_keys);
            let ctx_desc = format!(
                "query {} via {via} on the file's one reader, after {after}{}: expected {:?}, got {:?}",
                g.render(s),
                limit.map(|n| format!(", consuming {n} records")).unwrap_or_default(),
                want_keys.iter().map(name).collect::<Vec<_>>(),
                got_keys.iter().map(name).collect::<Vec<_>>()
            );
            if fresh_ok {
                push(o, format!("query:reused-reader-differs-from-fresh-reader:after-{after}"), format!("a fresh reader answers correctly; {ctx_desc}"));
                continue;
            }
            let gs: BTreeSet<_> = got_keys.iter().cloned().collect();
            let ws: BTreeSet<_> = want_keys.iter().cloned().collect();
            let mut explained = false;
            for k in gs.difference(&ws) {
                explained = true;
                match by_key.get(k) {
                    None => push(o, "query:returns-unknown-record".into(), format!("record {:?} was never written; {ctx_desc}", name(k))),
                    Some(r) if r.is_unmapped() && r.ref_id == Some(g.ref_id) => push(
                        o,
                        "query:returns-placed-unmapped-record-away-from-its-position".into(),
                        format!("placed unmapped record {:?} at POS {:?} ({} bases); {ctx_desc}", name(k), r.pos, r.bases.len()),
                    ),
                    Some(r) if r.ref_id != Some(g.ref_id) => push(
                        o,
                        format!("query:returns-record-of-other-reference:{layout}"),
                        format!("record {:?} lies on {} ; {ctx_desc}; written: {}", name(k), r.ref_id.map(|i| s.refs[i].name.clone()).unwrap_or("*".into()), r.sam_line(&s.refs)),
                    ),
                    Some(r) => push(
                        o,
                        format!("query:returns-non-intersecting-record:{}", g.kind),
                        format!("record {:?} spans {:?}; {ctx_desc}; written: {}", name(k), r.span(), r.sam_line(&s.refs)),
                    ),
                }
            }
            if limit.is_none() {
                for k in ws.difference(&gs) {
                    explained = true;
                    let r = by_key[k];
                    push(o, format!("query:misses-record:{layout}:{}", g.kind), format!("record {:?} spans {:?}; {ctx_desc}; written: {}", name(k), r.span(), r.sam_line(&s.refs)));
                }
            }
            if got_keys.len() != gs.len() {
                explained = true;
                push(o, format!("query:duplicate-record:{layout}"), ctx_desc.clone());
            }
            if !explained {
                let idx: Vec<usize> = got_keys.iter().filter_map(|k| order.get(k).copied()).collect();
                if idx.windows(2).any(|w| w[0] > w[1]) {
                    push(o, format!("query:not-in-file-order:{layout}"), ctx_desc.clone());
                } else if limit.is_some() {
                    push(o, "query:partial-consumption-is-not-a-prefix-of-the-answer".into(), ctx_desc.clone());
                } else {
                    push(o, "query:differs".into(), ctx_desc.clone());
                }
            }
            continue;
        }

        // interleaved other uses of the same reader
        match rng.below(12) {
            0 | 1 => {
                // sequential read of everything after seeking back
                let r = guard::catch(|| reader.scan(&header, start));
                o.count("sequential_scans_after_a_query", 1);
                match r {
                    Err(p) => push(o, format!("scan-after-query:panic:{}", p.sig), format!("records() after {prev} on the same reader panicked: {}", p.message)),
                    Ok(Err(e)) => push(o, format!("scan-after-query:error:{}", classify_error(&e.to_string())), format!("records() after seeking back, after {prev} on the same reader, failed: {e}")),
                    Ok(Ok(v)) => {
                        let bad = v.len() != s.reads.len()
                            || v.iter().zip(&s.reads).any(|(a, w)| w.name.is_some() && key_of_buf(a) != key_of_desc(w) || u16::from(a.flags()) != w.flags);
                        if bad {
                            push(
                                o,
                                format!("scan-after-query:differs-from-written-stream:after-{prev}"),
                                format!("records() after seeking back to the first data container yields {} records {:?}, {} were written", v.len(), v.iter().take(12).map(|r| name(&key_of_buf(r))).collect::<Vec<_>>(), s.reads.len()),
                            );
                        }
                    }
                }
                prev = "sequential-scan".into();
            }
            2 => {
                // query_unmapped is not part of the statement: what is judged is that the reader's
                // history does not change its outcome (same outcome as on a fresh reader); how the
                // outcome relates to the written stream is recorded as an observation
                let outcome = |r: Result<std::io::Result<Vec<RecordBuf>>, guard::PanicInfo>| -> Result<Vec<(Vec<u8>, u16)>, String> {
                    match r {
                        Err(p) => Err(format!("panic:{}", p.sig)),
                        Ok(Err(e)) => Err(format!("error:{}", classify_error(&e.to_string()))),
                        Ok(Ok(v)) => Ok(v.iter().map(key_of_buf).collect()),
                    }
                };
                let reused = outcome(guard::catch(|| reader.unmapped(&header)));
                let fresh = outcome(guard::catch(|| -> std::io::Result<Vec<RecordBuf>> {
                    let (mut r, h, _) = AnyReader::open(via, s, path, index)?;
                    r.unmapped(&h)
                }));
                o.count("unmapped_queries_after_a_query", 1);
                if reused != fresh {
                    let show = |x: &Result<Vec<(Vec<u8>, u16)>, String>| match x {
                        Ok(v) => format!("{} records {:?}", v.len(), v.iter().take(10).map(name).collect::<Vec<_>>()),
                        Err(e) => e.clone(),
                    };
                    push(o, format!("query-unmapped:reused-reader-differs-from-fresh-reader:after-{prev}"),
                         format!("query_unmapped via {via} on the file's one reader after {prev}: {}; on a fresh reader: {}", show(&reused), show(&fresh)));
                }
                let unplaced = s.reads.iter().filter(|r| r.ref_id.is_none()).count();
                match &fresh {
                    Err(e) => o.count(&format!("observed_query_unmapped[{e}; file has {} unplaced records]", if unplaced == 0 { "no" } else { "some" }), 1),
                    Ok(v) => {
                        let n = v.iter().filter(|k| by_key.get(*k).map(|r| r.ref_id.is_none()).unwrap_or(k.0.iter().all(|b| b.is_ascii_digit()))).count();
                        o.count(if n == unplaced && v.len() == n { "observed_query_unmapped[returns exactly the unplaced records]" } else if n == unplaced { "observed_query_unmapped[returns the unplaced records plus placed unmapped ones]" } else { "observed_query_unmapped[unplaced records missing or duplicated]" }, 1);
                    }
                }
                prev = "query-unmapped".into();
            }
            _ => {}
        }
    }
    let _ = c;
}

fn run_case(ctx: &Ctx, idx: u64, c: &Case) -> CaseOut {
    let mut o = CaseOut::new();
    let (s, rps) = build_stream(c);
    let header: sam::Header = s.header();
    let records = s.record_bufs();
    let dump = ctx.work.join("dump");
    let _ = std::fs::create_dir_all(&dump);
    let path = dump.join(format!("{idx}.cram"));
    let repo = s.repository();
    let w = guard::catch(|| -> std::io::Result<()> {
        let mut b = cram::io::writer::Builder::default()
            .set_reference_sequence_repository(repo)
            .encode_alignment_start_positions_as_deltas(c.deltas)
            .verif_set_layout(rps, 1);
        if c.emap_none {
            let mut m = cram::container::BlockContentEncoderMap::builder().set_core_data_encoder(None).set_default_encoder(None);
            for ds in ALL_SERIES {
                m = m.set_data_series_encoder(ds, None);
            }
            b = b.set_block_content_encoder_map(m.build());
        }
        let mut w = b.build_from_path(&path)?;
        w.write_header(&header)?;
        for r in &records {
            w.write_alignment_record(&header, r)?;
        }
        w.try_finish(&header)?;
        Ok(())
    });
    match w {
        Err(p) => {
            o.count(&format!("writer_panics[{}]", p.sig), 1);
            let _ = std::fs::remove_file(&path);
            return o;
        }
        Ok(Err(e)) => {
            o.count(&format!("writer_rejected[{}]", classify_error(&e.to_string())), 1);
            let _ = std::fs::remove_file(&path);
            return o;
        }
        Ok(Ok(())) => {}
    }
    o.count("files_written", 1);
    o.count("records_written", s.reads.len() as u64);

    // expectations from the descriptions
    let slices: Vec<&[ReadDesc]> = s.reads.chunks(rps).collect();
    let exp: Vec<(Vec<RefSpan>, &str)> = slices.iter().map(|sl| expected_entries(sl)).collect();
    let has_multi = exp.iter().any(|e| e.1 == "multi-reference-slice");
    let mut kinds_mask = 0u32;
    for e in &exp {
        o.count(&format!("slices[{}]", e.1), 1);
        kinds_mask |= match e.1 {
            "single-reference-slice" => 1,
            "unmapped-slice" => 2,
            _ => 4,
        };
    }
    if slices.len() > 1 {
        o.count("files_with_several_containers", 1);
    }
    if has_multi {
        o.count("files_with_multi_reference_slice", 1);
    }
    if s.reads.iter().any(|r| r.ref_id.is_none()) {
        o.count("files_with_unplaced_tail", 1);
    }

    // sidecar for the walker (same format as C07) + expected index entries per slice
    let side = json!({
        "records": s.reads.len(),
        "refs": s.refs.iter().map(|r| json!({"name": r.name, "seq": String::from_utf8_lossy(&r.seq)})).collect::<Vec<_>>(),
        "expected_index": exp.iter().map(|(v, kind)| json!({"kind": kind, "entries": v.iter().map(|e| json!({
            "ref": e.ref_id.map(|x| x as i64).unwrap_or(-1), "start": e.start, "span": if e.ref_id.is_some() { e.end - e.start + 1 } else { 0 }, "exact": e.exact})).collect::<Vec<_>>()})).collect::<Vec<_>>(),
        "case": case_json(c),
    });
    std::fs::write(dump.join(format!("{idx}.json")), serde_json::to_vec(&side).unwrap()).expect("sidecar");

    // index
    let layout = if has_multi { "file-with-multi-reference-slice" } else { "single-reference-slices-only" };
    let built = guard::catch(|| cram::fs::index(&path));
    let (index, source): (crai::Index, &str) = match built {
        Ok(Ok(ix)) => {
            o.count("indexes_built", 1);
            (ix, "noodles")
        }
        other => {
            match other {
                Err(p) => o.violation(format!("index:panic:{layout}:{}", p.sig), format!("cram::fs::index panicked on a sorted noodles-written file ({} records, {} slices of <= {rps} records): {}", s.reads.len(), slices.len(), p.message)),
                Ok(Err(e)) => o.violation(format!("index:error:{layout}:{}", classify_error(&e.to_string())), format!("cram::fs::index failed on a sorted noodles-written file: {e}")),
                _ => unreachable!(),
            }
            // Stand-in index (walker geometry + expected spans) so that the query half of the
            // property is still evaluated on this file.
            let bytes = std::fs::read(&path).expect("read back scratch file");
            let Some(geom) = rawwalk::geometry(&bytes) else {
                o.inconclusive.push("stand-in index: could not derive the geometry of the written file".into());
                return o;
            };
            if geom.len() != exp.len() || geom.iter().any(|g| g.slices.len() != 1) {
                o.inconclusive.push(format!("stand-in index: {} containers for {} expected slices", geom.len(), exp.len()));
                return o;
            }
            let mut ix = Vec::new();
            for (g, (ents, _)) in geom.iter().zip(&exp) {
                for e in ents {
                    ix.push(crai::Record::new(e.ref_id, if e.ref_id.is_some() { Position::new(e.start) } else { None }, if e.ref_id.is_some() { e.end - e.start + 1 } else { 0 }, g.offset, g.slices[0].landmark, g.slices[0].length));
                }
            }
            o.count("stand_in_indexes_used", 1);
            (ix, "stand-in")
        }
    };

    if source == "noodles" {
        // (reference, start, span) per slice against the descriptions; entries are grouped by
        // container offset (one slice per container)
        let mut groups: Vec<Vec<&crai::Record>> = Vec::new();
        for r in &index {
            match groups.last_mut() {
                Some(g) if g[0].offset() == r.offset() && g[0].landmark() == r.landmark() => g.push(r),
                _ => groups.push(vec![r]),
            }
        }
        o.count("index_entries", index.len() as u64);
        if groups.len() != exp.len() {
            o.violation(format!("index:slice-count:{layout}"), format!("the index lists {} slices, {} were written", groups.len(), exp.len()));
        } else {
            let mut seen = BTreeSet::new();
            for (k, (g, (ents, kind))) in groups.iter().zip(&exp).enumerate() {
                o.count("index_slices_compared", 1);
                let got: BTreeSet<(Option<usize>, usize, usize)> = g.iter().map(|r| (r.reference_sequence_id(), r.alignment_start().map(usize::from).unwrap_or(0), r.alignment_span())).collect();
                let want: BTreeSet<(Option<usize>, usize, usize)> = ents.iter().map(|e| (e.ref_id, e.start, if e.ref_id.is_some() { e.end - e.start + 1 } else { 0 })).collect();
                let exact = ents.iter().all(|e| e.exact);
                let ok = if exact {
                    got == want && got.len() == g.len()
                } else {
                    // placed unmapped records: the entry must at least cover the expected span
                    got.len() == want.len()
                        && got.iter().zip(&want).all(|(a, b)| a.0 == b.0 && (a.0.is_none() || (a.1 <= b.1 && a.1 + a.2 >= b.1 + b.2)))
                };
                if !ok {
                    let what = if got.len() != want.len() || g.len() != got.len() {
                        "entry-count"
                    } else if got.iter().map(|x| x.0).collect::<Vec<_>>() != want.iter().map(|x| x.0).collect::<Vec<_>>() {
                        "reference"
                    } else {
                        "span"
                    };
                    let sig = format!("index:{what}:{kind}");
                    if seen.insert(sig.clone()) {
                        o.violation(sig, format!("slice #{k}: index entries (ref, start, span) {got:?}, the records of the slice cover {want:?}"));
                    }
                }
            }
        }
        // index file round trip
        let cpath = dump.join(format!("{idx}.crai"));
        let rt = guard::catch(|| -> std::io::Result<crai::Index> {
            crai::fs::write(&cpath, &index)?;
            crai::fs::read(&cpath)
        });
        match rt {
            Err(p) => o.violation(format!("crai:panic:{}", p.sig), format!("crai write/read panicked: {}", p.message)),
            Ok(Err(e)) => o.violation(format!("crai:error:{}", classify_error(&e.to_string())), format!("crai::fs::write/read failed: {e}")),
            Ok(Ok(back)) => {
                o.count("index_files_round_tripped", 1);
                if back != index {
                    let at = back.iter().zip(&index).position(|(a, b)| a != b).unwrap_or(back.len().min(index.len()));
                    o.violation("crai:roundtrip-differs", format!("index of {} entries reads back with {} entries; first difference at entry {at}: {:?} vs {:?}", index.len(), back.len(), index.get(at), back.get(at)));
                }
            }
        }
    }

    // queries
    let mut rng = Rng::new(c.gseed ^ 0xA11CE, 0xC19, idx);
    let mut regions = gen_regions(&mut rng, &s, c.regions);
    // consecutive queries on one reader should hop between references, directions and sizes
    rng.shuffle(&mut regions);
    let half = regions.len() / 2;
    run_queries(c, &s, &path, &index, "indexed-reader", &regions[..half], &mut o, has_multi, &mut rng);
    let index2 = if source == "noodles" { crai::fs::read(dump.join(format!("{idx}.crai"))).unwrap_or_else(|_| index.clone()) } else { index.clone() };
    run_queries(c, &s, &path, &index2, "reader-query-with-reread-index", &regions[half..], &mut o, has_multi, &mut rng);
    o.count(&format!("files_queried_through_{source}_index"), 1);

    o.evaluations = 1;
    o.fp = fnv1a(format!("{kinds_mask}|{}|{}|{}|{}|{source}", slices.len().min(6), c.deltas, s.refs.len(), s.reads.iter().any(|r| r.is_unmapped() && r.pos.is_some())).as_bytes());
    if idx % 31 == 0 {
        o.sample = Some(json!({"case": case_json(c), "slices": exp.iter().map(|e| e.1).collect::<Vec<_>>(), "first_regions": regions.iter().take(4).map(|g| g.render(&s)).collect::<Vec<_>>()}));
    }
    o
}

use noodles_cram::container::compression_header::data_series_encodings::DataSeries;
const ALL_SERIES: [DataSeries; 28] = [
    DataSeries::BamFlags,
    DataSeries::CramFlags,
    DataSeries::ReferenceSequenceIds,
    DataSeries::ReadLengths,
    DataSeries::AlignmentStarts,
    DataSeries::ReadGroupIds,
    DataSeries::Names,
    DataSeries::MateFlags,
    DataSeries::MateReferenceSequenceIds,
    DataSeries::MateAlignmentStarts,
    DataSeries::TemplateLengths,
    DataSeries::MateDistances,
    DataSeries::TagSetIds,
    DataSeries::FeatureCounts,
    DataSeries::FeatureCodes,
    DataSeries::FeaturePositionDeltas,
    DataSeries::DeletionLengths,
    DataSeries::StretchesOfBases,
    DataSeries::StretchesOfQualityScores,
    DataSeries::BaseSubstitutionCodes,
    DataSeries::InsertionBases,
    DataSeries::ReferenceSkipLengths,
    DataSeries::PaddingLengths,
    DataSeries::HardClipLengths,
    DataSeries::SoftClipBases,
    DataSeries::MappingQualities,
    DataSeries::Bases,
    DataSeries::QualityScores,
];

fn main() {
    let ctx = Ctx::from_args();
    let ctx = vcore::cases::replay_request(&ctx).map(|r| r.1).unwrap_or(ctx);
    let mut rep = Report::new(
        "case = one coordinate-sorted generated stream (gencram, 1-4 references, unplaced tail) written with H3 \
         (3-50 records per slice, one slice per container) to a scratch file, indexed with cram::fs::index, queried with \
         ~40 regions (whole reference, own span, points at/around span ends, unbounded bounds, same coordinates on another \
         reference, windows hitting nothing) through IndexedReader::query (index in memory) and Reader::query (index \
         after crai::fs::write/read); deterministic witnesses + a VERIF_SEED-seeded random part; distinct = distinct \
         (slice-kind bitmask [single / unmapped / multi-reference], container count capped at 6, position deltas, number \
         of references, placed unmapped reads present, index source); non-trivial = the file was written and queried",
    );
    for a in [
        "query answers are identified by (read name, first/last segment bits); names are unique per template by construction",
        "expected answer = records whose reference equals the region's and whose span POS..POS+sum(M/D/N/=/X)-1 (computed by the harness) intersects the region, in file order",
        "placed unmapped records have no alignment: whether a query returns them is not judged; index spans of slices that contain them are only required to cover the mapped records",
        "when cram::fs::index fails (violation) the queries of that file run through a stand-in index built from the independent geometry and the expected spans, so the query half of the property is still evaluated",
        "CRAI byte geometry (container offset, landmark, slice length) is judged by py/cram_walk.py in the post hook; the order of the entries of one multi-reference slice is not judged",
        "only the layout the production writer emits (one slice per container) is generated",
        "all queries of a file and access path run on ONE reader in shuffled order (consecutive queries hop between references), 4 in 10 are consumed only partially and then dropped, and sequential records() scans (after seeking back to the first data container) and query_unmapped calls are interleaved; a wrong answer that a fresh reader gets right is reported as query:reused-reader-differs-from-fresh-reader:after-<previous call>",
        "query_unmapped is not judged against the written stream (the statement names region queries only): it is driven for the state it leaves behind in the reader, its outcome must not depend on the reader's history, and how its answer relates to the unplaced records is counted as observed_query_unmapped[...]",
    ] {
        rep.assumptions.push(a.into());
    }
    let cases = gen_cases(&ctx);
    let f = |i: u64| -> CaseOut { run_case(&ctx, i, &cases[i as usize]) };
    run_cases(&ctx, &mut rep, cases.len() as u64, 120.0, &f, &|i| case_json(&cases[i as usize]));
    if ctx.replay.is_none() {
        let counters = rep.counters.clone();
        let g = |k: &str| counters.get(k).copied().unwrap_or(0);
        rep.floor("files_written", g("files_written"), cases.len() as u64 * 8 / 10);
        rep.floor("queries", g("queries"), 2000);
        rep.floor("queries_with_nonempty_answer", g("queries_with_nonempty_answer"), 500);
        rep.floor("files_with_multi_reference_slice", g("files_with_multi_reference_slice"), 10);
        rep.floor("files_with_several_containers", g("files_with_several_containers"), 30);
        rep.floor("files_with_unplaced_tail", g("files_with_unplaced_tail"), 10);
        rep.floor("queries_following_a_query_on_another_reference", g("queries_following_a_query_on_another_reference"), 500);
        rep.floor("queries_following_an_abandoned_query", g("queries_following_an_abandoned_query"), 500);
        rep.floor("sequential_scans_after_a_query", g("sequential_scans_after_a_query"), 200);
        rep.floor("unmapped_queries_after_a_query", g("unmapped_queries_after_a_query"), 100);
    }
    rep.finish(&ctx);
}
