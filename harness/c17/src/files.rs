//! Small generated files for the `*::fs::index` functions (the "indexes from the real indexers over small
//! generated files" part of C17 (c)). The BAM / VCF.gz / BCF writers are shared with C04.

use std::{io, io::Write, path::Path};

use noodles_core::Position;
use noodles_cram as cram;
use noodles_fasta as fasta;
use noodles_sam::alignment::{
    RecordBuf,
    io::Write as _,
    record::{
        Flags,
        cigar::{Op, op::Kind},
    },
    record_buf::Sequence,
};
use vcore::Rng;

use crate::genfiles::{AlnRec, AlnSet, VarRec, VarSet, sam_header};

pub fn small_aln_set(rng: &mut Rng) -> AlnSet {
    let nrefs = rng.urange(1, 4);
    let refs: Vec<(String, usize)> = (0..nrefs).map(|i| (format!("ref{i}"), (1 << 29) - 1)).collect();
    let mut recs = Vec::new();
    let mut k = 0;
    for r in 0..nrefs {
        if nrefs > 1 && rng.chance(1, 4) {
            continue;
        }
        let mut p = 1 + rng.skewed(1 << 27) as usize;
        for _ in 0..rng.urange(1, 40) {
            let len = match rng.below(5) {
                0 => 1 + rng.skewed(1 << 24) as usize,
                1 => 16384 - (p - 1) % 16384 + rng.below(2) as usize,
                _ => 1 + rng.below(300) as usize,
            };
            let len = len.min((1 << 29) - 1 - p).max(1);
            let unm = rng.chance(1, 15);
            recs.push(AlnRec {
                name: format!("r{k}"),
                flags: if unm { 4 } else { *rng.pick(&[0u16, 16, 99, 147]) },
                rid: Some(r),
                pos: p,
                ops: if unm {
                    vec![]
                } else if rng.chance(1, 4) {
                    vec![('M', len / 2 + 1), ('N', len / 2), ('M', 1)]
                } else {
                    vec![('M', len)]
                },
                pad: 0,
                with_seq: false,
            });
            k += 1;
            p += rng.skewed(100_000) as usize;
            if p >= (1 << 29) - 2 {
                break;
            }
        }
    }
    for _ in 0..rng.below(4) {
        recs.push(AlnRec { name: format!("r{k}"), flags: 4, rid: None, pos: 0, ops: vec![], pad: 0, with_seq: false });
        k += 1;
    }
    let flush_after = (0..recs.len()).map(|_| rng.chance(1, 3)).collect();
    AlnSet { refs, recs, flush_after, level: 1 }
}

pub fn small_var_set(rng: &mut Rng) -> VarSet {
    let ncontigs = rng.urange(1, 4);
    let contigs: Vec<String> = (0..ncontigs).map(|i| format!("ctg{i}")).collect();
    let minor = *rng.pick(&[2u32, 3, 4]);
    let mut recs = Vec::new();
    let mut k = 0;
    for c in 0..ncontigs {
        if ncontigs > 1 && rng.chance(1, 4) {
            continue;
        }
        let mut p = 1 + rng.skewed(1 << 27) as usize;
        for _ in 0..rng.urange(1, 40) {
            let ref_len = 1 + rng.skewed(40) as usize;
            let end = if rng.chance(1, 4) { Some((p + ref_len - 1 + rng.skewed(1 << 22) as usize).min((1 << 29) - 1)) } else { None };
            recs.push(VarRec { chrom: c, pos: p, id: format!("v{k}"), ref_len, alt: if end.is_some() { "<DEL>".into() } else { "T".into() }, end, svlen: None, svlen_at: 0, len: None, pad: 0 });
            k += 1;
            p += rng.skewed(100_000) as usize;
            if p >= (1 << 29) - 100 {
                break;
            }
        }
    }
    let flush_after = (0..recs.len()).map(|_| rng.chance(1, 3)).collect();
    VarSet { minor, contigs, recs, flush_after, level: 1, sample: false }
}

/// FASTA with the given names; returns the bytes written.
pub fn write_fasta(path: &Path, rng: &mut Rng, names: &[Vec<u8>]) -> io::Result<()> {
    let mut f = std::fs::File::create(path)?;
    for name in names {
        f.write_all(b">")?;
        f.write_all(name)?;
        if rng.chance(1, 3) {
            f.write_all(b" some description")?;
        }
        f.write_all(b"\n")?;
        let width = rng.urange(1, 80);
        let len = rng.urange(1, 400);
        let seq: Vec<u8> = (0..len).map(|_| *rng.pick(b"ACGTN")).collect();
        for line in seq.chunks(width) {
            f.write_all(line)?;
            f.write_all(b"\n")?;
        }
    }
    Ok(())
}

/// A small single-reference CRAM (plus trailing unmapped reads in their own slices).
pub fn write_cram(path: &Path, rng: &mut Rng) -> io::Result<usize> {
    let reflen = 3000;
    let refseq: Vec<u8> = (0..reflen).map(|_| *rng.pick(b"ACGT")).collect();
    let refs = vec![("cref0".to_string(), reflen)];
    let header = sam_header(&refs)?;
    let repo = fasta::Repository::new(vec![fasta::Record::new(fasta::record::Definition::new("cref0", None), fasta::record::Sequence::from(refseq.clone()))]);
    let rps = rng.urange(2, 6);
    let spc = rng.urange(1, 3);
    let mut w = cram::io::writer::Builder::default().set_reference_sequence_repository(repo).verif_set_layout(rps, spc).build_from_path(path)?;
    w.write_header(&header)?;
    let groups = rng.urange(1, 6);
    let mut p = 1 + rng.below(200) as usize;
    let mut n = 0;
    for _ in 0..groups * rps {
        let len = rng.urange(20, 100).min(reflen - p);
        let seq = refseq[p - 1..p - 1 + len].to_vec();
        let rec = RecordBuf::builder()
            .set_name(format!("c{n}").into_bytes())
            .set_flags(Flags::empty())
            .set_reference_sequence_id(0)
            .set_alignment_start(Position::new(p).unwrap())
            .set_mapping_quality(noodles_sam::alignment::record::MappingQuality::new(30).unwrap())
            .set_cigar([Op::new(Kind::Match, len)].into_iter().collect())
            .set_sequence(Sequence::from(seq))
            .set_quality_scores(vec![30u8; len].into())
            .build();
        w.write_alignment_record(&header, &rec)?;
        n += 1;
        p = (p + rng.below(60) as usize).min(reflen - 120);
    }
    for _ in 0..rng.below(2) * rps as u64 {
        let rec =
            RecordBuf::builder().set_name(format!("c{n}").into_bytes()).set_flags(Flags::UNMAPPED).set_sequence(Sequence::from(b"ACGTACGT".to_vec())).set_quality_scores(vec![20u8; 8].into()).build();
        w.write_alignment_record(&header, &rec)?;
        n += 1;
    }
    w.try_finish(&header)?;
    Ok(n)
}
