//! C17 (c) — index write -> read round trips: BAI, CSI, tabix (binning indexes), gzi, fai, crai.
//!
//! Sources: (1) the real indexers (`csi::binning_index::Indexer<LinearIndex|BinnedIndex>`,
//! `tabix::index::Indexer`) driven with generated coordinate-sorted record streams exactly the way
//! `bam/bcf/vcf::fs::index` drive them (one `[vpos before, vpos after)` chunk per record), and the
//! `*::fs::index` functions over small generated files (see `files.rs`); (2) arbitrary structurally valid
//! indexes built through the public constructors.
//!
//! Verdict: after write+read the index must be `==` the original, or else (a) min_shift/depth (CSI),
//! header incl. names, unplaced count, per-reference metadata and bins must be unchanged and (b) every probe
//! query (every probed reference x a fixed region family, plus `last_first_record_start_position`) must be
//! answered with the same chunk list.

use std::{io, num::NonZero, path::Path};

use bstr::BString;
use indexmap::IndexMap;
use noodles_bam::bai;
use noodles_bgzf::gzi;
use noodles_core::{Position, region::Interval};
use noodles_cram::crai;
use noodles_csi::{
    self as csi, BinningIndex,
    binning_index::{
        Index, Indexer, ReferenceSequence as _,
        index::{
            Header, ReferenceSequence,
            header::{Format, format::CoordinateSystem},
            reference_sequence::{
                Bin, Metadata,
                bin::Chunk,
                index::{BinnedIndex, LinearIndex},
            },
        },
    },
};
use noodles_fasta::fai;
use noodles_tabix as tabix;
use vcore::{CaseOut, Rng, guard, rng::fnv1a};

use crate::binning::{biased_pos, bin_count, bin_interval, pos, positions, vp};

// ---------------------------------------------------------------------------------------------------
// generated record streams for the indexers

pub struct Stream {
    /// (reference id, start, end, mapped, chunk)
    pub recs: Vec<(usize, usize, usize, bool, (u64, u64))>,
    pub unplaced: Vec<(u64, u64)>,
    pub nrefs: usize,
    pub shape: String,
}

/// Virtual position generator: records of 40..400 bytes, blocks of a few hundred to 65280 bytes.
struct VGen {
    coffset: u64,
    uoffset: u64,
    block: u64,
}

impl VGen {
    fn new(rng: &mut Rng) -> Self {
        VGen { coffset: rng.below(3000), uoffset: rng.below(200), block: *rng.pick(&[300u64, 2000, 20000, 65280]) }
    }
    fn v(&self) -> u64 {
        (self.coffset << 16) | self.uoffset
    }
    fn next(&mut self, rng: &mut Rng) -> (u64, u64) {
        let s = self.v();
        self.uoffset += 40 + rng.below(360);
        while self.uoffset >= self.block {
            self.uoffset -= self.block;
            self.coffset += 60 + rng.below(self.block / 2 + 1);
        }
        (s, self.v())
    }
}

pub fn gen_stream(rng: &mut Rng, min_shift: u8, depth: u8) -> Stream {
    let n = positions(min_shift, depth);
    let nrefs = *rng.pick(&[1usize, 1, 2, 3, 5, 9]);
    let per_ref_max = *rng.pick(&[0usize, 1, 3, 12, 40, 120]);
    let mut vg = VGen::new(rng);
    let mut recs = Vec::new();
    let step_class = rng.below(4);
    for r in 0..nrefs {
        if nrefs > 1 && rng.chance(1, 4) {
            continue; // empty reference
        }
        let k = if per_ref_max == 0 { 0 } else { rng.urange(1, per_ref_max) };
        let mut p = biased_pos(rng, min_shift, depth, n);
        if rng.chance(1, 2) {
            p = 1 + rng.skewed((n as u64 / 4).max(1)) as usize;
        }
        for _ in 0..k {
            let len = match rng.below(8) {
                0 => 1,
                1 | 2 => 1 + rng.below(300) as usize,
                3 => (1usize << min_shift) + rng.below(3) as usize - 1,
                4 => {
                    // extend to a boundary of a random level +-1
                    let j = rng.below(depth as u64 + 1) as usize;
                    let span = 1usize << (min_shift as usize + 3 * j);
                    (span - (p - 1) % span + rng.below(3) as usize).saturating_sub(1).max(1)
                }
                5 => 1 + rng.skewed(n as u64) as usize,
                _ => 1 + rng.below(2000) as usize,
            };
            let e = (p + len - 1).min(n);
            let mapped = !rng.chance(1, 12);
            let (s, e) = if mapped { (p, e) } else { (p, p) };
            recs.push((r, s, e, mapped, vg.next(rng)));
            p += match step_class {
                0 => rng.below(3) as usize,
                1 => rng.skewed(1 << min_shift) as usize,
                2 => rng.skewed((n / 64).max(2) as u64) as usize,
                _ => {
                    if rng.chance(1, 5) {
                        rng.skewed((n / 8).max(2) as u64) as usize
                    } else {
                        rng.below(200) as usize
                    }
                }
            };
            if p > n {
                break;
            }
        }
    }
    let unplaced = (0..if rng.chance(1, 2) { 0 } else { rng.urange(1, 6) }).map(|_| vg.next(rng)).collect();
    Stream { recs, unplaced, nrefs, shape: format!("refs={nrefs}|per<={per_ref_max}|step={step_class}") }
}

pub fn drive<I>(st: &Stream, min_shift: u8, depth: u8, header: Option<Header>) -> io::Result<Index<I>>
where
    I: csi::binning_index::index::reference_sequence::Index + Default,
{
    let mut ix = Indexer::<I>::new(min_shift, depth);
    if let Some(h) = header {
        ix = ix.set_header(h);
    }
    for &(r, s, e, m, (cs, ce)) in &st.recs {
        ix.add_record(Some((r, pos(s), pos(e), m)), Chunk::new(vp(cs), vp(ce)))?;
    }
    for &(cs, ce) in &st.unplaced {
        ix.add_record(None, Chunk::new(vp(cs), vp(ce)))?;
    }
    Ok(ix.build(st.nrefs))
}

// ---------------------------------------------------------------------------------------------------
// arbitrary structurally valid indexes

fn arb_chunks(rng: &mut Rng, vg: &mut VGen) -> Vec<Chunk> {
    let k = match rng.below(5) {
        0 => 0,
        1 | 2 => 1,
        _ => rng.urange(2, 6),
    };
    (0..k)
        .map(|_| {
            let (s, _) = vg.next(rng);
            let (_, e) = if rng.chance(1, 3) { vg.next(rng) } else { (0, vg.v()) };
            Chunk::new(vp(s), vp(e.max(s)))
        })
        .collect()
}

fn arb_metadata(rng: &mut Rng) -> Option<Metadata> {
    if rng.chance(1, 3) {
        return None;
    }
    let big = |rng: &mut Rng| match rng.below(4) {
        0 => 0,
        1 => rng.below(1000),
        2 => u64::MAX - rng.below(2),
        _ => rng.next_u64(),
    };
    Some(Metadata::new(vp(big(rng)), vp(big(rng)), big(rng), big(rng)))
}

fn arb_bin_ids(rng: &mut Rng, min_shift: u8, depth: u8) -> Vec<usize> {
    let nb = bin_count(depth);
    let n = positions(min_shift, depth);
    let mut ids = Vec::new();
    let k = match rng.below(4) {
        0 => 0,
        1 => 1,
        _ => rng.urange(2, 30),
    };
    for _ in 0..k {
        match rng.below(4) {
            0 => ids.push(rng.below(nb as u64) as usize),
            1 => ids.push(*rng.pick(&[0usize, 1, 8, nb - 1, nb - 8])),
            _ => {
                // chain of ancestors of a position (with gaps)
                let p = biased_pos(rng, min_shift, depth, n);
                for l in 0..=depth {
                    if rng.chance(1, 2) {
                        let first = ((1usize << (3 * l as usize)) - 1) / 7;
                        ids.push(first + ((p - 1) >> (min_shift as usize + 3 * (depth - l) as usize)));
                    }
                }
            }
        }
    }
    ids.retain(|&i| i < nb);
    // keep insertion order random, but unique
    let mut seen = std::collections::HashSet::new();
    ids.retain(|i| seen.insert(*i));
    ids
}

pub fn arb_linear(rng: &mut Rng, header: Option<Header>, nrefs: usize) -> Index<LinearIndex> {
    let mut vg = VGen::new(rng);
    let refs = (0..nrefs)
        .map(|_| {
            let mut bins = IndexMap::new();
            for id in arb_bin_ids(rng, 14, 5) {
                bins.insert(id, Bin::new(arb_chunks(rng, &mut vg)));
            }
            let wins = match rng.below(4) {
                0 => 0,
                1 => 1,
                _ => rng.urange(2, 60),
            };
            let lin: LinearIndex = (0..wins)
                .map(|_| {
                    if rng.chance(1, 6) {
                        vp(0)
                    } else {
                        if rng.chance(1, 2) {
                            vg.next(rng);
                        }
                        vp(vg.v())
                    }
                })
                .collect();
            ReferenceSequence::new(bins, lin, arb_metadata(rng))
        })
        .collect();
    let mut b = Index::<LinearIndex>::builder().set_reference_sequences(refs);
    if let Some(h) = header {
        b = b.set_header(h);
    }
    if rng.chance(2, 3) {
        b = b.set_unplaced_unmapped_record_count(*rng.pick(&[0u64, 1, 7, u32::MAX as u64 + 1, u64::MAX]));
    }
    b.build()
}

/// `fixed_point`: loffset(child) <= loffset(parent) whenever the parent bin exists, i.e. already what the
/// CSI writer would emit; otherwise free loffsets.
/// Which bins of an arbitrary CSI index carry an loffset entry. `ReferenceSequence::new(bins, index, ..)` accepts
/// any key set; an index assembled from bins only (no entries) or with entries for some bins is a legitimate
/// in-memory value (`BinnedIndex::min_offset` walks up to the first bin *with an entry*, 0 if none). Entries for
/// bins that do not exist are not generated (an loffset describes a bin).
#[derive(Clone, Copy, Debug, PartialEq)]
pub enum Entries {
    All,
    None,
    Some,
    OnlyAncestors,
    OnlyLeaves,
}

pub fn arb_binned(rng: &mut Rng, min_shift: u8, depth: u8, header: Option<Header>, nrefs: usize, fixed_point: bool, entries: Entries) -> Index<BinnedIndex> {
    let first_leaf = ((1usize << (3 * depth as usize)) - 1) / 7;
    let mut vg = VGen::new(rng);
    let refs = (0..nrefs)
        .map(|_| {
            let mut bins = IndexMap::new();
            let mut ix = BinnedIndex::default();
            let mut ids = arb_bin_ids(rng, min_shift, depth);
            if fixed_point {
                ids.sort_unstable_by(|a, b| b.cmp(a)); // children (larger ids) get smaller offsets
            }
            for id in ids {
                bins.insert(id, Bin::new(arb_chunks(rng, &mut vg)));
                vg.next(rng);
                let keep = match entries {
                    Entries::All => true,
                    Entries::None => false,
                    Entries::Some => rng.bool(),
                    Entries::OnlyAncestors => id < first_leaf,
                    Entries::OnlyLeaves => id >= first_leaf,
                };
                if keep {
                    ix.insert(id, vp(vg.v()));
                }
            }
            ReferenceSequence::new(bins, ix, arb_metadata(rng))
        })
        .collect();
    let mut b = Index::<BinnedIndex>::builder().set_min_shift(min_shift).set_depth(depth).set_reference_sequences(refs);
    if let Some(h) = header {
        b = b.set_header(h);
    }
    if rng.chance(2, 3) {
        b = b.set_unplaced_unmapped_record_count(*rng.pick(&[0u64, 1, 7, u32::MAX as u64 + 1, u64::MAX]));
    }
    b.build()
}

pub fn arb_name(rng: &mut Rng, forbid: &[u8]) -> Vec<u8> {
    let len = match rng.below(6) {
        0 => 0,
        1 => 1,
        2 => rng.urange(2, 8),
        3 => rng.urange(8, 40),
        4 => rng.urange(200, 300),
        _ => rng.urange(1, 5),
    };
    let style = rng.below(4);
    (0..len)
        .map(|_| {
            loop {
                let b = match style {
                    0 => rng.below(256) as u8,
                    1 => *rng.pick(b"chrXY0123456789_.-|:"),
                    2 => *rng.pick(&[0xffu8, 0x80, 0xc3, 0xa9, b'\t', b'\n', b'\r', b' ', b'#', b'@', 1, 0x7f]),
                    _ => 0x21 + rng.below(0x5e) as u8,
                };
                if !forbid.contains(&b) {
                    break b;
                }
            }
        })
        .collect()
}

pub fn arb_header(rng: &mut Rng, nnames: usize, names_with_nul: bool) -> Header {
    let mut names = csi::binning_index::index::header::ReferenceSequenceNames::new();
    let mut k = 0;
    while names.len() < nnames {
        let mut nm = arb_name(rng, if names_with_nul { &[] } else { &[0] });
        if names_with_nul && names.is_empty() {
            nm.push(0);
            nm.push(b'x');
        }
        k += 1;
        if k > 10 * nnames + 10 {
            nm = format!("n{k}").into_bytes();
        }
        names.insert(BString::from(nm));
    }
    let b = match rng.below(6) {
        0 => csi::binning_index::index::header::Builder::vcf(),
        1 => csi::binning_index::index::header::Builder::sam(),
        2 => csi::binning_index::index::header::Builder::bed(),
        3 => csi::binning_index::index::header::Builder::gff(),
        _ => {
            let fmt = match rng.below(4) {
                0 => Format::Generic(CoordinateSystem::Gff),
                1 => Format::Generic(CoordinateSystem::Bed),
                2 => Format::Sam,
                _ => Format::Vcf,
            };
            let start = rng.below(12) as usize;
            let end = match fmt {
                Format::Generic(_) => {
                    // an end column different from the start column, or none (end == start means "none" in the file format)
                    if rng.bool() { Some(start + 1 + rng.below(5) as usize) } else { None }
                }
                _ => None,
            };
            Header::builder()
                .set_format(fmt)
                .set_reference_sequence_name_index(rng.below(12) as usize)
                .set_start_position_index(start)
                .set_end_position_index(end)
                .set_line_comment_prefix(rng.below(256) as u8)
                .set_line_skip_count(*rng.pick(&[0u32, 1, 5, 1000, i32::MAX as u32]))
        }
    };
    b.set_reference_sequence_names(names).build()
}

// ---------------------------------------------------------------------------------------------------
// probes and comparison

pub fn probes(rng: &mut Rng, min_shift: u8, depth: u8, bins_present: &[usize]) -> Vec<Interval> {
    let n = positions(min_shift, depth);
    let last = n - 1; // largest position `query` accepts
    let mut v: Vec<Interval> = vec![(..).into(), (pos(1)..=pos(1)).into(), (pos(last)..=pos(last)).into(), (pos(1)..=pos(last)).into()];
    for j in 0..=depth as usize {
        let span = 1usize << (min_shift as usize + 3 * j);
        let k = rng.below((n / span) as u64).max(1) as usize;
        let b = (k * span).min(last - 1).max(2);
        v.push((pos(b - 1)..=pos(b)).into());
        v.push((pos(b)..=pos(b + 1)).into());
        v.push((pos(b + 1)..=pos((b + span).min(last))).into());
        v.push((pos(b + 1)..).into());
        v.push((..=pos(b)).into());
        v.push((pos(b)..=pos(b)).into());
    }
    for &id in bins_present.iter().take(12) {
        let (_, b0, b1) = bin_interval(id, min_shift, depth);
        let s = (b0 + 1).min(last);
        let e = b1.min(last);
        v.push((pos(s)..=pos(e)).into());
        v.push((pos(s)..=pos(s)).into());
        v.push((pos(e)..=pos(e)).into());
        if e < last {
            v.push((pos(e + 1)..=pos(e + 1)).into());
        }
        let mid = s + (e - s) / 2;
        v.push((pos(mid)..=pos(mid)).into());
        v.push((pos(mid)..).into());
    }
    for _ in 0..16 {
        let a = biased_pos(rng, min_shift, depth, last);
        let b = biased_pos(rng, min_shift, depth, last);
        v.push((pos(a.min(b))..=pos(a.max(b))).into());
    }
    v
}

#[derive(Default)]
pub struct Cmp {
    /// (diagnostic class, description) — structural differences the statement does not tolerate
    pub hard: Vec<(String, String)>,
    /// probe queries answered differently
    pub answers: Vec<String>,
    /// probe queries whose answer after the round trip no longer covers a chunk of the answer before
    pub lost: Vec<String>,
    pub probes: u64,
    pub equal: bool,
    pub index_part_equal: bool,
}

pub fn compare<I>(a: &Index<I>, b: &Index<I>, rng: &mut Rng) -> Cmp
where
    I: csi::binning_index::index::reference_sequence::Index + PartialEq + std::fmt::Debug,
{
    let mut c = Cmp { equal: a == b, index_part_equal: true, ..Default::default() };
    if a.min_shift() != b.min_shift() || a.depth() != b.depth() {
        c.hard.push(("geometry-changed".into(), format!("(min_shift, depth) {:?} -> {:?}", (a.min_shift(), a.depth()), (b.min_shift(), b.depth()))));
        return c;
    }
    if a.header() != b.header() {
        let (ha, hb) = (a.header(), b.header());
        let class = match (ha, hb) {
            (Some(x), Some(y)) if x.reference_sequence_names() != y.reference_sequence_names() => "header-names-changed",
            (Some(_), Some(_)) => "header-fields-changed",
            _ => "header-presence-changed",
        };
        c.hard.push((class.into(), format!("header {ha:?} -> {hb:?}")));
    }
    if a.unplaced_unmapped_record_count() != b.unplaced_unmapped_record_count() {
        c.hard.push(("unplaced-unmapped-count-changed".into(), format!("{:?} -> {:?}", a.unplaced_unmapped_record_count(), b.unplaced_unmapped_record_count())));
    }
    let (ra, rb) = (a.reference_sequences(), b.reference_sequences());
    if ra.len() != rb.len() {
        c.hard.push(("reference-sequence-count-changed".into(), format!("{} -> {}", ra.len(), rb.len())));
        return c;
    }
    for (i, (x, y)) in ra.iter().zip(rb).enumerate() {
        if x.metadata() != y.metadata() {
            let class = match (x.metadata(), y.metadata()) {
                (Some(_), None) => "metadata-pseudo-bin-lost",
                (None, Some(_)) => "metadata-pseudo-bin-appeared",
                _ => "metadata-pseudo-bin-changed",
            };
            c.hard.push((class.into(), format!("reference {i}: metadata {:?} -> {:?}", x.metadata(), y.metadata())));
        }
        if x.bins() != y.bins() {
            let lost: Vec<_> = x.bins().keys().filter(|k| !y.bins().contains_key(*k)).collect();
            let new: Vec<_> = y.bins().keys().filter(|k| !x.bins().contains_key(*k)).collect();
            let class = if !lost.is_empty() {
                "bin-lost"
            } else if !new.is_empty() {
                "bin-appeared"
            } else {
                "bin-chunks-changed"
            };
            let changed: Vec<_> = x.bins().iter().filter(|(k, v)| y.bins().get(*k).is_some_and(|w| w != *v)).map(|(k, _)| k).take(4).collect();
            c.hard.push((class.into(), format!("reference {i}: bins lost {lost:?}, appeared {new:?}, chunk lists changed in {changed:?}")));
        }
        if x.index() != y.index() {
            c.index_part_equal = false;
        }
    }
    // probe queries
    let la = guard::catch(|| a.last_first_record_start_position());
    let lb = guard::catch(|| b.last_first_record_start_position());
    c.probes += 1;
    match (la, lb) {
        (Ok(x), Ok(y)) if x == y => {}
        (Ok(x), Ok(y)) => c.answers.push(format!("last_first_record_start_position: {:?} -> {:?}", x.map(u64::from), y.map(u64::from))),
        (x, y) => c.answers.push(format!("last_first_record_start_position panicked: before={:?} after={:?}", x.err().map(|p| p.sig), y.err().map(|p| p.sig))),
    }
    let nref = ra.len();
    let probe_refs: Vec<usize> = if nref <= 5 { (0..nref).collect() } else { vec![0, 1, nref / 2, nref - 2, nref - 1] };
    for &r in &probe_refs {
        let present: Vec<usize> = ra[r].bins().keys().copied().collect();
        for iv in probes(rng, a.min_shift(), a.depth(), &present) {
            let qa = guard::catch(|| a.query(r, iv));
            let qb = guard::catch(|| b.query(r, iv));
            c.probes += 1;
            match (qa, qb) {
                (Ok(Ok(x)), Ok(Ok(y))) => {
                    // both lists are merged (sorted, non-abutting), so a chunk of the old answer is still covered iff one
                    // chunk of the new answer contains it
                    if let Some(k) = x.iter().find(|k| k.start() < k.end() && !y.iter().any(|m| m.start() <= k.start() && k.end() <= m.end())) {
                        let f = |v: &Vec<Chunk>| v.iter().map(|k| (u64::from(k.start()), u64::from(k.end()))).collect::<Vec<_>>();
                        if c.lost.len() < 4 {
                            c.lost.push(format!(
                                "query(ref {r}, {iv}): chunk {:?} of the answer {:?} is not covered by the answer after the round trip {:?}",
                                (u64::from(k.start()), u64::from(k.end())),
                                f(&x),
                                f(&y)
                            ));
                        }
                    }
                    if x != y && c.answers.len() < 6 {
                        let f = |v: &Vec<Chunk>| v.iter().map(|k| (u64::from(k.start()), u64::from(k.end()))).collect::<Vec<_>>();
                        c.answers.push(format!("query(ref {r}, {iv}): {:?} -> {:?}", f(&x), f(&y)));
                    } else if x != y {
                        c.answers.push(String::new());
                    }
                }
                (Ok(Err(_)), Ok(Err(_))) => {}
                (Ok(x), Ok(y)) => c.answers.push(format!("query(ref {r}, {iv}): {:?} -> {:?}", x.map(|v| v.len()).map_err(|e| e.to_string()), y.map(|v| v.len()).map_err(|e| e.to_string()))),
                (x, y) => c.answers.push(format!("query(ref {r}, {iv}) panicked: before={:?} after={:?}", x.err().map(|p| p.sig), y.err().map(|p| p.sig))),
            }
        }
    }
    // a reference id beyond the index: both must refuse
    let qa = guard::catch(|| a.query(nref, (..).into()).is_ok());
    let qb = guard::catch(|| b.query(nref, (..).into()).is_ok());
    if let (Ok(x), Ok(y)) = (qa, qb) {
        if x != y {
            c.answers.push(format!("query(ref {nref} = beyond the index): ok={x} -> ok={y}"));
        }
    }
    c
}

/// What the CSI writer does to the per-bin loffsets: the minimum over the bin and its *contiguous* chain
/// of existing ancestors (noodles-csi/src/io/writer/index/reference_sequences/bins.rs). Used only to
/// *classify* an observed difference, never to excuse one.
fn csi_written_loffsets(ix: &BinnedIndex, bins: &IndexMap<usize, Bin>) -> BinnedIndex {
    let mut out = BinnedIndex::default();
    for &id in bins.keys() {
        let mut m = ix.get(&id).copied().unwrap_or_default();
        let mut cur = id;
        while cur > 0 {
            let p = (cur - 1) / 8;
            match ix.get(&p) {
                Some(v) => {
                    if *v < m {
                        m = *v;
                    }
                    cur = p;
                }
                None => break,
            }
        }
        out.insert(id, m);
    }
    out
}

/// `Some(class)` iff the loffsets read back are exactly what the unchanged writer emits for `a`.
pub fn csi_loffset_diff_is_ancestor_minimum(a: &Index<BinnedIndex>, b: &Index<BinnedIndex>) -> Option<&'static str> {
    let modelled = a.reference_sequences().len() == b.reference_sequences().len()
        && a.reference_sequences().iter().zip(b.reference_sequences()).all(|(x, y)| &csi_written_loffsets(x.index(), x.bins()) == y.index());
    if !modelled {
        return None;
    }
    let all_bins_have_entries = a.reference_sequences().iter().all(|x| x.bins().keys().all(|k| x.index().contains_key(k)));
    Some(if all_bins_have_entries { "loffset-rewritten-as-minimum-over-ancestor-chain" } else { "bin-without-loffset-entry-written-as-0-or-ancestor-minimum" })
}

// ---------------------------------------------------------------------------------------------------
// write + read, in memory or through the fs functions

pub enum Io<T> {
    Ok(T),
    WriteErr(String),
    ReadErr(String),
    Panic(String, String),
}

fn io_guard<T>(what: &str, f: impl FnOnce() -> Result<T, (bool, io::Error)>) -> Io<T> {
    match guard::catch(f) {
        Ok(Ok(v)) => Io::Ok(v),
        Ok(Err((true, e))) => Io::WriteErr(e.to_string()),
        Ok(Err((false, e))) => Io::ReadErr(format!("{e}{}", e.get_ref().and_then(|s| s.source()).map(|s| format!(": {s}")).unwrap_or_default())),
        Err(p) => Io::Panic(p.sig, format!("{what} panicked: {}", p.message)),
    }
}

pub fn rt_bai(ix: &bai::Index, file: Option<&Path>) -> Io<bai::Index> {
    io_guard("BAI write/read", || match file {
        Some(p) => {
            bai::fs::write(p, ix).map_err(|e| (true, e))?;
            bai::fs::read(p).map_err(|e| (false, e))
        }
        None => {
            let mut w = bai::io::Writer::new(Vec::new());
            w.write_index(ix).map_err(|e| (true, e))?;
            let buf = w.into_inner();
            bai::io::Reader::new(&buf[..]).read_index().map_err(|e| (false, e))
        }
    })
}

pub fn rt_tabix(ix: &tabix::Index, file: Option<&Path>) -> Io<tabix::Index> {
    io_guard("tabix write/read", || match file {
        Some(p) => {
            tabix::fs::write(p, ix).map_err(|e| (true, e))?;
            tabix::fs::read(p).map_err(|e| (false, e))
        }
        None => {
            let mut w = tabix::io::Writer::new(Vec::new());
            w.write_index(ix).map_err(|e| (true, e))?;
            let buf = w.into_inner().finish().map_err(|e| (true, e))?;
            tabix::io::Reader::new(&buf[..]).read_index().map_err(|e| (false, e))
        }
    })
}

pub fn rt_csi(ix: &csi::Index, file: Option<&Path>) -> Io<csi::Index> {
    io_guard("CSI write/read", || match file {
        Some(p) => {
            csi::fs::write(p, ix).map_err(|e| (true, e))?;
            csi::fs::read(p).map_err(|e| (false, e))
        }
        None => {
            let mut w = csi::io::Writer::new(Vec::new());
            w.write_index(ix).map_err(|e| (true, e))?;
            let buf = w.into_inner().finish().map_err(|e| (true, e))?;
            csi::io::Reader::new(&buf[..]).read_index().map_err(|e| (false, e))
        }
    })
}

pub fn rt_gzi(ix: &gzi::Index, file: Option<&Path>) -> Io<gzi::Index> {
    io_guard("gzi write/read", || match file {
        Some(p) => {
            gzi::fs::write(p, ix).map_err(|e| (true, e))?;
            gzi::fs::read(p).map_err(|e| (false, e))
        }
        None => {
            let mut w = gzi::io::Writer::new(Vec::new());
            w.write_index(ix).map_err(|e| (true, e))?;
            let buf = w.into_inner();
            gzi::io::Reader::new(&buf[..]).read_index().map_err(|e| (false, e))
        }
    })
}

pub fn rt_fai(ix: &fai::Index, file: Option<&Path>) -> Io<fai::Index> {
    io_guard("fai write/read", || match file {
        Some(p) => {
            fai::fs::write(p, ix).map_err(|e| (true, e))?;
            fai::fs::read(p).map_err(|e| (false, e))
        }
        None => {
            let mut w = fai::io::Writer::new(Vec::new());
            w.write_index(ix).map_err(|e| (true, e))?;
            let buf = w.into_inner();
            fai::io::Reader::new(&buf[..]).read_index().map_err(|e| (false, e))
        }
    })
}

pub fn rt_crai(ix: &crai::Index, file: Option<&Path>) -> Io<crai::Index> {
    io_guard("crai write/read", || match file {
        Some(p) => {
            crai::fs::write(p, ix).map_err(|e| (true, e))?;
            crai::fs::read(p).map_err(|e| (false, e))
        }
        None => {
            let mut w = crai::io::Writer::new(Vec::new());
            w.write_index(ix).map_err(|e| (true, e))?;
            let buf = w.finish().map_err(|e| (true, e))?;
            crai::io::Reader::new(&buf[..]).read_index().map_err(|e| (false, e))
        }
    })
}

// ---------------------------------------------------------------------------------------------------
// judging one binning-index round trip

pub struct Judged {
    pub equal: bool,
}

pub type Explain<'a, I> = Option<&'a dyn Fn(&Index<I>, &Index<I>) -> Option<&'static str>>;
pub type Again<'a, I> = &'a dyn Fn(&Index<I>) -> Io<Index<I>>;

/// `kind` = "bai" | "tabix" | "csi"; `src` = "indexer" | "arbitrary" | "fs-index".
/// `again` writes+reads the index that was read back: the file form must be a fixed point (second round trip `==`).
pub fn judge_binning<I>(kind: &str, src: &str, a: &Index<I>, back: Io<Index<I>>, rng: &mut Rng, o: &mut CaseOut, csi_explain: Explain<I>, again: Again<I>) -> Option<Judged>
where
    I: csi::binning_index::index::reference_sequence::Index + PartialEq + std::fmt::Debug,
{
    let b = match back {
        Io::Ok(b) => b,
        Io::WriteErr(e) => {
            // writers may refuse a value; counted per reason
            o.count(&format!("writer_rejections[{kind}:{}]", vcore::guard::normalise_message(&e)), 1);
            return None;
        }
        Io::ReadErr(e) => {
            o.violation(
                format!("roundtrip:{kind}:own-output-unreadable:{}", vcore::guard::normalise_message(&e)),
                format!("{kind} index ({src}) was written without error but reading it back fails: {e}; index: {}", brief(a)),
            );
            return None;
        }
        Io::Panic(sig, msg) => {
            o.violation(format!("roundtrip:{kind}:panic:{sig}"), format!("{msg}; index ({src}): {}", brief(a)));
            return None;
        }
    };
    match again(&b) {
        Io::Ok(b2) => {
            if b2 != b {
                let c2 = compare(&b, &b2, rng);
                let class = if let Some(h) = c2.hard.first() {
                    h.0.clone()
                } else if !c2.lost.is_empty() {
                    "answer-lost-chunks".to_string()
                } else {
                    csi_explain.and_then(|f| f(&b, &b2)).unwrap_or("offset-index-changed").to_string()
                };
                let what = c2
                    .hard
                    .first()
                    .map(|h| h.1.clone())
                    .or_else(|| c2.lost.first().cloned())
                    .or_else(|| c2.answers.iter().find(|s| !s.is_empty()).cloned())
                    .unwrap_or_else(|| "offset index differs, all probe answers equal".into());
                o.violation(
                    format!("roundtrip:{kind}:second-round-trip-changes-index:{class}"),
                    format!(
                        "{kind} index ({src}): write+read of the index that was read back gives a different index ({} of {} probe answers differ): {what}; original index: {}",
                        c2.answers.len(),
                        c2.probes,
                        brief(a)
                    ),
                );
            } else {
                o.count(&format!("second_roundtrips_equal[{kind}]"), 1);
            }
        }
        Io::WriteErr(e) | Io::ReadErr(e) => {
            o.violation(format!("roundtrip:{kind}:second-round-trip-failed"), format!("{kind} index ({src}) read back from noodles' own output cannot be written+read again: {e}"))
        }
        Io::Panic(sig, msg) => o.violation(format!("roundtrip:{kind}:panic:{sig}"), format!("second round trip: {msg}")),
    }
    let c = compare(a, &b, rng);
    o.count(&format!("roundtrip_probe_queries[{kind}]"), c.probes);
    if c.equal {
        o.count(&format!("roundtrips_equal[{kind}]"), 1);
        if !c.answers.is_empty() {
            o.violation(format!("roundtrip:{kind}:equal-index-answers-differently"), format!("indexes compare equal but: {}", c.answers[0]));
        }
        return Some(Judged { equal: true });
    }
    for (class, desc) in &c.hard {
        o.violation(format!("roundtrip:{kind}:{class}"), format!("{kind} index ({src}) after write+read: {desc}"));
    }
    if c.hard.is_empty() {
        // only the per-reference offset index (linear index / per-bin loffsets) differs
        let explained_class = csi_explain.and_then(|f| f(a, &b));
        let explained = explained_class.is_some();
        if !c.lost.is_empty() {
            // never tolerated, whatever the writer is modelled to do: ranges the original index returned are gone
            o.violation(
                format!("roundtrip:{kind}:query-answers-changed:answer-lost-chunks"),
                format!("{kind} index ({src}) after write+read (bins, metadata, header, counts unchanged): {}; index: {}", c.lost[0], brief(a)),
            );
        } else if c.answers.is_empty() {
            o.count(&format!("roundtrips_unequal_but_all_probe_answers_equal[{kind}]"), 1);
            if !explained {
                // equality is not required when all answers agree; keep the observation
                o.count(&format!("roundtrips_offset_index_changed_unexplained_same_answers[{kind}]"), 1);
            }
        } else {
            let n = c.answers.len();
            let first = c.answers.iter().find(|s| !s.is_empty()).cloned().unwrap_or_default();
            let class = if let Some(cl) = explained_class {
                cl
            } else if kind == "csi" {
                "loffsets-changed"
            } else {
                "linear-index-changed"
            };
            o.violation(
                format!("roundtrip:{kind}:query-answers-changed:{class}"),
                format!(
                    "{kind} index ({src}) answers {n} of {} probe queries differently after write+read (bins, metadata, header, counts unchanged; offset index {}): {first}; index: {}",
                    c.probes,
                    if explained { "= per-bin minimum over the bin's own entry (0 if it has none) and its contiguous chain of ancestors with entries, as written by write_bins/first_record_start_position; every answer after the round trip covers the answer before" } else { "changed" },
                    brief(a)
                ),
            );
        }
    }
    Some(Judged { equal: false })
}

pub fn brief<I: std::fmt::Debug>(a: &Index<I>) -> String {
    let s = format!("{a:?}");
    if s.len() > 1800 { format!("{}…", &s[..1800]) } else { s }
}

// ---------------------------------------------------------------------------------------------------
// flat indexes

pub fn arb_gzi(rng: &mut Rng) -> gzi::Index {
    let k = match rng.below(4) {
        0 => 0,
        1 => 1,
        _ => rng.urange(2, 200),
    };
    let mut c = 0u64;
    let mut u = 0u64;
    let free = rng.chance(1, 4);
    gzi::Index::from(
        (0..k)
            .map(|_| {
                if free {
                    (rng.next_u64() >> rng.below(64), rng.next_u64() >> rng.below(64))
                } else {
                    c += 28 + rng.below(65000);
                    u += 1 + rng.below(65280);
                    (c, u)
                }
            })
            .collect::<Vec<_>>(),
    )
}

pub fn judge_gzi(a: &gzi::Index, back: Io<gzi::Index>, rng: &mut Rng, o: &mut CaseOut) {
    match back {
        Io::Ok(b) => {
            if &b != a {
                o.violation("roundtrip:gzi:index-changed", format!("gzi {:?} -> {:?}", &a.as_ref()[..a.as_ref().len().min(6)], &b.as_ref()[..b.as_ref().len().min(6)]));
                return;
            }
            o.count("roundtrips_equal[gzi]", 1);
            // probe queries (trivially equal for equal indexes, but `query` is the observable the statement names)
            let top = a.as_ref().last().map(|e| e.1).unwrap_or(0);
            for _ in 0..16 {
                let p = if top == 0 { rng.below(70000) } else { rng.below(top.saturating_add(70000).max(1)) };
                let qa = guard::catch(|| a.query(p).map(u64::from).map_err(|e| e.kind()));
                let qb = guard::catch(|| b.query(p).map(u64::from).map_err(|e| e.kind()));
                o.count("roundtrip_probe_queries[gzi]", 1);
                match (qa, qb) {
                    (Ok(x), Ok(y)) if x == y => {}
                    (Ok(x), Ok(y)) => o.violation("roundtrip:gzi:query-answer-changed", format!("query({p}): {x:?} -> {y:?}")),
                    _ => {} // a panic in gzi::Index::query on free-form pairs belongs to C02/C15
                }
            }
        }
        Io::WriteErr(e) => o.count(&format!("writer_rejections[gzi:{}]", guard::normalise_message(&e)), 1),
        Io::ReadErr(e) => o.violation(format!("roundtrip:gzi:own-output-unreadable:{}", guard::normalise_message(&e)), format!("gzi index with {} entries cannot be read back: {e}", a.as_ref().len())),
        Io::Panic(sig, msg) => o.violation(format!("roundtrip:gzi:panic:{sig}"), msg),
    }
}

/// Names a FASTA definition line can carry into an index (`fasta::io::Indexer`): non-empty, no ASCII
/// whitespace; everything else — including bytes >= 0x80 — is taken verbatim.
pub fn arb_fai(rng: &mut Rng, utf8_only: bool) -> fai::Index {
    let k = match rng.below(4) {
        0 => 0,
        1 => 1,
        _ => rng.urange(2, 40),
    };
    let big = |rng: &mut Rng| match rng.below(5) {
        0 => 0,
        1 => rng.below(200),
        2 => rng.below(1 << 32),
        3 => u64::MAX - rng.below(2),
        _ => rng.next_u64(),
    };
    fai::Index::from(
        (0..k)
            .map(|i| {
                let mut name = arb_name(rng, b"\t\n\x0c\r ");
                if utf8_only {
                    name = String::from_utf8_lossy(&name).replace('\u{fffd}', "é").into_bytes();
                    name.retain(|b| !b" \t\n\r\x0c".contains(b));
                }
                if name.is_empty() {
                    name = format!("s{i}").into_bytes();
                }
                let lb = NonZero::new(big(rng).max(1)).unwrap();
                let lw = NonZero::new(big(rng).max(1)).unwrap();
                fai::Record::new(name, big(rng), big(rng), lb, lw)
            })
            .collect::<Vec<_>>(),
    )
}

pub fn judge_fai(src: &str, a: &fai::Index, back: Io<fai::Index>, o: &mut CaseOut) {
    let non_utf8 = a.as_ref().iter().any(|r| std::str::from_utf8(r.name()).is_err());
    match back {
        Io::Ok(b) => {
            if &b != a {
                let i = a.as_ref().iter().zip(b.as_ref()).position(|(x, y)| x != y);
                let what = match i {
                    Some(i) => format!("record {i}: {:?} -> {:?}", a.as_ref()[i], b.as_ref()[i]),
                    None => format!("{} records -> {}", a.as_ref().len(), b.as_ref().len()),
                };
                o.violation("roundtrip:fai:index-changed", format!("fai index ({src}) after write+read: {what}"));
            } else {
                o.count("roundtrips_equal[fai]", 1);
            }
        }
        Io::WriteErr(e) => o.count(&format!("writer_rejections[fai:{}]", guard::normalise_message(&e)), 1),
        Io::ReadErr(e) => {
            let class = if non_utf8 { "non-utf8-name" } else { "utf8-names" };
            let bad = a.as_ref().iter().find(|r| std::str::from_utf8(r.name()).is_err()).map(|r| format!("{:?}", r.name())).unwrap_or_default();
            o.violation(
                format!("roundtrip:fai:own-output-unreadable:{class}"),
                format!("fai index ({src}, {} records) is written without error but fai::io::Reader fails on it: {e}; offending name {bad}", a.as_ref().len()),
            );
        }
        Io::Panic(sig, msg) => o.violation(format!("roundtrip:fai:panic:{sig}"), msg),
    }
}

pub fn arb_crai(rng: &mut Rng) -> crai::Index {
    let k = match rng.below(5) {
        0 => 0,
        1 => 1,
        2 => 2,
        _ => rng.urange(3, 60),
    };
    let big = |rng: &mut Rng| match rng.below(5) {
        0 => 0,
        1 => rng.below(200),
        2 => rng.below(1 << 32),
        3 => u64::MAX - rng.below(2),
        _ => rng.next_u64(),
    };
    (0..k)
        .map(|_| {
            let rid = match rng.below(5) {
                0 => None,
                1 => Some(0),
                2 => Some(i32::MAX as usize),
                _ => Some(rng.below(100) as usize),
            };
            let start = match rng.below(4) {
                0 => None,
                1 => Position::new(1),
                _ => Position::new(1 + rng.skewed(1 << 40) as usize),
            };
            crai::Record::new(rid, start, big(rng) as usize, big(rng), big(rng), big(rng))
        })
        .collect()
}

pub fn judge_crai(src: &str, a: &crai::Index, back: Io<crai::Index>, o: &mut CaseOut) {
    match back {
        Io::Ok(b) => {
            if &b != a {
                let i = a.iter().zip(&b).position(|(x, y)| x != y);
                let what = match i {
                    Some(i) => format!("record {i}: {:?} -> {:?}", a[i], b[i]),
                    None => format!("{} records -> {}", a.len(), b.len()),
                };
                o.violation("roundtrip:crai:index-changed", format!("crai index ({src}) after write+read: {what}"));
            } else {
                o.count("roundtrips_equal[crai]", 1);
            }
        }
        Io::WriteErr(e) => o.count(&format!("writer_rejections[crai:{}]", guard::normalise_message(&e)), 1),
        Io::ReadErr(e) => o.violation(
            format!(
                "roundtrip:crai:own-output-unreadable:records={}",
                match a.len() {
                    0 => "0",
                    1 => "1",
                    _ => "many",
                }
            ),
            format!("crai index ({src}, {} records) is written without error but crai::io::Reader::read_index fails on it: {e}; first records {:?}", a.len(), &a[..a.len().min(3)]),
        ),
        Io::Panic(sig, msg) => o.violation(format!("roundtrip:crai:panic:{sig}"), msg),
    }
}

pub fn fp(kind: &str, src: &str, shape: &str, extra: &str) -> u64 {
    fnv1a(format!("rt|{kind}|{src}|{shape}|{extra}").as_bytes())
}
