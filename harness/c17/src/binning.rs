//! C17 (a) — binning soundness, evaluated through the public API only.
//!
//! * feature bin  = key of the single bin that `csi::binning_index::Indexer::add_record` creates for a
//!   record `[fs, fe]` (the record is identified by a unique chunk, so a batch of records can be pushed
//!   through one indexer);
//! * region bins  = bins returned by `ReferenceSequence::query(min_shift, depth, rs..=re)` on a reference
//!   sequence that holds *every* bin id of the geometry, each with a unique chunk.
//!
//! Statement decided: for all F, R with F ∩ R ≠ ∅: bin(F) ∈ bins(R).
//!
//! Exhaustive decision without enumerating pairs (exact, not approximate): for a geometry with N =
//! 2^(min_shift+3·depth) positions let S_b = { F : bin(F) = b } (observed for *all* N(N+1)/2 features) and
//! M_b[x] = max { fe : [fs,fe] ∈ S_b, fs ≤ x } (0 if empty). A feature [fs,fe] intersects R = [rs,re] iff
//! fs ≤ re ∧ fe ≥ rs; hence "some feature of bin b intersects R" ⇔ M_b[re] ≥ rs (⇐: the maximiser has
//! fs ≤ re and fe ≥ rs; ⇒: any intersecting feature is in the set the maximum ranges over). The statement
//! holds for R iff for every bin b ∉ bins(R): M_b[re] < rs. All N(N-1)/2-ish regions are queried through the
//! API, every bin not returned is looked up: |R| · |bins| comparisons instead of |R| · |F|.

use std::{
    collections::HashMap,
    sync::{Arc, Mutex, OnceLock},
};

use indexmap::IndexMap;
use noodles_bgzf as bgzf;
use noodles_core::{Position, region::Interval};
use noodles_csi::binning_index::{
    Indexer,
    index::{
        ReferenceSequence,
        reference_sequence::{Bin, bin::Chunk, index::BinnedIndex},
    },
};
use vcore::{CaseOut, Rng, guard, rng::fnv1a};

pub fn vp(n: u64) -> bgzf::VirtualPosition {
    bgzf::VirtualPosition::from(n)
}

pub fn pos(n: usize) -> Position {
    Position::new(n).expect("position >= 1")
}

pub fn positions(min_shift: u8, depth: u8) -> usize {
    1usize << (min_shift as usize + 3 * depth as usize)
}

/// Number of bin ids of a geometry, from the CSI specification ((8^(depth+1) - 1) / 7), not from noodles.
pub fn bin_count(depth: u8) -> usize {
    ((1usize << (3 * (depth as usize + 1))) - 1) / 7
}

/// Level and 0-based half-open interval of a bin id (CSI specification): level l holds 8^l bins, the first
/// has id (8^l - 1)/7, each spans 2^(min_shift + 3(depth-l)) positions.
pub fn bin_interval(id: usize, min_shift: u8, depth: u8) -> (u8, usize, usize) {
    let mut l = 0u8;
    loop {
        let first = ((1usize << (3 * l as usize)) - 1) / 7;
        let next = ((1usize << (3 * (l as usize + 1))) - 1) / 7;
        if id < next {
            let span = 1usize << (min_shift as usize + 3 * (depth - l) as usize);
            let o = id - first;
            return (l, o * span, (o + 1) * span);
        }
        l += 1;
        assert!(l <= depth, "bin id {id} outside geometry");
    }
}

/// Bins of a batch of features, observed through `Indexer::add_record` + `build`.
/// Returns `Err((sig, desc))` when the indexer does not create exactly one bin entry per feature.
pub fn feature_bins(min_shift: u8, depth: u8, feats: &[(usize, usize)]) -> Result<Vec<usize>, (String, String)> {
    let r = guard::catch(|| -> Result<Vec<usize>, (String, String)> {
        let mut ix = Indexer::<BinnedIndex>::new(min_shift, depth);
        for (k, &(s, e)) in feats.iter().enumerate() {
            // chunks [3k, 3k+1): never adjacent, so Bin::add_chunk cannot merge two features
            let c = Chunk::new(vp(3 * k as u64), vp(3 * k as u64 + 1));
            ix.add_record(Some((0, pos(s), pos(e), true)), c).map_err(|e2| ("feature-bin:add-record-rejected".to_string(), format!("add_record([{s},{e}]) failed: {e2}")))?;
        }
        let index = ix.build(1);
        let rs = &index.reference_sequences()[0];
        let mut out = vec![usize::MAX; feats.len()];
        for (&id, bin) in rs.bins() {
            for c in bin.chunks() {
                let st = u64::from(c.start());
                let en = u64::from(c.end());
                if st % 3 != 0 || en != st + 1 || (st / 3) as usize >= feats.len() {
                    return Err(("feature-bin:chunk-altered".into(), format!("bin {id} holds chunk {st}..{en}, which is not one of the unique chunks pushed")));
                }
                let k = (st / 3) as usize;
                if out[k] != usize::MAX {
                    return Err(("feature-bin:feature-in-two-bins".into(), format!("feature [{},{}] at ({min_shift},{depth}) appears in bins {} and {id}", feats[k].0, feats[k].1, out[k])));
                }
                out[k] = id;
            }
        }
        if let Some(k) = out.iter().position(|&b| b == usize::MAX) {
            return Err((
                "feature-bin:feature-in-no-bin".into(),
                format!("feature [{},{}] at ({min_shift},{depth}) was accepted by add_record but is in no bin of the built index", feats[k].0, feats[k].1),
            ));
        }
        Ok(out)
    });
    match r {
        Ok(x) => x,
        Err(p) => Err((format!("panic:{}", p.sig), format!("Indexer::add_record/build panicked at ({min_shift},{depth}): {}", p.message))),
    }
}

/// A reference sequence holding every bin id of the geometry; bin `id` carries the chunk [2id+1, 2id+2).
pub fn full_reference(depth: u8) -> ReferenceSequence<BinnedIndex> {
    let n = bin_count(depth);
    let mut bins: IndexMap<usize, Bin> = IndexMap::with_capacity(n);
    for id in 0..n {
        bins.insert(id, Bin::new(vec![Chunk::new(vp(2 * id as u64 + 1), vp(2 * id as u64 + 2))]));
    }
    ReferenceSequence::new(bins, BinnedIndex::default(), None)
}

/// Region bins through `ReferenceSequence::query`; `None` = the call returned `Err` (region not accepted).
pub fn region_bins(full: &ReferenceSequence<BinnedIndex>, min_shift: u8, depth: u8, iv: Interval, out: &mut Vec<usize>) -> Result<bool, (String, String)> {
    out.clear();
    let r = guard::catch(|| full.query(min_shift, depth, iv).map(|bins| bins.iter().map(|b| b.chunks()[0]).collect::<Vec<_>>()));
    match r {
        Err(p) => Err((format!("panic:{}", p.sig), format!("ReferenceSequence::query({iv}) at ({min_shift},{depth}) panicked: {}", p.message))),
        Ok(Err(_)) => Ok(false),
        Ok(Ok(chunks)) => {
            for c in chunks {
                out.push(((u64::from(c.start()) - 1) / 2) as usize);
            }
            Ok(true)
        }
    }
}

pub struct Table {
    pub n: usize,
    pub nbins: usize,
    /// m[b * (n+1) + x] = max fe over features of bin b with fs <= x (0 = none)
    pub m: Vec<u32>,
    pub features: u64,
    pub bins_used: usize,
}

type TableResult = Result<Arc<Table>, (String, String)>;

/// S_b / M_b of a geometry, built once per process from *all* features through the indexer.
pub fn table(min_shift: u8, depth: u8) -> TableResult {
    static CACHE: OnceLock<Mutex<HashMap<(u8, u8), TableResult>>> = OnceLock::new();
    let cache = CACHE.get_or_init(|| Mutex::new(HashMap::new()));
    if let Some(t) = cache.lock().unwrap().get(&(min_shift, depth)) {
        return t.clone();
    }
    let t = build_table(min_shift, depth);
    cache.lock().unwrap().insert((min_shift, depth), t.clone());
    t
}

fn build_table(min_shift: u8, depth: u8) -> TableResult {
    let n = positions(min_shift, depth);
    let nbins = bin_count(depth);
    let w = n + 1;
    // first: m[b][fs] = max fe over features of bin b starting exactly at fs
    let mut m = vec![0u32; nbins * w];
    let mut features = 0u64;
    let mut feats: Vec<(usize, usize)> = Vec::with_capacity(1 << 16);
    let mut fs = 1usize;
    while fs <= n {
        feats.clear();
        // batch of start positions (about 64k features per indexer)
        let mut s = fs;
        while s <= n && (feats.len() < (1 << 16) || s == fs) {
            for e in s..=n {
                feats.push((s, e));
            }
            s += 1;
        }
        let bins = feature_bins(min_shift, depth, &feats)?;
        for (k, &(s0, e0)) in feats.iter().enumerate() {
            let b = bins[k];
            if b >= nbins {
                return Err(("feature-bin:id-outside-geometry".into(), format!("feature [{s0},{e0}] at ({min_shift},{depth}) got bin {b}, the geometry has ids 0..{nbins}")));
            }
            let cell = &mut m[b * w + s0];
            *cell = (*cell).max(e0 as u32);
        }
        features += feats.len() as u64;
        fs = s;
    }
    // prefix maxima over the start coordinate
    let mut bins_used = 0;
    for b in 0..nbins {
        let row = &mut m[b * w..(b + 1) * w];
        let mut best = 0u32;
        for x in row.iter_mut() {
            best = best.max(*x);
            *x = best;
        }
        if best > 0 {
            bins_used += 1;
        }
    }
    Ok(Arc::new(Table { n, nbins, m, features, bins_used }))
}

/// Smallest level (counted from the leaves = 0) whose single bin contains [s,e]; my own arithmetic, only
/// used to classify cases for the distinct count.
fn span_class(s: usize, e: usize, min_shift: u8, depth: u8) -> u8 {
    let (b, e0) = (s - 1, e - 1);
    let mut sh = min_shift as usize;
    for l in 0..depth {
        if b >> sh == e0 >> sh {
            return l;
        }
        sh += 3;
    }
    depth
}

fn find_witness(min_shift: u8, depth: u8, n: usize, bin: usize, rs: usize, re: usize) -> String {
    // re-derive a concrete feature of `bin` intersecting [rs,re] (small geometries only)
    for fs in 1..=re.min(n) {
        let feats: Vec<(usize, usize)> = (fs.max(rs)..=n).map(|e| (fs, e)).collect();
        if let Ok(bins) = feature_bins(min_shift, depth, &feats) {
            if let Some(k) = bins.iter().position(|&b| b == bin) {
                return format!("[{},{}]", feats[k].0, feats[k].1);
            }
        }
    }
    "?".into()
}

/// Exhaustive block: all regions [rs, re] with rs in lo..hi, in every interval form that denotes them
/// (`rs..=re`; `rs..`; for rs = 1 also `..=re` and `..`).
pub fn run_exhaustive(min_shift: u8, depth: u8, lo: usize, hi: usize, o: &mut CaseOut) {
    let t = match table(min_shift, depth) {
        Ok(t) => t,
        Err((sig, desc)) => {
            o.violation(format!("binning:{sig}"), desc);
            return;
        }
    };
    let n = t.n;
    let w = n + 1;
    let full = full_reference(depth);
    let mut got: Vec<usize> = Vec::new();
    let mut in_r = vec![false; t.nbins];
    let mut regions = 0u64;
    let mut rejected = 0u64;
    let mut pairs = 0u128;
    let mut lookups = 0u64;
    let tri = |k: usize| (k as u128) * (k as u128 + 1) / 2;
    let mut fps: Vec<u64> = Vec::new();
    let mut violations = 0;
    for rs in lo..hi.min(n + 1) {
        // bounded regions rs..=re, re up to n (n itself is expected to be refused: max position is n-1),
        // then the form rs.. (unbounded end), judged against [rs, n].
        for re0 in rs..=n + 1 {
            // interval forms that denote [rs, re]: bounded; `rs..` for re = n; for rs = 1 also `..=re` and `..`
            let mut forms: Vec<(Interval, usize, bool)> = Vec::with_capacity(2);
            if re0 <= n {
                forms.push(((pos(rs)..=pos(re0)).into(), re0, false));
                if rs == 1 {
                    forms.push(((..=pos(re0)).into(), re0, false));
                }
            } else {
                forms.push(((pos(rs)..).into(), n, true));
                if rs == 1 {
                    forms.push(((..).into(), n, true));
                }
            }
            for (iv, re_eff, unbounded) in forms {
                let re = if unbounded { n + 1 } else { re_eff };
                match region_bins(&full, min_shift, depth, iv, &mut got) {
                    Err((sig, desc)) => {
                        if violations < 3 {
                            o.violation(format!("binning:{sig}"), desc);
                        }
                        violations += 1;
                        continue;
                    }
                    Ok(false) => {
                        rejected += 1;
                        continue;
                    }
                    Ok(true) => {}
                }
                regions += 1;
                for &b in &got {
                    if b < t.nbins {
                        in_r[b] = true;
                    }
                }
                for b in 0..t.nbins {
                    if !in_r[b] && t.m[b * w + re_eff] as usize >= rs {
                        violations += 1;
                        if violations <= 3 {
                            let (lvl, _, _) = bin_interval(b, min_shift, depth);
                            let f = find_witness(min_shift, depth, n, b, rs, re_eff);
                            o.violation(
                                format!("binning:feature-bin-not-among-region-bins:feature-bin-level={lvl}:unbounded-end={}", re > n),
                                format!(
                                    "geometry ({min_shift},{depth}): feature {f} is put into bin {b} by Indexer::add_record and intersects region {iv}, \
                                 but ReferenceSequence::query returns only bins {got:?}"
                                ),
                            );
                        }
                    }
                }
                lookups += (t.nbins - got.len()) as u64;
                for &b in &got {
                    if b < t.nbins {
                        in_r[b] = false;
                    }
                }
                // pairs (F,R) with F ∩ R ≠ ∅ decided for this R: all features minus those entirely left/right
                pairs += tri(n) - tri(rs - 1) - tri(n - re_eff);
                if re <= n {
                    fps.push(fnv1a(
                        format!("bin|{min_shift}|{depth}|{}|{}|{}|{}", span_class(rs, re, min_shift, depth), (rs - 1) % (1 << min_shift) == 0, re % (1 << min_shift) == 0, got.len()).as_bytes(),
                    ));
                }
            }
        }
        fps.sort_unstable();
        fps.dedup();
    }
    o.fps = fps;
    o.evaluations = regions.max(1);
    o.count("binning_exhaustive_regions_queried", regions);
    o.count("binning_exhaustive_regions_refused_by_query", rejected);
    o.count("binning_exhaustive_bin_lookups", lookups);
    o.count("binning_exhaustive_pairs_decided_millions", (pairs / 1_000_000) as u64);
    o.count(&format!("binning_exhaustive_pairs_decided[{min_shift},{depth}]"), pairs.min(u64::MAX as u128) as u64);
    o.count(&format!("binning_exhaustive_region_starts[{min_shift},{depth}]"), (hi.min(n + 1) - lo) as u64);
    if lo == 1 {
        o.count(&format!("binning_exhaustive_features_indexed[{min_shift},{depth}]"), t.features);
        o.count(&format!("binning_exhaustive_bins_used[{min_shift},{depth}]"), t.bins_used as u64);
    }
}

/// Boundary-biased position in 1..=n.
pub fn biased_pos(rng: &mut Rng, min_shift: u8, depth: u8, n: usize) -> usize {
    let p = match rng.below(10) {
        0 => 1 + rng.below(4) as i64,
        1 => n as i64 - rng.below(4) as i64,
        2 => rng.range(1, n as i64),
        _ => {
            // k * 2^(min_shift + 3j) + delta
            let j = rng.below(depth as u64 + 1) as usize;
            let span = 1i64 << (min_shift as usize + 3 * j);
            let k = rng.range(0, (n as i64) / span);
            k * span + rng.range(-2, 2)
        }
    };
    p.clamp(1, n as i64) as usize
}

/// Sampled block at a large geometry: `regions` regions, `per` intersecting features each.
pub fn run_sampled(min_shift: u8, depth: u8, seed: u64, regions: usize, per: usize, o: &mut CaseOut) {
    let n = positions(min_shift, depth);
    let nbins = bin_count(depth);
    let full = full_reference(depth);
    let mut rng = Rng::new(seed, 0x17A, ((min_shift as u64) << 8) | depth as u64);
    let mut got = Vec::new();
    let mut in_r = vec![false; nbins];
    let mut pairs = 0u64;
    let mut fps = Vec::new();
    let mut violations = 0;
    for _ in 0..regions {
        let a = biased_pos(&mut rng, min_shift, depth, n - 1);
        let b = match rng.below(4) {
            0 => a,
            1 => (a + rng.skewed(1 << min_shift) as usize).min(n - 1),
            _ => biased_pos(&mut rng, min_shift, depth, n - 1),
        };
        let (rs, re) = (a.min(b), a.max(b));
        let form = rng.below(8);
        let (iv, rs_eff, re_eff): (Interval, usize, usize) = match form {
            0 => ((pos(rs)..).into(), rs, n),
            1 => ((..=pos(re)).into(), 1, re),
            2 => ((..).into(), 1, n),
            _ => ((pos(rs)..=pos(re)).into(), rs, re),
        };
        match region_bins(&full, min_shift, depth, iv, &mut got) {
            Err((sig, desc)) => {
                o.violation(format!("binning:{sig}"), desc);
                continue;
            }
            Ok(false) => {
                o.count("binning_sampled_regions_refused_by_query", 1);
                continue;
            }
            Ok(true) => {}
        }
        for &b in &got {
            if b < nbins {
                in_r[b] = true;
            }
        }
        // features intersecting the region: anchor point inside R, biased extents
        let mut feats = Vec::with_capacity(per);
        for _ in 0..per {
            let p = match rng.below(4) {
                0 => rs_eff,
                1 => re_eff,
                _ => rng.range(rs_eff as i64, re_eff as i64) as usize,
            };
            let ext = |rng: &mut Rng| -> usize {
                match rng.below(6) {
                    0 => 0,
                    1 => rng.below(3) as usize,
                    2 => rng.skewed(1 << min_shift) as usize,
                    3 => {
                        let j = rng.below(depth as u64 + 1) as usize;
                        ((1usize << (min_shift as usize + 3 * j)) as i64 + rng.range(-2, 2)).max(0) as usize
                    }
                    4 => rng.skewed(n as u64) as usize,
                    _ => {
                        // extend exactly to a bin boundary of a random level (+-1)
                        let j = rng.below(depth as u64 + 1) as usize;
                        let span = 1usize << (min_shift as usize + 3 * j);
                        (p % span + rng.below(3) as usize).saturating_sub(1)
                    }
                }
            };
            let fs = p.saturating_sub(ext(&mut rng)).max(1);
            let fe = (p + ext(&mut rng)).min(n);
            feats.push((fs, fe));
        }
        match feature_bins(min_shift, depth, &feats) {
            Err((sig, desc)) => o.violation(format!("binning:{sig}"), desc),
            Ok(bins) => {
                for (k, &b) in bins.iter().enumerate() {
                    pairs += 1;
                    if b >= nbins || !in_r[b] {
                        violations += 1;
                        if violations <= 3 {
                            let lvl = if b < nbins { bin_interval(b, min_shift, depth).0.to_string() } else { "outside".into() };
                            o.violation(
                                format!("binning:feature-bin-not-among-region-bins:feature-bin-level={lvl}:unbounded-end={}", form == 0 || form == 2),
                                format!(
                                    "geometry ({min_shift},{depth}): feature [{},{}] is put into bin {b} by Indexer::add_record and intersects region {iv}, \
                                     but ReferenceSequence::query returns {} bins not containing it",
                                    feats[k].0,
                                    feats[k].1,
                                    got.len()
                                ),
                            );
                        }
                    }
                    fps.push(fnv1a(
                        format!("sbin|{min_shift}|{depth}|{}|{}|{form}", span_class(feats[k].0, feats[k].1, min_shift, depth), span_class(rs_eff, re_eff.min(n - 1).max(rs_eff), min_shift, depth))
                            .as_bytes(),
                    ));
                }
            }
        }
        for &b in &got {
            if b < nbins {
                in_r[b] = false;
            }
        }
    }
    fps.sort_unstable();
    fps.dedup();
    o.fps = fps;
    o.evaluations = pairs.max(1);
    o.count(&format!("binning_sampled_pairs[{min_shift},{depth}]"), pairs);
}
