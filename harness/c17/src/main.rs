//! C17 — stub (to be implemented).

fn main() {
    eprintln!("c17: not implemented");
    std::process::exit(2);
}
