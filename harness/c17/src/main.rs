//! C17 — the binning scheme is sound and index files round-trip with unchanged query answers.
//!
//! Three sub-monitors (see the module docs):
//!  (a) `binning`   — feature bin ∈ region bins for every intersecting (feature, region) pair; exhaustive for
//!                    (min_shift, depth) ∈ {1,2,3}², sampled at (14,5), (12,6), (16,4), (14,6);
//!  (b) `chunks`    — `merge_chunks` / `optimize_chunks` never uncover a retained chunk (point-set oracle),
//!                    and `BinningIndex::query` covers every retained chunk of every overlapping bin;
//!  (c) `roundtrip` — BAI, CSI, tabix, gzi, fai, crai write -> read: equal, or same header / metadata /
//!                    counts / bins and the same answer to every probe query.

mod binning;
mod chunks;
mod files;
#[path = "../../c04/src/genfiles.rs"]
mod genfiles;
mod roundtrip;

use noodles_bam as bam;
use noodles_bcf as bcf;
use noodles_cram as cram;
use noodles_csi::{
    self as csi,
    binning_index::index::reference_sequence::index::{BinnedIndex, LinearIndex},
};
use noodles_fasta as fasta;
use noodles_tabix as tabix;
use noodles_vcf as vcf;
use serde_json::{Value, json};
use vcore::{CaseOut, Ctx, Report, Rng, guard, run_cases};

use roundtrip as rt;

#[derive(Clone, Debug)]
enum Case {
    BinExh { ms: u8, d: u8, lo: usize, hi: usize },
    BinSample { ms: u8, d: u8, k: u64 },
    ChunkExh { block: usize },
    ChunkRand { k: u64 },
    QueryCover { k: u64 },
    Rt { kind: &'static str, src: &'static str, k: u64 },
    Witness { name: &'static str },
}

fn case_json(c: &Case) -> Value {
    match c {
        Case::BinExh { ms, d, lo, hi } => json!({"sub": "binning-exhaustive", "min_shift": ms, "depth": d, "region_starts": [lo, hi]}),
        Case::BinSample { ms, d, k } => json!({"sub": "binning-sampled", "min_shift": ms, "depth": d, "block": k}),
        Case::ChunkExh { block } => json!({"sub": "chunks-exhaustive", "first_chunk_block": block}),
        Case::ChunkRand { k } => json!({"sub": "chunks-random", "block": k}),
        Case::QueryCover { k } => json!({"sub": "query-cover", "block": k}),
        Case::Rt { kind, src, k } => json!({"sub": "roundtrip", "kind": kind, "source": src, "block": k}),
        Case::Witness { name } => json!({"sub": "witness", "name": name}),
    }
}

const EXH_GEOMETRIES: [(u8, u8); 9] = [(1, 1), (2, 1), (3, 1), (1, 2), (2, 2), (3, 2), (1, 3), (2, 3), (3, 3)];
const SAMPLED_GEOMETRIES: [(u8, u8); 4] = [(14, 5), (12, 6), (16, 4), (14, 6)];
const CSI_GEOMETRIES: [(u8, u8); 8] = [(14, 5), (14, 5), (12, 6), (16, 4), (14, 6), (10, 3), (4, 2), (1, 1)];

fn exhaustive_geometries(ctx: &Ctx) -> Vec<(u8, u8)> {
    let max_positions = ctx.budget("exh_max_positions", 4096, 4096) as usize;
    EXH_GEOMETRIES.iter().copied().filter(|&(ms, d)| binning::positions(ms, d) <= max_positions).collect()
}

fn gen_cases(ctx: &Ctx) -> Vec<Case> {
    let mut v = Vec::new();
    // deterministic witnesses of the known findings first
    for name in ["csi-indexer-loffset-rewrite", "csi-bins-without-loffset-entries", "linear-index-shorter-than-bins", "fai-non-utf8-name", "crai-two-records"] {
        v.push(Case::Witness { name });
    }
    for (ms, d) in exhaustive_geometries(ctx) {
        let n = binning::positions(ms, d);
        let step = if n <= 1024 { n } else { 64 };
        let mut lo = 1;
        while lo <= n {
            v.push(Case::BinExh { ms, d, lo, hi: (lo + step).min(n + 1) });
            lo += step;
        }
    }
    for (ms, d) in SAMPLED_GEOMETRIES {
        for k in 0..ctx.budget("sample_blocks", 10, 300) {
            v.push(Case::BinSample { ms, d, k });
        }
    }
    for block in 0..chunks::EXH_BLOCKS {
        v.push(Case::ChunkExh { block });
    }
    for k in 0..ctx.budget("chunk_blocks", 8, 200) {
        v.push(Case::ChunkRand { k });
    }
    for k in 0..ctx.budget("cover_blocks", 8, 200) {
        v.push(Case::QueryCover { k });
    }
    let nb = ctx.budget("rt_blocks", 12, 250);
    for kind in ["bai", "csi", "tabix"] {
        for src in ["indexer", "arbitrary"] {
            for k in 0..nb {
                v.push(Case::Rt { kind, src, k });
            }
        }
    }
    for kind in ["gzi", "fai", "crai"] {
        for k in 0..nb {
            v.push(Case::Rt { kind, src: "arbitrary", k });
        }
    }
    let nf = ctx.budget("fs_blocks", 4, 60);
    for kind in ["bai", "csi", "tabix", "fai", "crai", "gzi"] {
        for k in 0..nf {
            v.push(Case::Rt { kind, src: "fs-index", k });
        }
    }
    v
}

const RT_BATCH: usize = 25;

fn run_rt(ctx: &Ctx, idx: u64, kind: &'static str, src: &'static str, k: u64, o: &mut CaseOut) {
    let mut rng = Rng::new(ctx.seed, vcore::rng::fnv1a(format!("{kind}|{src}").as_bytes()), k);
    let mut evals = 0u64;
    let scratch = |name: &str| ctx.work.join(format!("c17-{idx}-{name}"));
    match (kind, src) {
        ("bai", "indexer") | ("bai", "arbitrary") => {
            for j in 0..RT_BATCH {
                let (ix, shape) = if src == "indexer" {
                    let st = rt::gen_stream(&mut rng, 14, 5);
                    match guard::catch(|| rt::drive::<LinearIndex>(&st, 14, 5, None)) {
                        Ok(Ok(ix)) => (ix, st.shape),
                        Ok(Err(e)) => {
                            o.count(&format!("indexer_rejections[{e}]"), 1);
                            continue;
                        }
                        Err(p) => {
                            o.violation(format!("roundtrip:bai:indexer-panic:{}", p.sig), format!("Indexer panicked on a sorted stream: {}", p.message));
                            continue;
                        }
                    }
                } else {
                    let nrefs = *rng.pick(&[0usize, 1, 2, 5]);
                    (rt::arb_linear(&mut rng, None, nrefs), format!("arb|refs={nrefs}"))
                };
                let file = if j % 8 == 0 { Some(scratch("x.bai")) } else { None };
                let back = rt::rt_bai(&ix, file.as_deref());
                if let Some(jd) = rt::judge_binning("bai", src, &ix, back, &mut rng, o, None, &|x| rt::rt_bai(x, None)) {
                    evals += 1;
                    o.fps.push(rt::fp(kind, src, &shape, &format!("{}|{}", jd.equal, file.is_some())));
                }
            }
        }
        ("tabix", "indexer") | ("tabix", "arbitrary") => {
            for j in 0..RT_BATCH {
                let (ix, shape) = if src == "indexer" {
                    let st = rt::gen_stream(&mut rng, 14, 5);
                    let r = guard::catch(|| -> std::io::Result<tabix::Index> {
                        let mut ixr = tabix::index::Indexer::default();
                        let mut h = rt::arb_header(&mut rng.clone(), 0, false);
                        *h.reference_sequence_names_mut() = Default::default();
                        ixr.set_header(h);
                        for &(r, s, e, _, (cs, ce)) in &st.recs {
                            ixr.add_record(&format!("name{r}"), binning::pos(s), binning::pos(e), csi::binning_index::index::reference_sequence::bin::Chunk::new(binning::vp(cs), binning::vp(ce)))?;
                        }
                        Ok(ixr.build())
                    });
                    match r {
                        Ok(Ok(ix)) => (ix, st.shape),
                        Ok(Err(e)) => {
                            o.count(&format!("indexer_rejections[{e}]"), 1);
                            continue;
                        }
                        Err(p) => {
                            o.violation(format!("roundtrip:tabix:indexer-panic:{}", p.sig), format!("tabix Indexer panicked: {}", p.message));
                            continue;
                        }
                    }
                } else {
                    let nrefs = *rng.pick(&[0usize, 1, 2, 5]);
                    let with_nul = rng.chance(1, 12) && nrefs > 0;
                    let h = rt::arb_header(&mut rng, nrefs, with_nul);
                    (rt::arb_linear(&mut rng, Some(h), nrefs), format!("arb|refs={nrefs}|nul={with_nul}"))
                };
                let file = if j % 8 == 0 { Some(scratch("x.tbi")) } else { None };
                let back = rt::rt_tabix(&ix, file.as_deref());
                if let Some(jd) = rt::judge_binning("tabix", src, &ix, back, &mut rng, o, None, &|x| rt::rt_tabix(x, None)) {
                    evals += 1;
                    o.fps.push(rt::fp(kind, src, &shape, &format!("{}|{}", jd.equal, file.is_some())));
                }
            }
        }
        ("csi", "indexer") | ("csi", "arbitrary") => {
            for j in 0..RT_BATCH {
                let (ms, d) = *rng.pick(&CSI_GEOMETRIES);
                let with_header = rng.chance(1, 3);
                let (ix, shape) = if src == "indexer" {
                    let st = rt::gen_stream(&mut rng, ms, d);
                    let h = if with_header { Some(rt::arb_header(&mut rng, st.nrefs, false)) } else { None };
                    match guard::catch(|| rt::drive::<BinnedIndex>(&st, ms, d, h)) {
                        Ok(Ok(ix)) => (ix, format!("{}|{ms},{d}|h={with_header}", st.shape)),
                        Ok(Err(e)) => {
                            o.count(&format!("indexer_rejections[{e}]"), 1);
                            continue;
                        }
                        Err(p) => {
                            o.violation(format!("roundtrip:csi:indexer-panic:{}", p.sig), format!("Indexer panicked on a sorted stream at ({ms},{d}): {}", p.message));
                            continue;
                        }
                    }
                } else {
                    let nrefs = *rng.pick(&[0usize, 1, 2, 5]);
                    let fixed = rng.bool();
                    // half of the indexes have an loffset entry for every bin, the others for none / some / only non-leaf / only leaf bins
                    let entries =
                        *rng.pick(&[rt::Entries::All, rt::Entries::All, rt::Entries::All, rt::Entries::All, rt::Entries::None, rt::Entries::Some, rt::Entries::OnlyAncestors, rt::Entries::OnlyLeaves]);
                    let h = if with_header { Some(rt::arb_header(&mut rng, nrefs, false)) } else { None };
                    (rt::arb_binned(&mut rng, ms, d, h, nrefs, fixed, entries), format!("arb|refs={nrefs}|{ms},{d}|h={with_header}|fixed={fixed}|entries={entries:?}"))
                };
                let file = if j % 8 == 0 { Some(scratch("x.csi")) } else { None };
                let back = rt::rt_csi(&ix, file.as_deref());
                let explain: &dyn Fn(&csi::Index, &csi::Index) -> Option<&'static str> = &rt::csi_loffset_diff_is_ancestor_minimum;
                if let Some(jd) = rt::judge_binning("csi", src, &ix, back, &mut rng, o, Some(explain), &|x| rt::rt_csi(x, None)) {
                    evals += 1;
                    o.fps.push(rt::fp(kind, src, &shape, &format!("{}|{}", jd.equal, file.is_some())));
                }
            }
        }
        ("gzi", "arbitrary") => {
            for j in 0..RT_BATCH {
                let ix = rt::arb_gzi(&mut rng);
                let file = if j % 8 == 0 { Some(scratch("x.gzi")) } else { None };
                let back = rt::rt_gzi(&ix, file.as_deref());
                rt::judge_gzi(&ix, back, &mut rng, o);
                evals += 1;
                o.fps.push(rt::fp(kind, src, &format!("{}", ix.as_ref().len().min(3)), &format!("{}", file.is_some())));
            }
        }
        ("fai", "arbitrary") => {
            for j in 0..RT_BATCH {
                let utf8 = j % 3 != 0;
                let ix = rt::arb_fai(&mut rng, utf8);
                let file = if j % 8 == 0 { Some(scratch("x.fai")) } else { None };
                let back = rt::rt_fai(&ix, file.as_deref());
                rt::judge_fai(src, &ix, back, o);
                evals += 1;
                o.fps.push(rt::fp(kind, src, &format!("{}|{utf8}", ix.as_ref().len().min(3)), &format!("{}", file.is_some())));
            }
        }
        ("crai", "arbitrary") => {
            for j in 0..RT_BATCH {
                let ix = rt::arb_crai(&mut rng);
                let file = if j % 8 == 0 { Some(scratch("x.crai")) } else { None };
                let back = rt::rt_crai(&ix, file.as_deref());
                rt::judge_crai(src, &ix, back, o);
                evals += 1;
                o.fps.push(rt::fp(kind, src, &format!("{}", ix.len().min(3)), &format!("{}", file.is_some())));
            }
        }
        (_, "fs-index") => {
            for j in 0..3 {
                evals += run_fs_index(ctx, idx, kind, j, &mut rng, o);
            }
        }
        _ => unreachable!(),
    }
    o.fps.sort_unstable();
    o.fps.dedup();
    o.evaluations = evals.max(1);
    o.count(&format!("roundtrips[{kind}:{src}]"), evals);
}

/// One generated file -> `*::fs::index` -> `*::fs::write` -> `*::fs::read`.
fn run_fs_index(ctx: &Ctx, idx: u64, kind: &str, j: usize, rng: &mut Rng, o: &mut CaseOut) -> u64 {
    let p = |ext: &str| ctx.work.join(format!("c17-{idx}-{j}.{ext}"));
    let fail = |o: &mut CaseOut, what: &str, e: String| o.count(&format!("fs_index_source_failures[{what}:{}]", guard::normalise_message(&e)), 1);
    match kind {
        "bai" => {
            let set = files::small_aln_set(rng);
            let path = p("bam");
            if let Err(e) = genfiles::write_bam(&path, &set) {
                fail(o, "write_bam", e.to_string());
                return 0;
            }
            match guard::catch(|| bam::fs::index(&path)) {
                Ok(Ok(ix)) => {
                    let back = rt::rt_bai(&ix, Some(&p("bai")));
                    if rt::judge_binning("bai", "fs-index", &ix, back, rng, o, None, &|x| rt::rt_bai(x, None)).is_some() {
                        o.fps.push(rt::fp(kind, "fs-index", &format!("{}|{}", set.refs.len(), set.recs.len() / 10), ""));
                        return 1;
                    }
                }
                Ok(Err(e)) => fail(o, "bam::fs::index", e.to_string()),
                Err(pn) => o.violation(format!("roundtrip:bai:fs-index-panic:{}", pn.sig), format!("bam::fs::index panicked on a sorted BAM: {}", pn.message)),
            }
        }
        "csi" => {
            let set = files::small_var_set(rng);
            let path = p("bcf");
            if let Err(e) = genfiles::write_bcf(&path, &set) {
                fail(o, "write_bcf", e.to_string());
                return 0;
            }
            match guard::catch(|| bcf::fs::index(&path)) {
                Ok(Ok(ix)) => {
                    let back = rt::rt_csi(&ix, Some(&p("csi")));
                    let explain: &dyn Fn(&csi::Index, &csi::Index) -> Option<&'static str> = &rt::csi_loffset_diff_is_ancestor_minimum;
                    if rt::judge_binning("csi", "fs-index", &ix, back, rng, o, Some(explain), &|x| rt::rt_csi(x, None)).is_some() {
                        o.fps.push(rt::fp(kind, "fs-index", &format!("{}|{}", set.contigs.len(), set.recs.len() / 10), ""));
                        return 1;
                    }
                }
                Ok(Err(e)) => fail(o, "bcf::fs::index", e.to_string()),
                Err(pn) => o.violation(format!("roundtrip:csi:fs-index-panic:{}", pn.sig), format!("bcf::fs::index panicked: {}", pn.message)),
            }
        }
        "tabix" => {
            let set = files::small_var_set(rng);
            let path = p("vcf.gz");
            if let Err(e) = genfiles::write_vcf_gz(&path, &set) {
                fail(o, "write_vcf_gz", e.to_string());
                return 0;
            }
            match guard::catch(|| vcf::fs::index(&path)) {
                Ok(Ok(ix)) => {
                    let back = rt::rt_tabix(&ix, Some(&p("tbi")));
                    if rt::judge_binning("tabix", "fs-index", &ix, back, rng, o, None, &|x| rt::rt_tabix(x, None)).is_some() {
                        o.fps.push(rt::fp(kind, "fs-index", &format!("{}|{}", set.contigs.len(), set.recs.len() / 10), ""));
                        return 1;
                    }
                }
                Ok(Err(e)) => fail(o, "vcf::fs::index", e.to_string()),
                Err(pn) => o.violation(format!("roundtrip:tabix:fs-index-panic:{}", pn.sig), format!("vcf::fs::index panicked: {}", pn.message)),
            }
        }
        "fai" => {
            let n = rng.urange(1, 6);
            let utf8 = j != 0;
            let names: Vec<Vec<u8>> = (0..n)
                .map(|i| {
                    let mut nm = rt::arb_name(rng, b"\t\n\x0b\x0c\r >");
                    if utf8 {
                        nm = String::from_utf8_lossy(&nm).replace('\u{fffd}', "é").into_bytes();
                        nm.retain(|b| !b" \t\n\r\x0c".contains(b));
                    }
                    nm.extend_from_slice(format!("_{i}").as_bytes());
                    nm
                })
                .collect();
            let path = p("fa");
            if let Err(e) = files::write_fasta(&path, rng, &names) {
                fail(o, "write_fasta", e.to_string());
                return 0;
            }
            match guard::catch(|| fasta::fs::index(&path)) {
                Ok(Ok(ix)) => {
                    // the index must name the sequences as written (first word of the definition line)
                    let got: Vec<Vec<u8>> = ix.as_ref().iter().map(|r| r.name().to_vec()).collect();
                    if got != names {
                        o.count("fasta_index_names_differ_from_written_names(observation, C11)", 1);
                    }
                    let back = rt::rt_fai(&ix, Some(&p("fai")));
                    rt::judge_fai("fs-index", &ix, back, o);
                    o.fps.push(rt::fp(kind, "fs-index", &format!("{n}|{utf8}"), ""));
                    return 1;
                }
                Ok(Err(e)) => fail(o, "fasta::fs::index", e.to_string()),
                Err(pn) => o.violation(format!("roundtrip:fai:fs-index-panic:{}", pn.sig), format!("fasta::fs::index panicked: {}", pn.message)),
            }
        }
        "crai" => {
            let path = p("cram");
            match guard::catch(|| files::write_cram(&path, rng)) {
                Ok(Ok(_)) => {}
                Ok(Err(e)) => {
                    fail(o, "write_cram", e.to_string());
                    return 0;
                }
                Err(pn) => {
                    fail(o, "write_cram-panic(C07)", pn.sig);
                    return 0;
                }
            }
            match guard::catch(|| cram::fs::index(&path)) {
                Ok(Ok(ix)) => {
                    let back = rt::rt_crai(&ix, Some(&p("crai")));
                    rt::judge_crai("fs-index", &ix, back, o);
                    o.fps.push(rt::fp(kind, "fs-index", &format!("{}", ix.len().min(4)), ""));
                    o.max("max_crai_records_from_fs_index", ix.len() as u64);
                    return 1;
                }
                Ok(Err(e)) => fail(o, "cram::fs::index", e.to_string()),
                // cram::fs::index panics are C19's business
                Err(pn) => fail(o, "cram::fs::index-panic(C19)", pn.sig),
            }
        }
        "gzi" => {
            // noodles has no gzi indexer; the (compressed, uncompressed) block offsets of a file written by the
            // noodles BGZF writer are taken from the independent member walker (entries for every block but the first,
            // as bgzip -i writes them).
            let mut w = noodles_bgzf::io::Writer::new(Vec::new());
            use std::io::Write;
            for _ in 0..rng.urange(1, 12) {
                let nbytes = rng.urange(1, 70000);
                let chunk = rng.bytes(nbytes);
                let _ = w.write_all(&chunk);
                if rng.chance(1, 3) {
                    let _ = w.flush();
                }
            }
            let Ok(buf) = w.finish() else { return 0 };
            let Ok(walk) = vcore::bgzf::walk(&buf) else {
                fail(o, "bgzf-walk", "walker rejected".into());
                return 0;
            };
            let mut pairs = Vec::new();
            let mut u = 0u64;
            for m in &walk.members {
                if m.offset != 0 {
                    pairs.push((m.offset as u64, u));
                }
                u += m.data.len() as u64;
            }
            let ix = noodles_bgzf::gzi::Index::from(pairs);
            let back = rt::rt_gzi(&ix, Some(&p("gzi")));
            rt::judge_gzi(&ix, back, rng, o);
            o.fps.push(rt::fp(kind, "fs-index", &format!("{}", ix.as_ref().len().min(4)), ""));
            return 1;
        }
        _ => unreachable!(),
    }
    0
}

fn run_witness(name: &str, o: &mut CaseOut) {
    let mut rng = Rng::new(1, 0x17D, 0);
    match name {
        // Two records on one reference: a long record A first, a short record B inside A's range second.
        //  * (14,5): A = [1, 20000] -> bin 585 (128 kb level) at 100..200, B = [10, 20] -> leaf bin 4681 at 200..300;
        //    585 is the direct parent of 4681: in memory loffset(4681) = 200, the writer emits min(200, 100) = 100.
        //  * (14,5): A = [1, 200000] -> bin 73 (1 Mb level); the parent 585 of 4681 does not exist, the writer's
        //    ancestor walk stops there and loffset(4681) stays 200 (index equal after the round trip).
        //  * (4,2): A = [1, 100] -> bin 1, B = [5, 6] -> leaf bin 9 (child of 1).
        "csi-indexer-loffset-rewrite" => {
            for (ms, d, a_end, b, label) in
                [(14u8, 5u8, 20_000usize, (10usize, 20usize), "direct-parent"), (14, 5, 200_000, (10, 20), "parent-chain-broken"), (4, 2, 100, (5, 6), "direct-parent-small")]
            {
                let st = rt::Stream { recs: vec![(0, 1, a_end, true, (100, 200)), (0, b.0, b.1, true, (200, 300))], unplaced: vec![], nrefs: 1, shape: label.into() };
                match rt::drive::<BinnedIndex>(&st, ms, d, None) {
                    Ok(ix) => {
                        let back = rt::rt_csi(&ix, None);
                        let explain: &dyn Fn(&csi::Index, &csi::Index) -> Option<&'static str> = &rt::csi_loffset_diff_is_ancestor_minimum;
                        rt::judge_binning("csi", "indexer", &ix, back, &mut rng, o, Some(explain), &|x| rt::rt_csi(x, None));
                        o.fps.push(rt::fp("csi", "witness", label, ""));
                    }
                    Err(e) => o.inconclusive.push(format!("witness {name}: indexer refused the stream: {e}")),
                }
            }
        }
        // Hand-built CSI indexes whose loffset key set is a strict subset of the bin keys (constructible through
        // ReferenceSequence::new; e.g. an index assembled from bins only). Geometry (4,2): root 0, level-1 bin 1
        // (positions 1..=128), leaves 9 (1..=16), 10 (17..=32), 17 (129..=144, child of 2). Chunks are laid out so that every
        // loffset value separates two chunks, i.e. a changed lower bound changes an answer.
        "csi-bins-without-loffset-entries" => {
            use csi::binning_index::index::{
                ReferenceSequence,
                reference_sequence::{Bin, bin::Chunk},
            };
            let chunk = |a: u64, b: u64| Chunk::new(binning::vp(a), binning::vp(b));
            let bins = || -> indexmap::IndexMap<usize, Bin> {
                [
                    (0usize, Bin::new(vec![chunk(10, 20)])),
                    (1, Bin::new(vec![chunk(30, 40)])),
                    (9, Bin::new(vec![chunk(50, 60), chunk(90, 95)])),
                    (10, Bin::new(vec![chunk(70, 80)])),
                    (17, Bin::new(vec![chunk(100, 110)])),
                ]
                .into_iter()
                .collect()
            };
            let shapes: [(&str, Vec<(usize, u64)>); 8] = [
                ("no-entries", vec![]),
                ("only-root", vec![(0, 25)]),
                ("only-level1", vec![(1, 45)]),
                ("only-leaves", vec![(9, 50), (10, 70), (17, 100)]),
                ("one-leaf", vec![(10, 65)]),
                ("root-and-leaf-gap", vec![(0, 25), (9, 55)]),
                ("ancestors-only", vec![(0, 15), (1, 45)]),
                ("all", vec![(0, 10), (1, 30), (9, 50), (10, 70), (17, 100)]),
            ];
            for (label, entries) in shapes {
                for (ms, d) in [(4u8, 2u8), (14, 2)] {
                    let ix: BinnedIndex = entries.iter().map(|&(k, v)| (k, binning::vp(v))).collect();
                    let rs = ReferenceSequence::new(bins(), ix, None);
                    let index = csi::Index::builder().set_min_shift(ms).set_depth(d).set_reference_sequences(vec![rs]).build();
                    let back = rt::rt_csi(&index, None);
                    let explain: &dyn Fn(&csi::Index, &csi::Index) -> Option<&'static str> = &rt::csi_loffset_diff_is_ancestor_minimum;
                    rt::judge_binning("csi", "arbitrary", &index, back, &mut rng, o, Some(explain), &|x| rt::rt_csi(x, None));
                    o.fps.push(rt::fp("csi", "witness-entries", label, &format!("{ms},{d}")));
                }
            }
        }
        // BAI / tabix whose linear index is shorter than the highest window that holds a bin (or empty): min_offset is 0
        // beyond its end, before and after the round trip.
        "linear-index-shorter-than-bins" => {
            use csi::binning_index::index::{
                ReferenceSequence,
                reference_sequence::{Bin, bin::Chunk},
            };
            let chunk = |a: u64, b: u64| Chunk::new(binning::vp(a), binning::vp(b));
            for (label, lin) in [("empty", vec![]), ("one-window", vec![15u64]), ("three-windows", vec![0, 35, 75]), ("zeros", vec![0, 0, 0, 0])] {
                let bins: indexmap::IndexMap<usize, Bin> = [
                    (0usize, Bin::new(vec![chunk(10, 20)])),
                    (4681, Bin::new(vec![chunk(30, 40)])),
                    (4683, Bin::new(vec![chunk(50, 60)])),
                    (4700, Bin::new(vec![chunk(70, 80)])),
                    (37448, Bin::new(vec![chunk(90, 100)])),
                ]
                .into_iter()
                .collect();
                let lin: LinearIndex = lin.into_iter().map(binning::vp).collect();
                let rs = ReferenceSequence::new(bins, lin, None);
                let bai: bam::bai::Index = csi::binning_index::Index::builder().set_reference_sequences(vec![rs.clone()]).build();
                let back = rt::rt_bai(&bai, None);
                rt::judge_binning("bai", "arbitrary", &bai, back, &mut rng, o, None, &|x| rt::rt_bai(x, None));
                let names = [bstr::BString::from("sq0")].into_iter().collect();
                let h = csi::binning_index::index::header::Builder::vcf().set_reference_sequence_names(names).build();
                let tbx: tabix::Index = csi::binning_index::Index::builder().set_header(h).set_reference_sequences(vec![rs]).build();
                let back = rt::rt_tabix(&tbx, None);
                rt::judge_binning("tabix", "arbitrary", &tbx, back, &mut rng, o, None, &|x| rt::rt_tabix(x, None));
                o.fps.push(rt::fp("linear", "witness-short", label, ""));
            }
        }
        "fai-non-utf8-name" => {
            let ix = fasta::fai::Index::from(vec![fasta::fai::Record::new(b"sq\xff0".to_vec(), 8, 6, std::num::NonZero::new(4).unwrap(), std::num::NonZero::new(5).unwrap())]);
            let back = rt::rt_fai(&ix, None);
            rt::judge_fai("arbitrary", &ix, back, o);
            o.fps.push(rt::fp("fai", "witness", "", ""));
        }
        "crai-two-records" => {
            let ix: cram::crai::Index =
                vec![cram::crai::Record::new(Some(0), noodles_core::Position::new(10), 100, 26, 200, 300), cram::crai::Record::new(Some(0), noodles_core::Position::new(150), 80, 26, 500, 280)];
            let back = rt::rt_crai(&ix, None);
            rt::judge_crai("arbitrary", &ix, back, o);
            o.fps.push(rt::fp("crai", "witness", "", ""));
        }
        _ => unreachable!(),
    }
}

fn run_case(ctx: &Ctx, idx: u64, c: &Case) -> CaseOut {
    let mut o = CaseOut::new();
    match c {
        Case::BinExh { ms, d, lo, hi } => binning::run_exhaustive(*ms, *d, *lo, *hi, &mut o),
        Case::BinSample { ms, d, k } => {
            let regions = if binning::bin_count(*d) > 100_000 { 60 } else { 150 };
            binning::run_sampled(*ms, *d, ctx.seed.wrapping_mul(1000).wrapping_add(*k), regions, 48, &mut o)
        }
        Case::ChunkExh { block } => chunks::run_exhaustive(*block, &mut o),
        Case::ChunkRand { k } => chunks::run_random(ctx.seed.wrapping_mul(1000).wrapping_add(*k), 400, &mut o),
        Case::QueryCover { k } => chunks::run_query_cover(ctx.seed.wrapping_mul(1000).wrapping_add(*k), 120, &mut o),
        Case::Rt { kind, src, k } => run_rt(ctx, idx, kind, src, *k, &mut o),
        Case::Witness { name } => run_witness(name, &mut o),
    }
    if idx % 37 == 0 {
        o.sample = Some(case_json(c));
    }
    o
}

fn main() {
    let ctx = Ctx::from_args();
    let ctx = vcore::cases::replay_request(&ctx).map(|r| r.1).unwrap_or(ctx);
    let mut rep = Report::new(
        "(a) binning: feature bin := key of the single bin Indexer::add_record creates; region bins := bins returned by \
         ReferenceSequence::query on a reference sequence holding every bin id; decided for every region [rs,re] (and rs..) of the \
         listed geometries against *all* features by the exact prefix-maximum argument M_b[re] >= rs <=> some feature of bin b \
         intersects the region (b ranging over the bins not returned); sampled geometries: boundary-biased (region, 48 intersecting \
         features) batches. (b) chunk lists: every list of <= 4 chunks with endpoints in 0..=6 x every min_offset (three monotone \
         position maps), random lists of 5..300 chunks, and BinningIndex::query on hand-built linear/binned indexes; oracle = point \
         sets. (c) round trips: indexes from Indexer<LinearIndex|BinnedIndex> / tabix Indexer over generated sorted streams, from \
         */fs::index over generated BAM/BCF/VCF.gz/FASTA/CRAM files, and arbitrary valid ones via the public constructors; \
         written+read in memory and through */fs::write+read; compared with == and by header/metadata/count/bins plus ~60-100 probe \
         queries per reference. distinct = distinct (sub-check, geometry, interval level classes / list shape / index shape, outcome class).",
    );
    rep.assumptions.push("bin numbering (ids per level, bin intervals) follows CSIv1; chunks are half-open [start,end) ranges of virtual positions".into());
    rep.assumptions.push("structurally valid index := what the file format can represent: bin ids below the geometry's bin count; BAI/tabix at (14,5); CSI loffset keys = any subset of the bin keys (no entries for bins that do not exist); tabix names without NUL and as many names as reference sequences; FAI names = what a FASTA definition line yields (non-empty, no ASCII whitespace); CRAI reference ids <= i32::MAX".into());
    rep.assumptions.push("positions: features in 1..=2^(min_shift+3*depth), regions end at 2^(min_shift+3*depth)-1, the largest position ReferenceSequence::query accepts".into());
    let cases = gen_cases(&ctx);
    let f = |i: u64| -> CaseOut { run_case(&ctx, i, &cases[i as usize]) };
    run_cases(&ctx, &mut rep, cases.len() as u64, 300.0, &f, &|i| case_json(&cases[i as usize]));
    if ctx.replay.is_none() {
        // exhaustive geometries: complete iff every block returned and none was inconclusive
        let mut ex = serde_json::Map::new();
        for (ms, d) in exhaustive_geometries(&ctx) {
            let n = binning::positions(ms, d) as u64;
            let pairs = rep.counters.get(&format!("binning_exhaustive_pairs_decided[{ms},{d}]")).copied().unwrap_or(0);
            let feats = rep.counters.get(&format!("binning_exhaustive_features_indexed[{ms},{d}]")).copied().unwrap_or(0);
            let starts = rep.counters.get(&format!("binning_exhaustive_region_starts[{ms},{d}]")).copied().unwrap_or(0);
            let complete = feats == n * (n + 1) / 2 && pairs > 0 && starts == n;
            ex.insert(format!("({ms},{d})"), json!({"positions": n, "features_indexed": feats, "pairs_decided": pairs, "exhaustive": complete}));
            if !complete {
                rep.floors_unmet.push(format!("geometry ({ms},{d}) was not enumerated completely"));
            }
        }
        rep.extra.insert("binning_geometries".into(), Value::Object(ex));
        let q = rep.counters.get("binning_exhaustive_regions_queried").copied().unwrap_or(0);
        rep.floor("binning_exhaustive_regions_queried", q, 10_000);
        let ce = rep.counters.get("chunk_lists_exhaustive_evaluations").copied().unwrap_or(0);
        rep.floor("chunk_lists_exhaustive_evaluations", ce, 1_000_000);
        for kind in ["bai", "csi", "tabix", "gzi", "fai", "crai"] {
            let n: u64 = rep.counters.iter().filter(|(k, _)| k.starts_with(&format!("roundtrips[{kind}:"))).map(|(_, v)| *v).sum();
            rep.floor(&format!("roundtrips[{kind}]"), n, 20);
        }
    }
    rep.finish(&ctx);
}
