//! C17 (b) — merging / pruning a chunk list never uncovers a file range that a retained chunk covered.
//!
//! `merge_chunks` and `optimize_chunks(chunks, min_offset)` are public (`noodles_csi::binning_index`).
//! A chunk is the half-open range [start, end) of virtual positions; `optimize_chunks` *retains* a chunk iff
//! its end lies beyond `min_offset`. Oracle: point sets over a small universe of virtual positions — every
//! universe point p with start <= p < end for some retained input chunk must satisfy start' <= p < end' for
//! some output chunk. (The statement asks for coverage only; over-coverage is counted, never alarmed on.)
//!
//! (b2) the public entry point that reaches them, `BinningIndex::query`, on hand-built indexes: the result
//! must cover every chunk that ends beyond `ReferenceSequence::min_offset(start)` of every bin whose interval
//! (computed here from the CSI bin numbering) intersects the region.

use indexmap::IndexMap;
use noodles_core::region::Interval;
use noodles_csi::{
    BinningIndex,
    binning_index::{
        Index,
        index::{
            ReferenceSequence,
            reference_sequence::{
                Bin,
                bin::Chunk,
                index::{BinnedIndex, LinearIndex},
            },
        },
        merge_chunks, optimize_chunks,
    },
};
use vcore::{CaseOut, Rng, guard, rng::fnv1a};

use crate::binning::{biased_pos, bin_count, bin_interval, pos, positions, vp};

/// Monotone maps from the small universe 0..=U to virtual positions (raw, and "realistic": several points
/// per BGZF block, several blocks).
fn vmap(kind: u8, i: u64) -> u64 {
    match kind {
        0 => i,
        1 => ((i / 3) * 4099) << 16 | (i % 3) * 21001,
        _ => (i * 65_280 / 4) << 16 | (i % 4) * 16_000,
    }
}

fn covered(chunks: &[(u64, u64)], p: u64) -> bool {
    chunks.iter().any(|&(s, e)| s <= p && p < e)
}

/// Checks one (list, min_offset) pair; universe points are `pts` (already mapped). Returns the class for fps.
fn check(list: &[(u64, u64)], min_offset: u64, pts: &[u64], via_merge: bool, o: &mut CaseOut, nviol: &mut u32) -> (usize, bool) {
    let input: Vec<Chunk> = list.iter().map(|&(s, e)| Chunk::new(vp(s), vp(e))).collect();
    let r = guard::catch(|| if via_merge { merge_chunks(&input) } else { optimize_chunks(&input, vp(min_offset)) });
    let out = match r {
        Ok(v) => v,
        Err(p) => {
            *nviol += 1;
            if *nviol <= 3 {
                o.violation(format!("chunks:panic:{}", p.sig), format!("optimize_chunks({list:?}, {min_offset}) panicked: {}", p.message));
            }
            return (0, false);
        }
    };
    let outp: Vec<(u64, u64)> = out.iter().map(|c| (u64::from(c.start()), u64::from(c.end()))).collect();
    let retained: Vec<(u64, u64)> = list.iter().copied().filter(|&(_, e)| e > min_offset).collect();
    let mut over = false;
    for &p in pts {
        let need = covered(&retained, p);
        let have = covered(&outp, p);
        if need && !have {
            *nviol += 1;
            if *nviol <= 3 {
                let lost = retained.iter().find(|&&(s, e)| s <= p && p < e).unwrap();
                let class = if outp.iter().any(|&(s, e)| s == lost.0 && e < lost.1) || outp.iter().any(|&(s, e)| s <= lost.0 && e < lost.1 && e > lost.0) {
                    "end-of-retained-chunk-cut"
                } else if outp.iter().any(|&(s, e)| s > lost.0 && s < lost.1 && e >= lost.1) {
                    "start-of-retained-chunk-cut"
                } else {
                    "retained-chunk-dropped"
                };
                o.violation(
                    format!("chunks:{}:uncovers-retained-range:{class}", if via_merge { "merge_chunks" } else { "optimize_chunks" }),
                    format!("input chunks {list:?} (virtual positions as u64), min_offset {min_offset}: retained chunk {lost:?} covers position {p}, the output {outp:?} does not"),
                );
            }
            return (outp.len(), over);
        }
        if have && !covered(list, p) {
            over = true;
        }
    }
    (outp.len(), over)
}

const U: u64 = 6;

fn all_chunks() -> Vec<(u64, u64)> {
    let mut v = Vec::new();
    for s in 0..=U {
        for e in s..=U {
            v.push((s, e));
        }
    }
    v
}

pub const EXH_BLOCKS: usize = 29; // 28 first chunks + the lists of length 0

/// Exhaustive: all lists of 1..=4 chunks whose first chunk is `all_chunks()[block]` (block 28 = empty list),
/// endpoints in 0..=6, every min_offset in 0..=7, three position maps.
pub fn run_exhaustive(block: usize, o: &mut CaseOut) {
    let cs = all_chunks();
    let mut nviol = 0u32;
    let mut evals = 0u64;
    let mut over = 0u64;
    let mut fps = Vec::new();
    let kind = (block % 3) as u8;
    let pts: Vec<u64> = (0..=U).map(|i| vmap(kind, i)).collect();
    let mut run = |list: &[(u64, u64)], o: &mut CaseOut| {
        let mapped: Vec<(u64, u64)> = list.iter().map(|&(s, e)| (vmap(kind, s), vmap(kind, e))).collect();
        for mo in 0..=U + 1 {
            // min_offset on a universe point, and (mapped universes) strictly between two points
            let mos = if kind == 0 || mo > U { vec![vmap(kind, mo)] } else { vec![vmap(kind, mo), vmap(kind, mo) + 1] };
            for m in mos {
                let (n_out, ov) = check(&mapped, m, &pts, false, o, &mut nviol);
                evals += 1;
                over += ov as u64;
                let retained = list.iter().filter(|c| vmap(kind, c.1) > m).count();
                fps.push(fnv1a(format!("chx|{}|{retained}|{n_out}", list.len()).as_bytes()));
            }
        }
        let (_, ov) = check(&mapped, 0, &pts, true, o, &mut nviol);
        over += ov as u64;
        evals += 1;
    };
    if block == 28 {
        run(&[], o);
    } else {
        let c0 = cs[block];
        run(&[c0], o);
        for &c1 in &cs {
            run(&[c0, c1], o);
            for &c2 in &cs {
                run(&[c0, c1, c2], o);
                for &c3 in &cs {
                    run(&[c0, c1, c2, c3], o);
                }
            }
        }
    }
    fps.sort_unstable();
    fps.dedup();
    o.fps = fps;
    o.evaluations = evals;
    o.count("chunk_lists_exhaustive_evaluations", evals);
    o.count("chunk_lists_output_covers_more_than_input", over);
}

/// Random long lists over a universe of up to 64 points.
pub fn run_random(seed: u64, lists: usize, o: &mut CaseOut) {
    let mut rng = Rng::new(seed, 0x17B, 0);
    let mut nviol = 0u32;
    let mut evals = 0u64;
    let mut fps = Vec::new();
    let mut over = 0u64;
    for _ in 0..lists {
        let u = *rng.pick(&[8u64, 16, 40, 64]);
        let kind = rng.below(3) as u8;
        let pts: Vec<u64> = (0..=u).map(|i| vmap(kind, i)).collect();
        let len = match rng.below(4) {
            0 => rng.urange(5, 12),
            1 => rng.urange(12, 60),
            _ => rng.urange(60, 300),
        };
        let style = rng.below(4);
        let mut list = Vec::with_capacity(len);
        for _ in 0..len {
            let s = rng.below(u + 1);
            let e = match style {
                0 => (s + rng.below(3)).min(u),  // short, many adjacent/abutting
                1 => (s + rng.skewed(u)).min(u), // mixed
                2 => {
                    if rng.chance(1, 10) {
                        u
                    } else {
                        (s + 1).min(u)
                    }
                } // a few long ones among short ones
                _ => rng.range(s as i64, u as i64) as u64,
            };
            list.push((vmap(kind, s), vmap(kind, e)));
        }
        if rng.chance(1, 3) {
            list.sort();
        }
        for _ in 0..6 {
            let mo = match rng.below(3) {
                0 => vmap(kind, rng.below(u + 2)),
                1 => vmap(kind, rng.below(u + 1)) + 1,
                _ => 0,
            };
            let (n_out, ov) = check(&list, mo, &pts, false, o, &mut nviol);
            over += ov as u64;
            evals += 1;
            fps.push(fnv1a(format!("chr|{u}|{style}|{}|{}", len / 20, n_out.min(12)).as_bytes()));
        }
        check(&list, 0, &pts, true, o, &mut nviol);
        evals += 1;
    }
    fps.sort_unstable();
    fps.dedup();
    o.fps = fps;
    o.evaluations = evals;
    o.count("chunk_lists_random_evaluations", evals);
    o.count("chunk_lists_output_covers_more_than_input", over);
}

/// (b2) `BinningIndex::query` on hand-built indexes (linear and binned offsets).
pub fn run_query_cover(seed: u64, indexes: usize, o: &mut CaseOut) {
    let mut rng = Rng::new(seed, 0x17C, 0);
    let mut evals = 0u64;
    let mut fps = Vec::new();
    let mut nviol = 0u32;
    for _ in 0..indexes {
        let linear = rng.bool();
        // the linear index has fixed 16 kb windows: only meaningful at min_shift 14
        let (ms, d) = if linear { (14u8, *rng.pick(&[1u8, 2, 5])) } else { *rng.pick(&[(1u8, 1u8), (2, 2), (3, 3), (4, 2), (14, 5), (12, 6), (16, 4)]) };
        let n = positions(ms, d);
        let nb = bin_count(d);
        let nbins_used = rng.urange(1, 40.min(nb));
        let mut ids: Vec<usize> = (0..nbins_used)
            .map(|_| {
                // bias toward ids around a focus position so that bins actually nest
                rng.below(nb as u64) as usize
            })
            .collect();
        // add ancestors/leaf bins of a focus position: nested structure
        let focus = biased_pos(&mut rng, ms, d, n - 1);
        for l in 0..=d {
            if rng.chance(2, 3) {
                let first = ((1usize << (3 * l as usize)) - 1) / 7;
                ids.push(first + ((focus - 1) >> (ms as usize + 3 * (d - l) as usize)));
            }
        }
        ids.sort_unstable();
        ids.dedup();
        let umax = 64u64;
        let kind = rng.below(3) as u8;
        let pts: Vec<u64> = (0..=umax).map(|i| vmap(kind, i)).collect();
        let mut bins: IndexMap<usize, Bin> = IndexMap::new();
        let mut all: Vec<(usize, (u64, u64))> = Vec::new();
        for &id in &ids {
            let k = rng.urange(0, 4);
            let mut cs: Vec<(u64, u64)> = (0..k)
                .map(|_| {
                    let s = rng.below(umax);
                    let e = (s + 1 + rng.skewed(12)).min(umax);
                    (vmap(kind, s), vmap(kind, e))
                })
                .collect();
            cs.sort();
            for &c in &cs {
                all.push((id, c));
            }
            bins.insert(id, Bin::new(cs.iter().map(|&(s, e)| Chunk::new(vp(s), vp(e))).collect()));
        }
        let regions: Vec<(usize, usize)> = (0..12)
            .map(|_| {
                let a = if rng.chance(1, 2) { focus } else { biased_pos(&mut rng, ms, d, n - 1) };
                let b = if rng.chance(1, 3) { a } else { biased_pos(&mut rng, ms, d, n - 1) };
                (a.min(b), a.max(b))
            })
            .collect();
        // build the index
        enum Ix {
            L(Index<LinearIndex>),
            B(Index<BinnedIndex>),
        }
        let ix = if linear {
            let wins = rng.urange(0, ((n - 1) >> 14) + 1).min(40);
            let mut lin: Vec<u64> = (0..wins).map(|_| vmap(kind, rng.below(umax))).collect();
            lin.sort();
            let rs = ReferenceSequence::new(bins, lin.into_iter().map(vp).collect::<LinearIndex>(), None);
            Ix::L(Index::builder().set_min_shift(ms).set_depth(d).set_reference_sequences(vec![rs]).build())
        } else {
            let mut bi = BinnedIndex::default();
            for &id in &ids {
                if rng.chance(4, 5) {
                    bi.insert(id, vp(vmap(kind, rng.below(umax))));
                }
            }
            let rs = ReferenceSequence::new(bins, bi, None);
            Ix::B(Index::builder().set_min_shift(ms).set_depth(d).set_reference_sequences(vec![rs]).build())
        };
        for &(rs, re) in &regions {
            let iv: Interval = (pos(rs)..=pos(re)).into();
            let r = guard::catch(|| match &ix {
                Ix::L(i) => (i.query(0, iv), i.reference_sequences()[0].min_offset(ms, d, pos(rs))),
                Ix::B(i) => (i.query(0, iv), i.reference_sequences()[0].min_offset(ms, d, pos(rs))),
            });
            evals += 1;
            let (res, mo) = match r {
                Err(p) => {
                    nviol += 1;
                    if nviol <= 3 {
                        o.violation(format!("query-cover:panic:{}", p.sig), format!("BinningIndex::query({iv}) on a hand-built index panicked: {}", p.message));
                    }
                    continue;
                }
                Ok(x) => x,
            };
            let out: Vec<(u64, u64)> = match res {
                Ok(v) => v.iter().map(|c| (u64::from(c.start()), u64::from(c.end()))).collect(),
                Err(e) => {
                    nviol += 1;
                    if nviol <= 3 {
                        o.violation("query-cover:query-failed", format!("BinningIndex::query({iv}) at ({ms},{d}) failed on a valid region: {e}"));
                    }
                    continue;
                }
            };
            let mo = u64::from(mo);
            // bins whose interval intersects [rs-1, re) (0-based half-open), chunks ending beyond min_offset
            let need: Vec<(usize, (u64, u64))> = all
                .iter()
                .copied()
                .filter(|&(id, (_, e))| {
                    let (_, b0, b1) = bin_interval(id, ms, d);
                    b0 < re && rs - 1 < b1 && e > mo
                })
                .collect();
            let mut bad = None;
            'p: for &p in &pts {
                for &(id, (s, e)) in &need {
                    if s <= p && p < e && !covered(&out, p) {
                        bad = Some((id, (s, e), p));
                        break 'p;
                    }
                }
            }
            if let Some((id, c, p)) = bad {
                nviol += 1;
                if nviol <= 3 {
                    let (lvl, b0, b1) = bin_interval(id, ms, d);
                    o.violation(
                        format!("query-cover:{}:retained-chunk-of-overlapping-bin-uncovered", if linear { "linear" } else { "binned" }),
                        format!(
                            "geometry ({ms},{d}), region {iv}, min_offset {mo}: bin {id} (level {lvl}, 0-based [{b0},{b1})) overlaps the region and holds chunk {c:?} \
                             ending beyond min_offset, but position {p} is not covered by the query result {out:?}"
                        ),
                    );
                }
            }
            fps.push(fnv1a(format!("qc|{linear}|{ms}|{d}|{}|{}|{}", need.len().min(8), out.len().min(8), mo > 0).as_bytes()));
        }
    }
    fps.sort_unstable();
    fps.dedup();
    o.fps = fps;
    o.evaluations = evals.max(1);
    o.count("query_cover_queries", evals);
}
