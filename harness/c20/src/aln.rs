//! Alignment side of C20: common-model record sets, the five (format, compression) pairs of the
//! generic writer, canonical data-model rendering of written descriptions and of records read back.

use std::io::{self, Read};

use noodles_bam as bam;
use noodles_bgzf as bgzf;
use noodles_core::Position;
use noodles_cram as cram;
use noodles_fasta as fasta;
use noodles_sam::{
    self as sam,
    alignment::{
        RecordBuf,
        record::{
            Flags, MappingQuality,
            cigar::{Op, op::Kind},
            data::field::Tag,
        },
        record_buf::data::field::{Value, value::Array},
    },
};
use noodles_util::alignment as ualn;
use vcore::Rng;

use crate::Fail;

#[derive(Clone, Copy, Debug, PartialEq, Eq)]
pub enum AFmt {
    Sam,
    SamGz,
    Bam,
    BamRaw,
    Cram,
}

pub const AFMTS: [AFmt; 5] = [AFmt::Sam, AFmt::SamGz, AFmt::Bam, AFmt::BamRaw, AFmt::Cram];

impl AFmt {
    pub fn name(self) -> &'static str {
        match self {
            AFmt::Sam => "sam",
            AFmt::SamGz => "sam.gz",
            AFmt::Bam => "bam",
            AFmt::BamRaw => "bam.raw",
            AFmt::Cram => "cram",
        }
    }

    pub fn format(self) -> ualn::io::Format {
        match self {
            AFmt::Sam | AFmt::SamGz => ualn::io::Format::Sam,
            AFmt::Bam | AFmt::BamRaw => ualn::io::Format::Bam,
            AFmt::Cram => ualn::io::Format::Cram,
        }
    }

    pub fn compression(self) -> Option<ualn::io::CompressionMethod> {
        match self {
            AFmt::SamGz | AFmt::Bam => Some(ualn::io::CompressionMethod::Bgzf),
            _ => None,
        }
    }

    pub fn bgzf(self) -> bool {
        self.compression().is_some()
    }

    /// Length of the leading magic the reader must see in an uncompressed stream (0 = the
    /// default format, recognised by the absence of any magic).
    pub fn raw_magic_len(self) -> usize {
        match self {
            AFmt::BamRaw | AFmt::Cram => 4,
            _ => 0,
        }
    }

    /// Which `noodles_util::alignment::Record` variant `read_record` must produce.
    pub fn record_variant(self) -> &'static str {
        match self {
            AFmt::Sam | AFmt::SamGz => "Sam",
            AFmt::Bam | AFmt::BamRaw => "Bam",
            AFmt::Cram => "Cram",
        }
    }
}

/// File names for the writer's `build_from_path` (no `set_format`) and the (format, compression) they must
/// select, as indices into `AFMTS`. Rule (the builder's documentation: "detected from the path extension"): the
/// *last* extension decides — sam, bam, cram; gz/bgz after a stem ending in "sam" = bgzipped SAM; dots elsewhere in
/// the file name or in directory names mean nothing. Established on the unchanged tree and pinned: no extension,
/// an unknown extension and an upper-case extension (matching is case sensitive) fall back to the documented
/// default format SAM, with BGZF iff the last extension is gz/bgz/bam.
pub const PATH_CASES: &[(&str, usize)] = &[
    ("out.sam", 0),
    ("out.sam.gz", 1),
    ("out.bam", 2),
    ("out.cram", 4),
    ("out.sam.bgz", 1),
    ("sample.chr20.bam", 2),
    ("NA12878.chr20.sorted.bam", 2),
    ("reads.v2.sorted.cram", 4),
    ("a.b.cram", 4),
    ("a.b.sam", 0),
    ("x.y.sam.gz", 1),
    ("x.bam.sam.gz", 1),
    ("my.sam.bam", 2),
    ("my.bam.sam", 0),
    ("my.cram.sam", 0),
    ("my.sam.cram", 4),
    ("cram.bam", 2),
    ("bam.cram", 4),
    ("sam.gz.bam", 2),
    ("dir.bam/out.sam", 0),
    ("dir.sam/out.cram", 4),
    ("dir.cram/sub.sam.gz/x.bam", 2),
    ("dir.sam/noext", 0),
    ("noext", 0),
    ("out.txt", 0),
    ("OUT.BAM", 0),
    ("reads.gz", 1),
];

// ---------------------------------------------------------------------------------------------
// descriptions (plain data owned by the harness)

#[derive(Clone, Debug)]
pub struct RefDesc {
    pub name: String,
    pub seq: Vec<u8>,
}

#[derive(Clone, Debug)]
pub enum Aux {
    Char(u8),
    /// value, storage type selector (which of the admissible RecordBuf integer types is used)
    Int(i64, u8),
    Float(f32),
    Str(String),
    Hex(String),
    /// subtype letter (cCsSiI), values
    IntArr(char, Vec<i64>),
    FloatArr(Vec<f32>),
}

#[derive(Clone, Debug)]
pub struct Aln {
    pub name: String,
    pub flags: u16,
    pub rid: Option<usize>,
    /// 1-based
    pub pos: Option<usize>,
    pub mapq: Option<u8>,
    pub cigar: Vec<(char, usize)>,
    pub mrid: Option<usize>,
    pub mpos: Option<usize>,
    pub tlen: i32,
    pub seq: Vec<u8>,
    /// phred values
    pub qual: Vec<u8>,
    pub aux: Vec<([u8; 2], Aux)>,
}

#[derive(Clone, Debug)]
pub struct ASet {
    pub class: String,
    pub header_text: String,
    pub refs: Vec<RefDesc>,
    pub recs: Vec<Aln>,
    /// how many same-name templates of each consistency kind the set contains
    pub pair_stats: Vec<(String, u64)>,
}

pub const COLS: [&str; 12] = ["qname", "flag", "rname", "pos", "mapq", "cigar", "rnext", "pnext", "tlen", "seq", "qual", "aux"];

fn f32s(x: f32) -> String {
    format!("f{:08x}", x.to_bits())
}

fn aux_expected(a: &Aux) -> String {
    match a {
        Aux::Char(c) => format!("A:{}", *c as char),
        Aux::Int(v, _) => format!("i:{v}"),
        Aux::Float(x) => format!("f:{}", f32s(*x)),
        Aux::Str(s) => format!("Z:{s}"),
        Aux::Hex(s) => format!("H:{s}"),
        Aux::IntArr(t, v) => format!("B:{t}:{}", v.iter().map(|x| x.to_string()).collect::<Vec<_>>().join(",")),
        Aux::FloatArr(v) => format!("B:f:{}", v.iter().map(|x| f32s(*x)).collect::<Vec<_>>().join(",")),
    }
}

fn qual_text(q: &[u8]) -> String {
    q.iter().map(|&x| (x + 33) as char).collect()
}

/// Canonical data-model line of a description (12 tab-separated columns, aux sorted by tag).
pub fn expected_line(a: &Aln, refs: &[RefDesc]) -> String {
    let rn = |i: Option<usize>| i.map(|i| refs[i].name.clone()).unwrap_or_else(|| "*".into());
    let p = |i: Option<usize>| i.unwrap_or(0).to_string();
    let cigar = if a.cigar.is_empty() { "*".to_string() } else { a.cigar.iter().map(|(k, n)| format!("{n}{k}")).collect() };
    let mut aux: Vec<String> = a.aux.iter().map(|(t, v)| format!("{}{}:{}", t[0] as char, t[1] as char, aux_expected(v))).collect();
    aux.sort();
    [
        a.name.clone(),
        a.flags.to_string(),
        rn(a.rid),
        p(a.pos),
        a.mapq.unwrap_or(255).to_string(),
        cigar,
        rn(a.mrid),
        p(a.mpos),
        a.tlen.to_string(),
        if a.seq.is_empty() { "*".into() } else { String::from_utf8_lossy(&a.seq).into_owned() },
        if a.qual.is_empty() { "*".into() } else { qual_text(&a.qual) },
        aux.join(" "),
    ]
    .join("\t")
}

pub static CG_CARRIER_FIELDS_ATTRIBUTED: std::sync::atomic::AtomicU64 = std::sync::atomic::AtomicU64::new(0);

fn kind_char(k: Kind) -> char {
    match k {
        Kind::Match => 'M',
        Kind::Insertion => 'I',
        Kind::Deletion => 'D',
        Kind::Skip => 'N',
        Kind::SoftClip => 'S',
        Kind::HardClip => 'H',
        Kind::Pad => 'P',
        Kind::SequenceMatch => '=',
        Kind::SequenceMismatch => 'X',
    }
}

fn char_kind(c: char) -> Kind {
    match c {
        'M' => Kind::Match,
        'I' => Kind::Insertion,
        'D' => Kind::Deletion,
        'N' => Kind::Skip,
        'S' => Kind::SoftClip,
        c => panic!("cigar op {c} is outside the common model"),
    }
}

fn value_observed(v: &Value) -> String {
    match v {
        Value::Character(c) => format!("A:{}", *c as char),
        Value::Float(x) => format!("f:{}", f32s(*x)),
        Value::String(s) => format!("Z:{}", String::from_utf8_lossy(s)),
        Value::Hex(s) => format!("H:{}", String::from_utf8_lossy(s)),
        Value::Array(a) => {
            fn j<T: ToString>(v: &[T]) -> String {
                v.iter().map(|x| x.to_string()).collect::<Vec<_>>().join(",")
            }
            match a {
                Array::Int8(v) => format!("B:c:{}", j(v)),
                Array::UInt8(v) => format!("B:C:{}", j(v)),
                Array::Int16(v) => format!("B:s:{}", j(v)),
                Array::UInt16(v) => format!("B:S:{}", j(v)),
                Array::Int32(v) => format!("B:i:{}", j(v)),
                Array::UInt32(v) => format!("B:I:{}", j(v)),
                Array::Float(v) => format!("B:f:{}", v.iter().map(|x| f32s(*x)).collect::<Vec<_>>().join(",")),
            }
        }
        other => match other.as_int() {
            Some(n) => format!("i:{n}"),
            None => format!("?:{other:?}"),
        },
    }
}

/// Canonical data-model line of a record as seen through the `sam::alignment::Record` trait,
/// reference names resolved through the header that was read from the same stream.
pub fn observed_line(header: &sam::Header, rec: &dyn sam::alignment::Record) -> io::Result<String> {
    let rb = RecordBuf::try_from_alignment_record(header, rec)?;
    let rn = |i: Option<usize>| -> io::Result<String> {
        match i {
            None => Ok("*".into()),
            Some(i) => header
                .reference_sequences()
                .get_index(i)
                .map(|(n, _)| String::from_utf8_lossy(n).into_owned())
                .ok_or_else(|| io::Error::new(io::ErrorKind::InvalidData, format!("reference id {i} is not in the header that was read"))),
        }
    };
    let p = |x: Option<Position>| x.map(usize::from).unwrap_or(0).to_string();
    let ops: &[Op] = rb.cigar().as_ref();
    let cigar = if ops.is_empty() { "*".to_string() } else { ops.iter().map(|o| format!("{}{}", o.len(), kind_char(o.kind()))).collect() };
    let mut aux: Vec<String> = rb
        .data()
        .iter()
        .map(|(t, v)| {
            let t: [u8; 2] = t.into();
            format!("{}{}:{}", t[0] as char, t[1] as char, value_observed(v))
        })
        .collect();
    // Known C05 (lazy-ne-eager:data-retains-CG-of-long-cigar) / C06 (sam-bam-sam:extra-CG-field-of-long-cigar):
    // the lazy bam::Record keeps the BAM-only CG:B:I carrier field of a CIGAR with more than 65535 operations next
    // to the resolved CIGAR. The generator never writes a CG tag, so exactly that field on exactly such a record is
    // attributed to the listed finding (counted), not judged again here.
    if ops.len() > 65535 {
        let before = aux.len();
        aux.retain(|x| !x.starts_with("CG:B:I:"));
        CG_CARRIER_FIELDS_ATTRIBUTED.fetch_add((before - aux.len()) as u64, std::sync::atomic::Ordering::Relaxed);
    }
    aux.sort();
    let seq: &[u8] = rb.sequence().as_ref();
    let qual: &[u8] = rb.quality_scores().as_ref();
    Ok([
        rb.name().map(|n| String::from_utf8_lossy(n).into_owned()).unwrap_or_else(|| "*".into()),
        u16::from(rb.flags()).to_string(),
        rn(rb.reference_sequence_id())?,
        p(rb.alignment_start()),
        rb.mapping_quality().map(u8::from).unwrap_or(255).to_string(),
        cigar,
        rn(rb.mate_reference_sequence_id())?,
        p(rb.mate_alignment_start()),
        rb.template_length().to_string(),
        if seq.is_empty() { "*".into() } else { String::from_utf8_lossy(seq).into_owned() },
        if qual.is_empty() { "*".into() } else { qual_text(qual) },
        aux.join(" "),
    ]
    .join("\t"))
}

fn int_value(v: i64, sel: u8) -> Value {
    // all RecordBuf integer types that can hold v; `sel` picks one
    let mut c: Vec<Value> = Vec::new();
    if let Ok(x) = i8::try_from(v) {
        c.push(Value::Int8(x));
    }
    if let Ok(x) = u8::try_from(v) {
        c.push(Value::UInt8(x));
    }
    if let Ok(x) = i16::try_from(v) {
        c.push(Value::Int16(x));
    }
    if let Ok(x) = u16::try_from(v) {
        c.push(Value::UInt16(x));
    }
    if let Ok(x) = i32::try_from(v) {
        c.push(Value::Int32(x));
    }
    if let Ok(x) = u32::try_from(v) {
        c.push(Value::UInt32(x));
    }
    c[sel as usize % c.len()].clone()
}

fn aux_value(a: &Aux) -> Value {
    match a {
        Aux::Char(c) => Value::Character(*c),
        Aux::Int(v, sel) => int_value(*v, *sel),
        Aux::Float(x) => Value::Float(*x),
        Aux::Str(s) => Value::String(s.as_str().into()),
        Aux::Hex(s) => Value::Hex(s.as_str().into()),
        Aux::IntArr(t, v) => Value::Array(match t {
            'c' => Array::Int8(v.iter().map(|&x| x as i8).collect()),
            'C' => Array::UInt8(v.iter().map(|&x| x as u8).collect()),
            's' => Array::Int16(v.iter().map(|&x| x as i16).collect()),
            'S' => Array::UInt16(v.iter().map(|&x| x as u16).collect()),
            'i' => Array::Int32(v.iter().map(|&x| x as i32).collect()),
            'I' => Array::UInt32(v.iter().map(|&x| x as u32).collect()),
            t => panic!("array subtype {t}"),
        }),
        Aux::FloatArr(v) => Value::Array(Array::Float(v.clone())),
    }
}

pub fn to_record_buf(a: &Aln) -> RecordBuf {
    let mut b = RecordBuf::builder()
        .set_name(a.name.as_str())
        .set_flags(Flags::from(a.flags))
        .set_template_length(a.tlen)
        .set_cigar(a.cigar.iter().map(|&(k, n)| Op::new(char_kind(k), n)).collect())
        .set_sequence(a.seq.clone().into())
        .set_quality_scores(a.qual.clone().into())
        .set_data(a.aux.iter().map(|(t, v)| (Tag::new(t[0], t[1]), aux_value(v))).collect());
    if let Some(i) = a.rid {
        b = b.set_reference_sequence_id(i);
    }
    if let Some(p) = a.pos {
        b = b.set_alignment_start(Position::new(p).expect("pos >= 1"));
    }
    if let Some(q) = a.mapq {
        b = b.set_mapping_quality(MappingQuality::new(q).expect("mapq < 255"));
    }
    if let Some(i) = a.mrid {
        b = b.set_mate_reference_sequence_id(i);
    }
    if let Some(p) = a.mpos {
        b = b.set_mate_alignment_start(Position::new(p).expect("mpos >= 1"));
    }
    b.build()
}

pub fn repository(refs: &[RefDesc]) -> fasta::Repository {
    let records: Vec<fasta::Record> = refs
        .iter()
        .map(|r| fasta::Record::new(fasta::record::Definition::new(r.name.as_str(), None), fasta::record::Sequence::from(r.seq.clone())))
        .collect();
    fasta::Repository::new(records)
}

// ---------------------------------------------------------------------------------------------
// generators

const NAME_CHARS: &[u8] = b"ABCDEFGHIJKLMNOPQRSTUVWXYZabcdefghijklmnopqrstuvwxyz0123456789_:./#-+";
const STR_CHARS: &[u8] = b"ABCDEFGHIJKLMNOPQRSTUVWXYZabcdefghijklmnopqrstuvwxyz0123456789 _:;,./#-+=()[]{}<>!?@*~";
const INT_EDGES: &[i64] = &[
    0, 1, -1, 127, 128, -128, -129, 255, 256, 32767, 32768, -32768, -32769, 65535, 65536, 2147483647, -2147483648, 2147483648, 4294967295,
];

fn rand_ref(rng: &mut Rng, len: usize) -> Vec<u8> {
    (0..len)
        .map(|_| match rng.below(50) {
            0 => b'N',
            k => b"ACGT"[(k % 4) as usize],
        })
        .collect()
}

fn rand_base(rng: &mut Rng) -> u8 {
    match rng.below(40) {
        0 => b'N',
        k => b"ACGT"[(k % 4) as usize],
    }
}

fn rand_str(rng: &mut Rng, chars: &[u8], lo: usize, hi: usize) -> String {
    let n = rng.urange(lo, hi);
    (0..n).map(|_| *rng.pick(chars) as char).collect()
}

/// One third "nice" values, two thirds over the full finite bit-pattern range (NaN and the infinities: see
/// the class `nonfinite-floats`).
fn aux_f32(rng: &mut Rng) -> f32 {
    if rng.chance(1, 3) { rng.range(-4000, 4000) as f32 / 16.0 } else { crate::flt::wide_f32(rng) }
}

/// B:f entries: also the canonical NaN and the infinities, which every format carries in arrays (established
/// with the probe class `nonfinite-floats`). The SAM writer rejects them as a *scalar* `f` value ("invalid
/// float"), so scalars stay finite.
fn aux_f32_arr(rng: &mut Rng) -> f32 {
    if rng.chance(1, 30) { *rng.pick(&[f32::NAN, f32::INFINITY, f32::NEG_INFINITY]) } else { aux_f32(rng) }
}

fn rand_aux(rng: &mut Rng, read_groups: &[String], long: bool) -> Vec<([u8; 2], Aux)> {
    let mut out: Vec<([u8; 2], Aux)> = Vec::new();
    if long {
        // always present in the multi-block sets: a long string, and mostly a long array / hex / second string
        out.push((*b"YZ", Aux::Str(rand_str(rng, STR_CHARS, 100, 400))));
        if rng.chance(2, 3) {
            let n = rng.urange(40, 160);
            out.push((*b"YS", Aux::IntArr('S', (0..n).map(|_| rng.range(0, 65535)).collect())));
        }
        if rng.chance(1, 2) {
            let n = rng.urange(30, 120);
            out.push((*b"YH", Aux::Hex((0..2 * n).map(|_| *rng.pick(b"0123456789ABCDEF") as char).collect())));
        }
        if rng.chance(1, 2) {
            out.push((*b"YY", Aux::Str(rand_str(rng, STR_CHARS, 60, 250))));
        }
        if rng.chance(1, 2) {
            let n = rng.urange(20, 80);
            out.push((*b"YF", Aux::FloatArr((0..n).map(|_| aux_f32_arr(rng)).collect())));
        }
    }
    let n = match rng.below(4) {
        0 => 0,
        1 => 1,
        _ => rng.urange(2, 7),
    };
    let pool: [&[u8; 2]; 14] = [b"NM", b"AS", b"XS", b"XA", b"XZ", b"XH", b"Xc", b"XC", b"Xs", b"XT", b"Xi", b"XI", b"XF", b"XG"];
    let mut picks: Vec<usize> = (0..pool.len()).collect();
    rng.shuffle(&mut picks);
    for &k in picks.iter().take(n) {
        let tag = *pool[k];
        if out.iter().any(|(t, _)| *t == tag) {
            continue;
        }
        let int = |rng: &mut Rng| -> i64 {
            if rng.chance(1, 3) { *rng.pick(INT_EDGES) } else { rng.range(-70000, 70000) }
        };
        let arr = |rng: &mut Rng, t: char, lo: i64, hi: i64| -> Aux {
            let n = rng.urange(1, 6);
            Aux::IntArr(t, (0..n).map(|_| if rng.chance(1, 4) { *rng.pick(&[lo, hi, 0]) } else { rng.range(lo, hi) }).collect())
        };
        let v = match k {
            0 => Aux::Int(rng.range(0, 300), rng.below(6) as u8),
            1 | 2 => Aux::Int(int(rng), rng.below(6) as u8),
            3 => Aux::Char(*rng.pick(b"ABCxyz019!~#")),
            4 => Aux::Str(rand_str(rng, STR_CHARS, 0, 24)),
            5 => {
                let n = rng.urange(1, 6);
                Aux::Hex((0..2 * n).map(|_| *rng.pick(b"0123456789ABCDEF") as char).collect())
            }
            6 => arr(rng, 'c', -128, 127),
            7 => arr(rng, 'C', 0, 255),
            8 => arr(rng, 's', -32768, 32767),
            9 => arr(rng, 'S', 0, 65535),
            10 => arr(rng, 'i', -2147483648, 2147483647),
            11 => arr(rng, 'I', 0, 4294967295),
            12 => Aux::Float(aux_f32(rng)),
            _ => {
                let n = rng.urange(1, 5);
                Aux::FloatArr((0..n).map(|_| aux_f32_arr(rng)).collect())
            }
        };
        out.push((tag, v));
    }
    if !read_groups.is_empty() && rng.chance(1, 2) {
        out.push((*b"RG", Aux::Str(rng.pick(read_groups).clone())));
    }
    out
}

fn rand_cigar(rng: &mut Rng, max_read: usize, max_span: usize) -> Vec<(char, usize)> {
    // [S] M ((I|D|N) M)* [S]; adjacent kinds differ; first and last reference-consuming op is M
    let mut ops: Vec<(char, usize)> = Vec::new();
    let mut read = 0usize;
    let mut span = 0usize;
    let lead = rng.chance(1, 4);
    if lead {
        let n = rng.urange(1, 8.min(max_read / 4).max(1));
        ops.push(('S', n));
        read += n;
    }
    let m = rng.urange(1, (max_read / 2).max(1));
    ops.push(('M', m));
    read += m;
    span += m;
    let blocks = if rng.chance(1, 2) { 0 } else { rng.urange(1, 5) };
    for _ in 0..blocks {
        let k = *rng.pick(&['I', 'D', 'N', 'I', 'D']);
        let n = match k {
            'N' => rng.urange(1, 60),
            _ => rng.urange(1, 6),
        };
        let m = rng.urange(1, (max_read / 4).max(1));
        let (dr, ds) = match k {
            'I' => (n + m, m),
            _ => (m, n + m),
        };
        if read + dr + 8 > max_read || span + ds > max_span {
            break;
        }
        ops.push((k, n));
        ops.push(('M', m));
        read += dr;
        span += ds;
    }
    if rng.chance(1, 4) && read + 1 < max_read {
        let n = rng.urange(1, 8.min(max_read - read));
        ops.push(('S', n));
    }
    ops
}

fn cigar_read_len(c: &[(char, usize)]) -> usize {
    c.iter().filter(|(k, _)| matches!(k, 'M' | 'I' | 'S')).map(|(_, n)| n).sum()
}

fn cigar_span(c: &[(char, usize)]) -> usize {
    c.iter().filter(|(k, _)| matches!(k, 'M' | 'D' | 'N')).map(|(_, n)| n).sum()
}

pub struct GenOpts {
    pub mapped: bool,
    pub unmapped: bool,
    pub placed_unmapped: bool,
    pub max_read: usize,
    pub aux: bool,
    /// long names, long Z/B aux values, long reads: every kind of value gets a chance to straddle a
    /// BGZF block boundary of the SAM.gz / BAM targets
    pub long: bool,
}

fn rand_record(rng: &mut Rng, idx: usize, refs: &[RefDesc], rgs: &[String], o: &GenOpts) -> Aln {
    // unique within the set (the separator keeps "r52"+"7" apart from "r527"): CRAM attaches records of
    // one name to each other as mates and recomputes their mate fields
    let name = if o.long { format!("r{idx}:{}", rand_str(rng, NAME_CHARS, 40, 230)) } else { format!("r{idx}:{}", rand_str(rng, NAME_CHARS, 0, 12)) };
    let want_mapped = !refs.is_empty() && o.mapped && (!o.unmapped || rng.chance(3, 4));
    let mut flags: u16 = 0;
    let paired = rng.chance(1, 2);
    if paired {
        flags |= 0x1;
        if rng.bool() {
            flags |= 0x2;
        }
        flags |= if rng.bool() { 0x40 } else { 0x80 };
        if rng.chance(1, 3) {
            flags |= 0x20;
        }
    }
    for bit in [0x10u16, 0x100, 0x200, 0x400, 0x800] {
        if rng.chance(1, 5) {
            flags |= bit;
        }
    }
    let (rid, pos, mapq, cigar, seq);
    if want_mapped {
        let r = rng.usize_below(refs.len());
        let rlen = refs[r].seq.len();
        let c = rand_cigar(rng, o.max_read.min(rlen), rlen);
        let span = cigar_span(&c);
        let p = rng.urange(1, rlen - span + 1);
        // bases follow the reference along M (10% substitutions), random elsewhere
        let mut s = Vec::with_capacity(cigar_read_len(&c));
        let mut rp = p - 1;
        for &(k, n) in &c {
            match k {
                'M' => {
                    for j in 0..n {
                        let rb = refs[r].seq[rp + j];
                        s.push(if rng.chance(1, 10) { rand_base(rng) } else { rb });
                    }
                    rp += n;
                }
                'I' | 'S' => (0..n).for_each(|_| s.push(rand_base(rng))),
                _ => rp += n,
            }
        }
        rid = Some(r);
        pos = Some(p);
        mapq = if rng.chance(1, 10) { None } else { Some(rng.below(255) as u8) };
        cigar = c;
        seq = s;
    } else {
        flags |= 0x4;
        flags &= !0x2;
        let n = if o.long { rng.urange(o.max_read / 4, o.max_read) } else { rng.urange(1, o.max_read) };
        seq = (0..n).map(|_| rand_base(rng)).collect();
        cigar = Vec::new();
        // CRAM has no mapping quality for unmapped reads (the MQ series exists for mapped reads only):
        // in the common model an unmapped read carries none
        mapq = None;
        let r = if refs.is_empty() { 0 } else { rng.usize_below(refs.len()) };
        // placed unmapped read (at its mate's position), also hanging over the reference end (regression class
        // `witness-placed-unmapped-read-overhanging-reference-end`)
        if o.placed_unmapped && !refs.is_empty() && rng.chance(1, 3) {
            rid = Some(r);
            pos = Some(rng.urange(1, refs[r].seq.len()));
        } else {
            rid = None;
            pos = None;
        }
    }
    let mut qual: Vec<u8> = match rng.below(4) {
        0 => vec![rng.below(61) as u8; seq.len()],
        _ => (0..seq.len()).map(|_| rng.below(61) as u8).collect(),
    };
    // a single score 9 renders as "*" in SAM text (= missing): outside the common model
    if qual.len() == 1 && qual[0] == 9 {
        qual[0] = 10;
    }
    let (mut mrid, mut mpos, mut tlen) = (None, None, 0);
    if paired && !refs.is_empty() {
        if rng.chance(1, 5) {
            flags |= 0x8; // mate unmapped, no mate position
        } else {
            let r = if rid.is_some() && rng.chance(2, 3) { rid.unwrap() } else { rng.usize_below(refs.len()) };
            mrid = Some(r);
            mpos = Some(rng.urange(1, refs[r].seq.len()));
            if rid == mrid {
                tlen = rng.range(-1500, 1500) as i32;
            }
        }
    } else if paired {
        flags |= 0x8;
    }
    let aux = if o.aux { rand_aux(rng, rgs, o.long) } else { Vec::new() };
    Aln { name, flags, rid, pos, mapq, cigar, mrid, mpos, tlen, seq, qual, aux }
}

/// Ways in which the mate fields of one segment can disagree with its mate ("stale" mate information).
pub const STALE_KINDS: [&str; 8] = ["none", "pnext", "rnext", "mate-reverse", "mate-unmapped", "tlen-magnitude", "tlen-sign", "tlen-zero"];

/// A template of two primary segments that share a name, both mapped to one reference. The base pair is
/// mutually consistent in the way the CRAM writer requires for attaching mates (mate reverse / unmapped
/// bits, RNEXT, PNEXT of each record name the other one; TLEN = +-(rightmost end - leftmost start + 1), positive
/// on the record that comes first in the file); `kind` then makes the mate fields of the first (`side` 1), the
/// second (2) or both (3) records stale. Whatever the fields say, every format has to return them as written.
fn make_pair(rng: &mut Rng, idx: usize, refs: &[RefDesc], rgs: &[String], o: &GenOpts, kind: &str, side: u8) -> (Aln, Aln, &'static str) {
    let r = rng.usize_below(refs.len());
    let one = &refs[r..=r];
    let m = GenOpts { mapped: true, unmapped: false, placed_unmapped: false, max_read: o.max_read, aux: o.aux, long: o.long };
    let mut a = rand_record(rng, idx, one, rgs, &m);
    let mut b = rand_record(rng, idx, one, rgs, &m);
    // mostly the first record in the file is the leftmost one
    if a.pos > b.pos && rng.chance(3, 4) {
        std::mem::swap(&mut a, &mut b);
    }
    b.name = a.name.clone();
    let proper = rng.bool();
    for (x, seg) in [(&mut a, 0x40u16), (&mut b, 0x80u16)] {
        x.rid = Some(r);
        x.flags &= 0x10 | 0x200 | 0x400;
        x.flags |= 0x1 | seg | if proper { 0x2 } else { 0 };
    }
    if b.flags & 0x10 != 0 {
        a.flags |= 0x20;
    }
    if a.flags & 0x10 != 0 {
        b.flags |= 0x20;
    }
    let end = |x: &Aln| x.pos.unwrap() + cigar_span(&x.cigar) - 1;
    let t = (end(&a).max(end(&b)) - a.pos.unwrap().min(b.pos.unwrap()) + 1) as i32;
    (a.mrid, a.mpos, a.tlen) = (Some(r), b.pos, t);
    (b.mrid, b.mpos, b.tlen) = (Some(r), a.pos, -t);
    let kind = if kind == "rnext" && refs.len() < 2 { "pnext" } else { kind };
    let stale = |x: &mut Aln, rng: &mut Rng| match kind {
        "none" => {}
        "pnext" => {
            let p = x.mpos.unwrap();
            let d = rng.urange(1, 30);
            x.mpos = Some(if p > d && rng.bool() { p - d } else { p + d });
        }
        "rnext" => x.mrid = Some((r + 1 + rng.usize_below(refs.len() - 1)) % refs.len()),
        "mate-reverse" => x.flags ^= 0x20,
        "mate-unmapped" => x.flags ^= 0x8,
        "tlen-magnitude" => x.tlen += if x.tlen > 0 { rng.range(1, 40) as i32 } else { -(rng.range(1, 40) as i32) },
        "tlen-sign" => x.tlen = -x.tlen,
        "tlen-zero" => x.tlen = 0,
        k => panic!("stale kind {k}"),
    };
    if side & 1 != 0 {
        stale(&mut a, rng);
    }
    if side & 2 != 0 {
        stale(&mut b, rng);
    }
    let stat = match (kind, side) {
        ("none", _) => "consistent",
        (_, 1) => "stale-first-only",
        (_, 2) => "stale-second-only",
        _ => "stale-both",
    };
    (a, b, stat)
}

/// `n` units; a unit is a single read or (with chance `pair_num/pair_den`) a same-name pair whose second
/// segment follows immediately or after 1..5 other units.
fn rand_records_with_pairs(rng: &mut Rng, n: usize, refs: &[RefDesc], rgs: &[String], o: &GenOpts, pair_num: u64, pair_den: u64, stats: &mut Vec<(String, u64)>) -> Vec<Aln> {
    let mut out: Vec<Aln> = Vec::new();
    let mut delayed: Vec<(usize, Aln)> = Vec::new();
    for i in 0..n {
        if !refs.is_empty() && o.mapped && rng.chance(pair_num, pair_den) {
            let kind = if rng.chance(1, 4) { "none" } else { *rng.pick(&STALE_KINDS[1..]) };
            let side = *rng.pick(&[1u8, 2, 2, 3]);
            let (a, b, stat) = make_pair(rng, i, refs, rgs, o, kind, side);
            bump(stats, stat);
            out.push(a);
            if rng.bool() {
                out.push(b);
            } else {
                delayed.push((rng.urange(1, 5), b));
            }
        } else {
            out.push(rand_record(rng, i, refs, rgs, o));
        }
        let mut k = 0;
        while k < delayed.len() {
            if delayed[k].0 == 0 {
                out.push(delayed.remove(k).1);
            } else {
                delayed[k].0 -= 1;
                k += 1;
            }
        }
    }
    out.extend(delayed.into_iter().map(|d| d.1));
    out
}

fn bump(stats: &mut Vec<(String, u64)>, k: &str) {
    match stats.iter_mut().find(|e| e.0 == k) {
        Some(e) => e.1 += 1,
        None => stats.push((k.to_string(), 1)),
    }
}

fn header_text(refs: &[RefDesc], hd: Option<&str>, rgs: &[String], extras: bool) -> String {
    let mut t = String::new();
    if let Some(hd) = hd {
        t.push_str(hd);
        t.push('\n');
    }
    for r in refs {
        t.push_str(&format!("@SQ\tSN:{}\tLN:{}\n", r.name, r.seq.len()));
    }
    for g in rgs {
        t.push_str(&format!("@RG\tID:{g}\tSM:sample_{g}\tPL:ILLUMINA\n"));
    }
    if extras {
        t.push_str("@PG\tID:gen\tPN:c20\tVN:0.1\tCL:c20 --tier quick\n");
        t.push_str("@CO\tgenerated by the C20 monitor; free text with\ttabs and = signs\n");
    }
    t
}

fn make_refs(rng: &mut Rng, n: usize, lo: usize, hi: usize) -> Vec<RefDesc> {
    let styles = ["sq", "chr", "NC_0000", "HLA-A*01:01:0", "scaffold|"];
    (0..n).map(|i| RefDesc { name: format!("{}{}", styles[i % styles.len()], i), seq: { let l = rng.urange(lo, hi); rand_ref(rng, l) } }).collect()
}

pub const DET_CLASSES: &[&str] = &[
    "empty-header-no-records",
    "header-only",
    "header-only-no-hd",
    "one-mapped",
    "one-unmapped-no-references",
    "many-mixed",
    "multi-reference",
    "unmapped-only",
    "multi-block",
    "mate-pairs",
    "headerless-qname-BAM",
    "headerless-qname-BAM_0001",
    "headerless-qname-BAMBI.7",
    "headerless-qname-BA",
    "headerless-qname-B",
    "headerless-qname-BCF",
    "headerless-qname-BCF_1",
    "headerless-qname-CRA",
    "headerless-qname-CRA_M",
    "headerless-qname-C",
    // minimal set for a shape the random part avoids (read names are generated as r<index>...), and a regression set
    "witness-headerless-sam-qname-starts-with-CRAM",
    "witness-placed-unmapped-read-overhanging-reference-end",
];

/// Deterministic scale family (quick tier, all tiers): many records / single records larger than a BGZF block.
pub const SCALE_QUICK: &[&str] = &[
    "scale-many-records-10241",
    "scale-many-records-20481",
    "scale-large-record-70000",
    "scale-large-record-150000",
    "scale-long-cigar-seq-qual",
    "scale-long-cigar-seq-noqual",
    "scale-long-cigar-noseq-noqual",
];
pub const SCALE_THOROUGH: &[&str] = &["scale-many-records-25000", "scale-large-record-300000"];

pub const RANDOM_CLASSES: &[&str] = &["many-mixed", "multi-reference", "unmapped-only", "one-mapped", "few-long", "header-only", "multi-block", "mate-pairs"];

/// One record set of the given class; pure function of (class, seed).
pub fn make_set(class: &str, seed: u64) -> ASet {
    let mut rng = Rng::new(seed, 0xA5E7, 0);
    let rng = &mut rng;
    let hd = *rng.pick(&[Some("@HD\tVN:1.6\tSO:unsorted"), Some("@HD\tVN:1.6"), Some("@HD\tVN:1.5\tSO:unknown\tGO:none"), None]);
    let rgs: Vec<String> = if rng.bool() { vec!["rg0".into(), "rg1.lane-2".into()] } else { Vec::new() };
    let o = |mapped, unmapped, max_read| GenOpts { mapped, unmapped, placed_unmapped: true, max_read, aux: true, long: false };
    let mut stats: Vec<(String, u64)> = Vec::new();
    let (header_text, refs, recs): (String, Vec<RefDesc>, Vec<Aln>) = match class {
        "empty-header-no-records" => (String::new(), Vec::new(), Vec::new()),
        "header-only" => {
            let refs = { let k = rng.urange(1, 6); make_refs(rng, k, 50, 400) };
            (header_text(&refs, hd.or(Some("@HD\tVN:1.6")), &rgs, true), refs, Vec::new())
        }
        "header-only-no-hd" => {
            let refs = { let k = rng.urange(1, 3); make_refs(rng, k, 50, 400) };
            (header_text(&refs, None, &[], false), refs, Vec::new())
        }
        "one-mapped" => {
            let refs = make_refs(rng, 1, 80, 600);
            let r = rand_record(rng, 0, &refs, &rgs, &o(true, false, 120));
            (header_text(&refs, hd, &rgs, rng.bool()), refs, vec![r])
        }
        "one-unmapped-no-references" => {
            let r = rand_record(rng, 0, &[], &[], &o(false, true, 120));
            (header_text(&[], hd, &[], false), Vec::new(), vec![r])
        }
        "unmapped-only" => {
            let refs = if rng.bool() { make_refs(rng, 2, 60, 300) } else { Vec::new() };
            let n = rng.urange(2, 60);
            let recs = (0..n).map(|i| rand_record(rng, i, &refs, &rgs, &o(false, true, 150))).collect();
            (header_text(&refs, hd, &rgs, rng.bool()), refs, recs)
        }
        "many-mixed" => {
            let refs = { let k = rng.urange(1, 3); make_refs(rng, k, 200, 1500) };
            let n = rng.urange(10, 200);
            let recs = rand_records_with_pairs(rng, n, &refs, &rgs, &o(true, true, 160), 1, 4, &mut stats);
            (header_text(&refs, hd, &rgs, rng.bool()), refs, recs)
        }
        "multi-reference" => {
            let refs = { let k = rng.urange(3, 9); make_refs(rng, k, 100, 900) };
            let n = rng.urange(8, 120);
            let u = rng.bool();
            let recs = rand_records_with_pairs(rng, n, &refs, &rgs, &o(true, u, 120), 1, 3, &mut stats);
            (header_text(&refs, hd, &rgs, rng.bool()), refs, recs)
        }
        "few-long" => {
            let refs = make_refs(rng, 2, 3000, 9000);
            let n = rng.urange(1, 6);
            let recs = (0..n).map(|i| rand_record(rng, i, &refs, &rgs, &o(true, true, 2500))).collect();
            (header_text(&refs, hd, &rgs, rng.bool()), refs, recs)
        }
        // SAM text well above 64 KiB so that the BGZF variants have several blocks
        // >= 300 KiB of SAM text (>= 5 BGZF blocks in SAM.gz, several in BAM) made of long names, long
        // SEQ/QUAL, long Z/H/B aux values, so that every kind of value straddles block boundaries
        "multi-block" => {
            let refs = make_refs(rng, 3, 2500, 5000);
            let n = rng.urange(260, 340);
            let lo = GenOpts { mapped: true, unmapped: true, placed_unmapped: true, max_read: 1200, aux: true, long: true };
            let recs = rand_records_with_pairs(rng, n, &refs, &rgs, &lo, 1, 6, &mut stats);
            (header_text(&refs, hd, &rgs, true), refs, recs)
        }
        // every way of being stale x (first, second, both segments) x (adjacent, separated by three other
        // reads), each as its own same-name template, in one file (one CRAM slice)
        "mate-pairs" => {
            let refs = make_refs(rng, 2, 600, 1200);
            let p = o(true, false, 120);
            let mut recs: Vec<Aln> = Vec::new();
            let mut idx = 0usize;
            for sep in [0usize, 3] {
                for kind in STALE_KINDS {
                    for side in [1u8, 2, 3] {
                        let (a, b, stat) = make_pair(rng, idx, &refs, &rgs, &p, kind, side);
                        bump(&mut stats, stat);
                        idx += 1;
                        recs.push(a);
                        for _ in 0..sep {
                            recs.push(rand_record(rng, idx, &refs, &rgs, &o(true, true, 120)));
                            idx += 1;
                        }
                        recs.push(b);
                    }
                }
            }
            (header_text(&refs, hd.or(Some("@HD\tVN:1.6")), &rgs, false), refs, recs)
        }
        // no header lines; the first read name is (or starts with) a magic number or a prefix of one. None of
        // them is a magic: BAM needs the byte 0x01 and a CRAM/BCF file definition continues with version
        // bytes, which cannot occur in a QNAME (CRAM itself: see the witness class below)
        c if c.starts_with("headerless-qname-") => {
            let first = c.strip_prefix("headerless-qname-").unwrap();
            let u = GenOpts { mapped: false, unmapped: true, placed_unmapped: false, max_read: 60, aux: true, long: false };
            let mut recs: Vec<Aln> = (0..3).map(|i| rand_record(rng, i, &[], &[], &u)).collect();
            recs[0].name = first.to_string();
            (String::new(), Vec::new(), recs)
        }
        // no header lines, first (and only) read is named CRAM0: the SAM text starts with the CRAM magic
        "witness-headerless-sam-qname-starts-with-CRAM" => {
            let mut r = rand_record(rng, 0, &[], &[], &GenOpts { mapped: false, unmapped: true, placed_unmapped: false, max_read: 30, aux: false, long: false });
            r.name = "CRAM0".into();
            (String::new(), Vec::new(), vec![r])
        }
        // flag 4 with RNAME/POS of the mate, 30 bases starting 10 bases before the end of a 100-base reference
        "witness-placed-unmapped-read-overhanging-reference-end" => {
            let refs = make_refs(rng, 1, 100, 100);
            let mut r = rand_record(rng, 0, &[], &[], &GenOpts { mapped: false, unmapped: true, placed_unmapped: false, max_read: 30, aux: false, long: false });
            r.seq = (0..30).map(|_| rand_base(rng)).collect();
            r.qual = vec![30; 30];
            r.rid = Some(0);
            r.pos = Some(91);
            (header_text(&refs, Some("@HD\tVN:1.6"), &[], false), refs, vec![r])
        }
        // probe (not part of any run; `bisect=alignment:nonfinite-floats:1:<fmt>`): what each format does with
        // NaN and the infinities
        "nonfinite-floats" => {
            let u = GenOpts { mapped: false, unmapped: true, placed_unmapped: false, max_read: 20, aux: false, long: false };
            let recs = [f32::NAN, f32::INFINITY, f32::NEG_INFINITY]
                .iter()
                .enumerate()
                .flat_map(|(i, &x)| {
                    let mut a = rand_record(rng, 2 * i, &[], &[], &u);
                    a.aux = vec![(*b"XF", Aux::Float(x))];
                    let mut b = rand_record(rng, 2 * i + 1, &[], &[], &u);
                    b.aux = vec![(*b"XG", Aux::FloatArr(vec![1.0, x]))];
                    [a, b]
                })
                .collect();
            (String::new(), Vec::new(), recs)
        }
        // ---- scale family ----------------------------------------------------------------------
        // more records than one CRAM container holds (10 240): 2-3 data containers, several BGZF blocks
        c if c.starts_with("scale-many-records-") => {
            let n: usize = c.rsplit('-').next().unwrap().parse().expect("record count");
            let refs = make_refs(rng, 2, 150, 200);
            let m = GenOpts { mapped: true, unmapped: true, placed_unmapped: true, max_read: 24, aux: false, long: false };
            let recs = (0..n).map(|i| rand_record(rng, i, &refs, &[], &m)).collect();
            (header_text(&refs, Some("@HD\tVN:1.6"), &[], false), refs, recs)
        }
        // single records far larger than one BGZF block between small ones: a mapped read of n bases with a long
        // CIGAR, an unmapped read of n bases, a small read with a 100 kB Z tag
        c if c.starts_with("scale-large-record-") => {
            let n: usize = c.rsplit('-').next().unwrap().parse().expect("read length");
            let mut refs = make_refs(rng, 1, 300, 600);
            refs.push(RefDesc { name: "big1".into(), seq: rand_ref(rng, n + n / 8 + 1000) });
            let sm = o(true, true, 100);
            let mut recs: Vec<Aln> = Vec::new();
            let mut idx = 0usize;
            let small = |rng: &mut Rng, recs: &mut Vec<Aln>, idx: &mut usize, k: usize| {
                for _ in 0..k {
                    recs.push(rand_record(rng, *idx, &refs[..1], &rgs, &sm));
                    *idx += 1;
                }
            };
            small(rng, &mut recs, &mut idx, 3);
            // mapped: 5S then M blocks of 20..80 separated by I/D/N until n read bases are used
            let mut cigar: Vec<(char, usize)> = vec![('S', 5)];
            let mut read = 5usize;
            while read < n {
                let m = rng.urange(20, 80).min(n - read);
                cigar.push(('M', m));
                read += m;
                if read < n {
                    let k = *rng.pick(&['I', 'D', 'N', 'D']);
                    let l = if k == 'I' { rng.urange(1, 3).min(n - read) } else { rng.urange(1, 4) };
                    // an insertion must leave room for a closing M
                    let k = if k == 'I' && read + l >= n { 'D' } else { k };
                    cigar.push((k, l));
                    if k == 'I' {
                        read += l;
                    }
                }
            }
            if cigar.last().map(|o| o.0) != Some('M') {
                cigar.pop();
            }
            let span = cigar_span(&cigar);
            let p = rng.urange(1, refs[1].seq.len() - span + 1);
            let mut s = Vec::with_capacity(n);
            let mut rp = p - 1;
            for &(k, l) in &cigar {
                match k {
                    'M' => {
                        for j in 0..l {
                            let rb = refs[1].seq[rp + j];
                            s.push(if rng.chance(1, 50) { rand_base(rng) } else { rb });
                        }
                        rp += l;
                    }
                    'I' | 'S' => (0..l).for_each(|_| s.push(rand_base(rng))),
                    _ => rp += l,
                }
            }
            let mut big = rand_record(rng, idx, &refs[..1], &rgs, &o(true, false, 50));
            idx += 1;
            big.flags &= !(0x1 | 0x2 | 0x8 | 0x20 | 0x40 | 0x80);
            (big.mrid, big.mpos, big.tlen) = (None, None, 0);
            big.rid = Some(1);
            big.pos = Some(p);
            big.qual = (0..s.len()).map(|_| rng.below(61) as u8).collect();
            big.seq = s;
            big.cigar = cigar;
            recs.push(big);
            small(rng, &mut recs, &mut idx, 2);
            let mut un = rand_record(rng, idx, &[], &[], &GenOpts { mapped: false, unmapped: true, placed_unmapped: false, max_read: 30, aux: true, long: false });
            idx += 1;
            un.seq = (0..n).map(|_| rand_base(rng)).collect();
            un.qual = (0..n).map(|_| rng.below(61) as u8).collect();
            recs.push(un);
            small(rng, &mut recs, &mut idx, 2);
            let mut z = rand_record(rng, idx, &refs[..1], &rgs, &o(true, false, 80));
            idx += 1;
            z.aux.retain(|(t, _)| t != b"YZ");
            z.aux.push((*b"YZ", Aux::Str(rand_str(rng, STR_CHARS, 100_000, 100_000))));
            recs.push(z);
            small(rng, &mut recs, &mut idx, 3);
            (header_text(&refs, hd.or(Some("@HD\tVN:1.6")), &rgs, false), refs, recs)
        }
        // CIGARs at and above BAM's 16-bit operation count (65535 / 65536 / 70000 operations: 1M1D1M1I... on a generated
        // reference), with SEQ and QUAL, with SEQ and QUAL `*`, with SEQ `*` and QUAL `*`, between small records
        c if c.starts_with("scale-long-cigar-") => {
            let variant = c.strip_prefix("scale-long-cigar-").unwrap();
            let mut refs = make_refs(rng, 1, 300, 600);
            refs.push(RefDesc { name: "big1".into(), seq: rand_ref(rng, 120_000) });
            let sm = o(true, true, 100);
            let mut recs: Vec<Aln> = Vec::new();
            let mut idx = 0usize;
            for n_ops in [65535usize, 65536, 70000] {
                for _ in 0..2 {
                    recs.push(rand_record(rng, idx, &refs[..1], &rgs, &sm));
                    idx += 1;
                }
                // M I M D M I M D ... M : odd positions alternate I and D, first and last op M
                let mut cigar: Vec<(char, usize)> = (0..n_ops).map(|i| if i % 2 == 0 { ('M', 1) } else if i % 4 == 1 { ('I', 1) } else { ('D', 1) }).collect();
                if cigar.last().map(|o| o.0) != Some('M') {
                    let l = cigar.len();
                    cigar[l - 1] = ('M', 2);
                    // keep adjacent kinds different: ... M X M(2) is fine, ... M M is not
                    if cigar[l - 2].0 == 'M' {
                        cigar[l - 2] = ('D', 1);
                    }
                }
                let span = cigar_span(&cigar);
                let p = rng.urange(1, refs[1].seq.len() - span + 1);
                let mut s = Vec::new();
                let mut rp = p - 1;
                for &(k, l) in &cigar {
                    match k {
                        'M' => {
                            s.extend_from_slice(&refs[1].seq[rp..rp + l]);
                            rp += l;
                        }
                        'I' => (0..l).for_each(|_| s.push(rand_base(rng))),
                        _ => rp += l,
                    }
                }
                let mut big = rand_record(rng, idx, &refs[..1], &rgs, &o(true, false, 50));
                idx += 1;
                big.flags &= !(0x1 | 0x2 | 0x8 | 0x20 | 0x40 | 0x80);
                (big.mrid, big.mpos, big.tlen) = (None, None, 0);
                big.rid = Some(1);
                big.pos = Some(p);
                big.cigar = cigar;
                match variant {
                    "seq-qual" => {
                        big.qual = (0..s.len()).map(|_| rng.below(61) as u8).collect();
                        big.seq = s;
                    }
                    "seq-noqual" => {
                        big.qual = Vec::new();
                        big.seq = s;
                    }
                    "noseq-noqual" => {
                        big.qual = Vec::new();
                        big.seq = Vec::new();
                    }
                    v => panic!("long cigar variant {v}"),
                }
                recs.push(big);
            }
            recs.push(rand_record(rng, idx, &refs[..1], &rgs, &sm));
            (header_text(&refs, hd.or(Some("@HD\tVN:1.6")), &rgs, false), refs, recs)
        }
        c => panic!("unknown alignment set class {c}"),
    };
    ASet { class: class.to_string(), header_text, refs, recs, pair_stats: stats }
}

// ---------------------------------------------------------------------------------------------
// driving noodles

pub fn parse_header(text: &str) -> Result<sam::Header, String> {
    if text.is_empty() { Ok(sam::Header::default()) } else { text.parse::<sam::Header>().map_err(|e| format!("harness: generated header does not parse: {e}")) }
}

/// Writes through the generic writer for (format, compression).
pub fn write_generic(fmt: AFmt, header: &sam::Header, recs: &[RecordBuf], repo: &fasta::Repository) -> Result<Vec<u8>, Fail> {
    let mut out = Vec::new();
    {
        let mut w = ualn::io::writer::Builder::default()
            .set_format(fmt.format())
            .set_compression_method(fmt.compression())
            .set_reference_sequence_repository(repo.clone())
            .build_from_writer(&mut out)
            .map_err(|e| Fail::new("build", e))?;
        w.write_header(header).map_err(|e| Fail::new("write_header", e))?;
        for r in recs {
            w.write_record(header, r).map_err(|e| Fail::new("write_record", e))?;
        }
        w.finish(header).map_err(|e| Fail::new("finish", e))?;
    }
    Ok(out)
}

#[derive(Debug, Default)]
pub struct ReadBack {
    pub refs: Vec<(String, usize)>,
    pub lines: Vec<String>,
}

fn header_refs(h: &sam::Header) -> Vec<(String, usize)> {
    h.reference_sequences().iter().map(|(n, m)| (String::from_utf8_lossy(n).into_owned(), usize::from(m.length()))).collect()
}

/// Generic reader, format and compression autodetected; records through `records()`.
pub fn read_generic<R: Read>(src: R, repo: &fasta::Repository) -> Result<ReadBack, Fail> {
    let mut r = ualn::io::reader::Builder::default()
        .set_reference_sequence_repository(repo.clone())
        .build_from_reader(src)
        .map_err(|e| Fail::new("open", e))?;
    let header = r.read_header().map_err(|e| Fail::new("read_header", e))?;
    let mut rb = ReadBack { refs: header_refs(&header), ..Default::default() };
    for rec in r.records(&header) {
        let rec = rec.map_err(|e| Fail::new("read_record", e))?;
        rb.lines.push(observed_line(&header, &rec).map_err(|e| Fail::new("decode_record", e))?);
    }
    Ok(rb)
}

/// Generic reader through `read_record`; returns the lines and the `Record` variants seen.
pub fn read_generic_variants(src: &[u8], repo: &fasta::Repository) -> Result<(Vec<String>, Vec<&'static str>), Fail> {
    let mut r = ualn::io::reader::Builder::default()
        .set_reference_sequence_repository(repo.clone())
        .build_from_reader(src)
        .map_err(|e| Fail::new("open", e))?;
    let header = r.read_header().map_err(|e| Fail::new("read_header", e))?;
    let mut rec = ualn::Record::default();
    let mut lines = Vec::new();
    let mut variants: Vec<&'static str> = Vec::new();
    while r.read_record(&header, &mut rec).map_err(|e| Fail::new("read_record", e))? != 0 {
        let v = match &rec {
            ualn::Record::Sam(_) => "Sam",
            ualn::Record::Bam(_) => "Bam",
            ualn::Record::Cram(_) => "Cram",
        };
        if !variants.contains(&v) {
            variants.push(v);
        }
        lines.push(observed_line(&header, &rec).map_err(|e| Fail::new("decode_record", e))?);
    }
    Ok((lines, variants))
}

fn read_with<R, T: sam::alignment::io::Read<R>>(mut r: T) -> Result<ReadBack, Fail> {
    let header = r.read_alignment_header().map_err(|e| Fail::new("read_header", e))?;
    let mut rb = ReadBack { refs: header_refs(&header), ..Default::default() };
    for rec in r.alignment_records(&header) {
        let rec = rec.map_err(|e| Fail::new("read_record", e))?;
        rb.lines.push(observed_line(&header, &rec).map_err(|e| Fail::new("decode_record", e))?);
    }
    Ok(rb)
}

/// The format-specific reader of the *intended* (format, compression).
pub fn read_specific(fmt: AFmt, src: &[u8], repo: &fasta::Repository) -> Result<ReadBack, Fail> {
    match fmt {
        AFmt::Sam => read_with(sam::io::Reader::new(src)),
        AFmt::SamGz => read_with(sam::io::Reader::new(bgzf::io::Reader::new(src))),
        AFmt::Bam => read_with(bam::io::Reader::new(src)),
        AFmt::BamRaw => read_with(bam::io::Reader::from(src)),
        AFmt::Cram => read_with(cram::io::reader::Builder::default().set_reference_sequence_repository(repo.clone()).build_from_reader(src)),
    }
}

/// generic reader (autodetect) -> generic writer(target), the way util_alignment_rewrite does it.
pub fn convert(src: &[u8], tgt: AFmt, repo: &fasta::Repository) -> Result<Vec<u8>, Fail> {
    let mut reader = ualn::io::reader::Builder::default()
        .set_reference_sequence_repository(repo.clone())
        .build_from_reader(src)
        .map_err(|e| Fail::new("src-open", e))?;
    let header = reader.read_header().map_err(|e| Fail::new("src-read_header", e))?;
    let mut out = Vec::new();
    {
        let mut writer = ualn::io::writer::Builder::default()
            .set_format(tgt.format())
            .set_compression_method(tgt.compression())
            .set_reference_sequence_repository(repo.clone())
            .build_from_writer(&mut out)
            .map_err(|e| Fail::new("tgt-build", e))?;
        writer.write_header(&header).map_err(|e| Fail::new("tgt-write_header", e))?;
        for result in reader.records(&header) {
            let record = result.map_err(|e| Fail::new("src-read_record", e))?;
            writer.write_record(&header, &record).map_err(|e| Fail::new("tgt-write_record", e))?;
        }
        writer.finish(&header).map_err(|e| Fail::new("tgt-finish", e))?;
    }
    Ok(out)
}

/// Path based variant: writer builder picks (format, compression) from the extension, the reader
/// builder autodetects from the content.
pub fn write_path(path: &std::path::Path, header: &sam::Header, recs: &[RecordBuf], repo: &fasta::Repository) -> Result<(), Fail> {
    let mut w = ualn::io::writer::Builder::default()
        .set_reference_sequence_repository(repo.clone())
        .build_from_path(path)
        .map_err(|e| Fail::new("build", e))?;
    w.write_header(header).map_err(|e| Fail::new("write_header", e))?;
    for r in recs {
        w.write_record(header, r).map_err(|e| Fail::new("write_record", e))?;
    }
    w.finish(header).map_err(|e| Fail::new("finish", e))?;
    Ok(())
}

pub fn read_path(path: &std::path::Path, repo: &fasta::Repository) -> Result<ReadBack, Fail> {
    let mut r = ualn::io::reader::Builder::default()
        .set_reference_sequence_repository(repo.clone())
        .build_from_path(path)
        .map_err(|e| Fail::new("open", e))?;
    let header = r.read_header().map_err(|e| Fail::new("read_header", e))?;
    let mut rb = ReadBack { refs: header_refs(&header), ..Default::default() };
    for rec in r.records(&header) {
        let rec = rec.map_err(|e| Fail::new("read_record", e))?;
        rb.lines.push(observed_line(&header, &rec).map_err(|e| Fail::new("decode_record", e))?);
    }
    Ok(rb)
}

/// Independent look at the leading bytes: does the stream have the shape of the requested
/// (format, compression)? `Err(what)` names the mismatch.
pub fn structural_check(fmt: AFmt, bytes: &[u8]) -> Result<(), (&'static str, String)> {
    let gz = bytes.len() >= 2 && bytes[0] == 0x1f && bytes[1] == 0x8b;
    if fmt.bgzf() != gz {
        return Err(("compression", format!("requested compression {:?} but the stream {} with the gzip magic", fmt.compression(), if gz { "starts" } else { "does not start" })));
    }
    let plain: Vec<u8> = if gz {
        match vcore::bgzf::walk(bytes) {
            Ok(w) => {
                if !w.ends_with_eof_marker() {
                    return Err(("compression", "BGZF stream does not end with the EOF marker".into()));
                }
                let mut v = w.concat();
                v.truncate(64);
                v
            }
            Err(e) => return Err(("compression", format!("stream starts with the gzip magic but is not well-formed BGZF: {e}"))),
        }
    } else {
        bytes[..bytes.len().min(64)].to_vec()
    };
    let ok = match fmt {
        AFmt::Bam | AFmt::BamRaw => plain.starts_with(b"BAM\x01"),
        // a CRAM file definition is the magic followed by the major/minor version bytes (control characters)
        AFmt::Cram => plain.starts_with(b"CRAM") && plain.get(4).is_some_and(|&b| b < 0x20),
        // SAM text: empty, a header line, or a record line (QNAME is printable; a read may be called CRAM0)
        AFmt::Sam | AFmt::SamGz => !plain.starts_with(b"BAM\x01") && plain.iter().take_while(|&&b| b != b'\n').all(|&b| b == b'\t' || (0x20..0x7f).contains(&b)),
    };
    if ok { Ok(()) } else { Err(("format", format!("payload starts with {:?}, which is not {}", String::from_utf8_lossy(&plain[..plain.len().min(8)]), fmt.name()))) }
}
