//! Variant side of C20: common-model VCF record sets (values BCF can represent, every key
//! defined in the header), the four (format, compression) pairs of the generic writer, canonical
//! data-model rendering of descriptions and of records read back.

use std::io::{self, Read};

use noodles_bcf as bcf;
use noodles_bgzf as bgzf;
use noodles_core::Position;
use noodles_util::variant as uvar;
use noodles_vcf::{
    self as vcf,
    variant::{
        RecordBuf,
        record::samples::series::value::genotype::Phasing,
        record_buf::{
            Samples,
            info::field::{Value as IValue, value::Array as IArray},
            samples::sample::{
                Value as SValue,
                value::{Array as SArray, Genotype, genotype::Allele},
            },
        },
    },
};
use vcore::Rng;

use crate::Fail;

#[derive(Clone, Copy, Debug, PartialEq, Eq)]
pub enum VFmt {
    Vcf,
    VcfGz,
    Bcf,
    BcfRaw,
}

pub const VFMTS: [VFmt; 4] = [VFmt::Vcf, VFmt::VcfGz, VFmt::Bcf, VFmt::BcfRaw];

impl VFmt {
    pub fn name(self) -> &'static str {
        match self {
            VFmt::Vcf => "vcf",
            VFmt::VcfGz => "vcf.gz",
            VFmt::Bcf => "bcf",
            VFmt::BcfRaw => "bcf.raw",
        }
    }

    pub fn format(self) -> uvar::io::Format {
        match self {
            VFmt::Vcf | VFmt::VcfGz => uvar::io::Format::Vcf,
            VFmt::Bcf | VFmt::BcfRaw => uvar::io::Format::Bcf,
        }
    }

    pub fn compression(self) -> Option<uvar::io::CompressionMethod> {
        match self {
            VFmt::VcfGz | VFmt::Bcf => Some(uvar::io::CompressionMethod::Bgzf),
            _ => None,
        }
    }

    pub fn bgzf(self) -> bool {
        self.compression().is_some()
    }

    pub fn raw_magic_len(self) -> usize {
        match self {
            VFmt::BcfRaw => 3,
            _ => 0,
        }
    }

    pub fn record_variant(self) -> &'static str {
        match self {
            VFmt::Vcf | VFmt::VcfGz => "Vcf",
            VFmt::Bcf | VFmt::BcfRaw => "Bcf",
        }
    }
}

/// As `aln::PATH_CASES`, indices into `VFMTS`: the last extension decides — vcf, bcf; gz/bgz after a stem ending in
/// "vcf" = bgzipped VCF. Pinned from the unchanged tree: no / unknown / upper-case extension = default format VCF,
/// BGZF iff the last extension is gz/bgz/bcf.
pub const PATH_CASES: &[(&str, usize)] = &[
    ("out.vcf", 0),
    ("out.vcf.gz", 1),
    ("out.bcf", 2),
    ("out.vcf.bgz", 1),
    ("x.vcf.tmp.vcf.gz", 1),
    ("a.b.bcf", 2),
    ("a.b.vcf", 0),
    ("cohort.chr20.norm.bcf", 2),
    ("my.bcf.vcf", 0),
    ("my.vcf.bcf", 2),
    ("x.y.vcf.bgz", 1),
    ("x.bcf.vcf.gz", 1),
    ("vcf.bcf", 2),
    ("bcf.vcf", 0),
    ("dir.bcf/out.vcf", 0),
    ("dir.vcf/out.bcf", 2),
    ("dir.vcf.gz/sub.bcf/x.vcf.gz", 1),
    ("dir.bcf/noext", 0),
    ("noext", 0),
    ("out.txt", 0),
    ("OUT.BCF", 0),
    ("calls.gz", 1),
];

// ---------------------------------------------------------------------------------------------
// descriptions

#[derive(Clone, Debug)]
pub enum Val {
    Int(i32),
    Float(f32),
    Flag,
    Char(char),
    Str(String),
    /// alleles: (index or missing, phased with the previous allele)
    Gt(Vec<(Option<usize>, bool)>),
    IntArr(Vec<Option<i32>>),
    FloatArr(Vec<Option<f32>>),
    StrArr(Vec<String>),
}

#[derive(Clone, Debug)]
pub struct Var {
    pub chrom: String,
    pub pos: usize,
    pub ids: Vec<String>,
    pub refb: String,
    pub alts: Vec<String>,
    pub qual: Option<f32>,
    /// None = missing, Some(["PASS"]) = pass
    pub filters: Option<Vec<String>>,
    pub info: Vec<(String, Val)>,
    pub format: Vec<String>,
    /// per sample, per FORMAT key
    pub samples: Vec<Vec<Option<Val>>>,
}

#[derive(Clone, Debug)]
pub struct VSet {
    pub class: String,
    pub header_text: String,
    pub contigs: Vec<(String, usize)>,
    pub sample_names: Vec<String>,
    pub recs: Vec<Var>,
}

pub const COLS: [&str; 9] = ["chrom", "pos", "id", "ref", "alt", "qual", "filter", "info", "samples"];

fn f32s(x: f32) -> String {
    format!("f{:08x}", x.to_bits())
}

/// `[., .]`-style arrays: an array whose entries are all missing is written `.` in VCF text when
/// it has one entry, which is the missing value itself; rendered alike on both sides.
fn arr(tag: &str, items: Vec<String>) -> String {
    if items.iter().all(|x| x == ".") && items.len() == 1 { ".".into() } else { format!("{tag}:{}", items.join(",")) }
}

fn oi(v: &Option<i32>) -> String {
    v.map(|x| x.to_string()).unwrap_or_else(|| ".".into())
}

fn of(v: &Option<f32>) -> String {
    v.map(f32s).unwrap_or_else(|| ".".into())
}

fn gt_text(alleles: impl Iterator<Item = (Option<usize>, bool)>) -> String {
    // the phasing of the first allele is a representation detail (explicit only in VCF >= 4.4 and
    // in the BCF bit) and is not part of the common model
    let mut s = String::new();
    for (i, (a, phased)) in alleles.enumerate() {
        if i > 0 {
            s.push(if phased { '|' } else { '/' });
        }
        match a {
            Some(a) => s.push_str(&a.to_string()),
            None => s.push('.'),
        }
    }
    s
}

/// A haploid missing genotype is the text `.`, i.e. the missing value: rendered alike.
fn gt_val(text: String) -> String {
    if text == "." { text } else { format!("gt:{text}") }
}

fn val_expected(v: &Val) -> String {
    match v {
        Val::Int(n) => format!("i:{n}"),
        Val::Float(x) => format!("f:{}", f32s(*x)),
        Val::Flag => "flag".into(),
        Val::Char(c) => format!("c:{c}"),
        Val::Str(s) => format!("s:{s}"),
        Val::Gt(a) => gt_val(gt_text(a.iter().copied())),
        // a one-element array and a scalar are the same VCF text: rendered alike
        Val::IntArr(v) => arr("i", v.iter().map(oi).collect()),
        Val::FloatArr(v) => arr("f", v.iter().map(of).collect()),
        Val::StrArr(v) => format!("s:{}", v.join(",")),
    }
}

pub fn expected_line(v: &Var) -> String {
    let mut info: Vec<String> = v.info.iter().map(|(k, x)| format!("{k}={}", val_expected(x))).collect();
    info.sort();
    let samples: Vec<String> = v
        .samples
        .iter()
        .map(|s| {
            let mut kv: Vec<String> = v.format.iter().zip(s).map(|(k, x)| format!("{k}={}", x.as_ref().map(val_expected).unwrap_or_else(|| ".".into()))).collect();
            kv.sort();
            kv.join(" ")
        })
        .collect();
    [
        v.chrom.clone(),
        v.pos.to_string(),
        if v.ids.is_empty() { ".".into() } else { v.ids.join(";") },
        v.refb.clone(),
        if v.alts.is_empty() { ".".into() } else { v.alts.join(",") },
        v.qual.map(f32s).unwrap_or_else(|| ".".into()),
        match &v.filters {
            None => ".".into(),
            Some(f) => f.join(";"),
        },
        if info.is_empty() { ".".into() } else { info.join(" ") },
        samples.join(" | "),
    ]
    .join("\t")
}

fn ivalue_observed(v: &IValue) -> String {
    match v {
        IValue::Integer(n) => format!("i:{n}"),
        IValue::Float(x) => format!("f:{}", f32s(*x)),
        IValue::Flag => "flag".into(),
        IValue::Character(c) => format!("c:{c}"),
        IValue::String(s) => format!("s:{s}"),
        IValue::Array(IArray::Integer(v)) => arr("i", v.iter().map(oi).collect()),
        IValue::Array(IArray::Float(v)) => arr("f", v.iter().map(of).collect()),
        IValue::Array(IArray::Character(v)) => format!("c:{}", v.iter().map(|c| c.map(String::from).unwrap_or_else(|| ".".into())).collect::<Vec<_>>().join(",")),
        IValue::Array(IArray::String(v)) => format!("s:{}", v.iter().map(|c| c.clone().unwrap_or_else(|| ".".into())).collect::<Vec<_>>().join(",")),
    }
}

fn svalue_observed(v: &SValue) -> String {
    match v {
        SValue::Integer(n) => format!("i:{n}"),
        SValue::Float(x) => format!("f:{}", f32s(*x)),
        SValue::Character(c) => format!("c:{c}"),
        SValue::String(s) => format!("s:{s}"),
        SValue::Genotype(g) => {
            let a: &[Allele] = g.as_ref();
            gt_val(gt_text(a.iter().map(|x| (x.position(), x.phasing() == Phasing::Phased))))
        }
        SValue::Array(SArray::Integer(v)) => arr("i", v.iter().map(oi).collect()),
        SValue::Array(SArray::Float(v)) => arr("f", v.iter().map(of).collect()),
        SValue::Array(SArray::Character(v)) => format!("c:{}", v.iter().map(|c| c.map(String::from).unwrap_or_else(|| ".".into())).collect::<Vec<_>>().join(",")),
        SValue::Array(SArray::String(v)) => format!("s:{}", v.iter().map(|c| c.clone().unwrap_or_else(|| ".".into())).collect::<Vec<_>>().join(",")),
    }
}

pub fn observed_line(header: &vcf::Header, rec: &dyn vcf::variant::Record) -> io::Result<String> {
    let rb = RecordBuf::try_from_variant_record(header, rec)?;
    let ids: Vec<String> = rb.ids().as_ref().iter().cloned().collect();
    let filters: Vec<String> = rb.filters().as_ref().iter().cloned().collect();
    let mut info: Vec<String> = rb
        .info()
        .as_ref()
        .iter()
        .map(|(k, v)| format!("{k}={}", v.as_ref().map(ivalue_observed).unwrap_or_else(|| ".".into())))
        .collect();
    info.sort();
    let keys: Vec<String> = rb.samples().keys().as_ref().iter().cloned().collect();
    let samples: Vec<String> = rb
        .samples()
        .values()
        .map(|s| {
            let mut kv: Vec<String> = keys
                .iter()
                .enumerate()
                .map(|(i, k)| format!("{k}={}", s.values().get(i).and_then(|x| x.as_ref()).map(svalue_observed).unwrap_or_else(|| ".".into())))
                .collect();
            kv.sort();
            kv.join(" ")
        })
        .collect();
    let alts: &[String] = rb.alternate_bases().as_ref();
    Ok([
        rb.reference_sequence_name().to_string(),
        rb.variant_start().map(usize::from).unwrap_or(0).to_string(),
        if ids.is_empty() { ".".into() } else { ids.join(";") },
        rb.reference_bases().to_string(),
        if alts.is_empty() { ".".into() } else { alts.join(",") },
        rb.quality_score().map(f32s).unwrap_or_else(|| ".".into()),
        if filters.is_empty() { ".".into() } else { filters.join(";") },
        if info.is_empty() { ".".into() } else { info.join(" ") },
        samples.join(" | "),
    ]
    .join("\t"))
}

fn to_ivalue(v: &Val) -> IValue {
    match v {
        Val::Int(n) => IValue::Integer(*n),
        Val::Float(x) => IValue::Float(*x),
        Val::Flag => IValue::Flag,
        Val::Char(c) => IValue::Character(*c),
        Val::Str(s) => IValue::String(s.clone()),
        Val::IntArr(v) => IValue::Array(IArray::Integer(v.clone())),
        Val::FloatArr(v) => IValue::Array(IArray::Float(v.clone())),
        Val::StrArr(v) => IValue::Array(IArray::String(v.iter().cloned().map(Some).collect())),
        Val::Gt(_) => panic!("GT is not an INFO value"),
    }
}

fn to_svalue(v: &Val) -> SValue {
    match v {
        Val::Int(n) => SValue::Integer(*n),
        Val::Float(x) => SValue::Float(*x),
        Val::Char(c) => SValue::Character(*c),
        Val::Str(s) => SValue::String(s.clone()),
        Val::Gt(a) => SValue::Genotype(
            a.iter()
                .enumerate()
                .map(|(i, &(p, phased))| {
                    // first allele: phased iff every later allele is (what the VCF reader derives for <= 4.3)
                    let ph = if i == 0 { a.len() > 1 && a[1..].iter().all(|x| x.1) } else { phased };
                    Allele::new(p, if ph { Phasing::Phased } else { Phasing::Unphased })
                })
                .collect::<Genotype>(),
        ),
        Val::IntArr(v) => SValue::Array(SArray::Integer(v.clone())),
        Val::FloatArr(v) => SValue::Array(SArray::Float(v.clone())),
        Val::StrArr(v) => SValue::Array(SArray::String(v.iter().cloned().map(Some).collect())),
        Val::Flag => panic!("Flag is not a FORMAT value"),
    }
}

pub fn to_record_buf(v: &Var) -> RecordBuf {
    let mut b = RecordBuf::builder()
        .set_reference_sequence_name(v.chrom.clone())
        .set_variant_start(Position::new(v.pos).expect("pos >= 1"))
        .set_ids(v.ids.iter().cloned().collect())
        .set_reference_bases(v.refb.clone())
        .set_alternate_bases(v.alts.clone().into())
        .set_info(v.info.iter().map(|(k, x)| (k.clone(), Some(to_ivalue(x)))).collect());
    if let Some(q) = v.qual {
        b = b.set_quality_score(q);
    }
    if let Some(f) = &v.filters {
        b = b.set_filters(f.iter().cloned().collect());
    }
    if !v.format.is_empty() {
        let keys = v.format.iter().cloned().collect();
        let values = v.samples.iter().map(|s| s.iter().map(|x| x.as_ref().map(to_svalue)).collect()).collect();
        b = b.set_samples(Samples::new(keys, values));
    }
    b.build()
}

// ---------------------------------------------------------------------------------------------
// generators

const INT_EDGES: &[i32] = &[0, 1, -1, 127, 128, -120, -121, 32767, 32768, -32760, -32761, 2147483647, -2147483640, 255, 65535];
const WORD: &[u8] = b"ABCDEFGHIJKLMNOPQRSTUVWXYZabcdefghijklmnopqrstuvwxyz0123456789_.-";

/// 2-, 3- and 4-byte code points
const NON_ASCII: &[char] = &['ï', 'é', 'ß', 'ñ', 'Å', 'λ', 'Ж', '中', '染', '€', '→', '‰', 'ツ', '😀', '𝛼', '🧬'];

/// `lo..=hi` characters. One word in three mixes non-ASCII code points in (byte length != character count).
fn word(rng: &mut Rng, lo: usize, hi: usize) -> String {
    let n = rng.urange(lo, hi);
    let mixed = rng.chance(1, 3);
    // never starts with '.', so a one-character word is never the missing value
    (0..n)
        .map(|i| {
            if mixed && rng.chance(1, 4) {
                *rng.pick(NON_ASCII)
            } else if i == 0 {
                *rng.pick(&WORD[..62]) as char
            } else {
                *rng.pick(WORD) as char
            }
        })
        .collect()
}

fn int(rng: &mut Rng) -> i32 {
    if rng.chance(1, 3) { *rng.pick(INT_EDGES) } else { rng.range(-40000, 40000) as i32 }
}

fn flt(rng: &mut Rng) -> f32 {
    // half of the values over the full finite bit-pattern range (NaN and the infinities: see the class
    // `nonfinite-floats`; BCF reserves NaN patterns for missing / end-of-vector)
    if rng.bool() {
        return crate::flt::wide_f32(rng);
    }
    // the canonical NaN and the infinities travel through VCF text and BCF alike (established with the probe class)
    if rng.chance(1, 30) {
        return *rng.pick(&[f32::NAN, f32::INFINITY, f32::NEG_INFINITY]);
    }
    match rng.below(6) {
        0 => 0.0,
        1 => rng.range(0, 1000) as f32 / 1000.0,
        2 => rng.range(-100000, 100000) as f32 / 64.0,
        3 => 1.0e-5 * rng.range(1, 999) as f32,
        4 => rng.range(0, 6000) as f32,
        _ => rng.range(-800, 800) as f32 / 8.0,
    }
}

fn bases(rng: &mut Rng, lo: usize, hi: usize) -> String {
    let n = rng.urange(lo, hi);
    (0..n).map(|_| if rng.chance(1, 40) { 'N' } else { *rng.pick(&['A', 'C', 'G', 'T']) }).collect()
}

fn header_text(version: &str, contigs: &[(String, usize)], samples: &[String], full: bool) -> String {
    let mut t = format!("##fileformat={version}\n");
    if full {
        t.push_str("##source=c20-monitor\n");
        t.push_str("##FILTER=<ID=PASS,Description=\"All filters passed\">\n");
        t.push_str("##FILTER=<ID=q10,Description=\"Quality below 10\">\n");
        t.push_str("##FILTER=<ID=s50,Description=\"Less than 50% of samples have data\">\n");
        t.push_str("##FILTER=<ID=LowQual,Description=\"Low quality\">\n");
    }
    for (n, l) in contigs {
        t.push_str(&format!("##contig=<ID={n},length={l}>\n"));
    }
    if full {
        t.push_str("##INFO=<ID=NS,Number=1,Type=Integer,Description=\"Number of samples with data\">\n");
        t.push_str("##INFO=<ID=DP,Number=1,Type=Integer,Description=\"Total depth\">\n");
        t.push_str("##INFO=<ID=AF,Number=A,Type=Float,Description=\"Allele frequency\">\n");
        t.push_str("##INFO=<ID=AC,Number=A,Type=Integer,Description=\"Allele count\">\n");
        t.push_str("##INFO=<ID=DB,Number=0,Type=Flag,Description=\"dbSNP membership\">\n");
        t.push_str("##INFO=<ID=H2,Number=0,Type=Flag,Description=\"HapMap2 membership\">\n");
        t.push_str("##INFO=<ID=MQ,Number=1,Type=Float,Description=\"RMS mapping quality\">\n");
        t.push_str("##INFO=<ID=XS,Number=1,Type=String,Description=\"one string\">\n");
        t.push_str("##INFO=<ID=XL,Number=.,Type=String,Description=\"string list\">\n");
        t.push_str("##INFO=<ID=XI,Number=.,Type=Integer,Description=\"integer list\">\n");
        t.push_str("##INFO=<ID=XF,Number=.,Type=Float,Description=\"float list\">\n");
        t.push_str("##INFO=<ID=XC,Number=1,Type=Character,Description=\"one character\">\n");
        t.push_str("##INFO=<ID=X2,Number=2,Type=Integer,Description=\"two integers\">\n");
        t.push_str("##FORMAT=<ID=GT,Number=1,Type=String,Description=\"Genotype\">\n");
        t.push_str("##FORMAT=<ID=GQ,Number=1,Type=Integer,Description=\"Genotype quality\">\n");
        t.push_str("##FORMAT=<ID=DP,Number=1,Type=Integer,Description=\"Read depth\">\n");
        t.push_str("##FORMAT=<ID=AD,Number=R,Type=Integer,Description=\"Allelic depths\">\n");
        t.push_str("##FORMAT=<ID=PL,Number=G,Type=Integer,Description=\"Phred-scaled genotype likelihoods\">\n");
        t.push_str("##FORMAT=<ID=XV,Number=.,Type=Integer,Description=\"per-sample integer list of varying length\">\n");
        t.push_str("##FORMAT=<ID=XW,Number=1,Type=Float,Description=\"per-sample float\">\n");
        t.push_str("##FORMAT=<ID=XG,Number=.,Type=Float,Description=\"per-sample float list\">\n");
        t.push_str("##FORMAT=<ID=XT,Number=1,Type=String,Description=\"per-sample string\">\n");
    }
    t.push_str("#CHROM\tPOS\tID\tREF\tALT\tQUAL\tFILTER\tINFO");
    if !samples.is_empty() {
        t.push_str("\tFORMAT");
        for s in samples {
            t.push('\t');
            t.push_str(s);
        }
    }
    t.push('\n');
    t
}

fn rand_info(rng: &mut Rng, n_alt: usize, long: bool) -> Vec<(String, Val)> {
    let mut out: Vec<(String, Val)> = Vec::new();
    let keys = ["NS", "DP", "AF", "AC", "DB", "H2", "MQ", "XS", "XL", "XI", "XF", "XC", "X2"];
    let n = match rng.below(4) {
        0 => 0,
        1 => 1,
        _ => rng.urange(2, 8),
    };
    let mut idx: Vec<usize> = (0..keys.len()).collect();
    rng.shuffle(&mut idx);
    let mut chosen: Vec<usize> = idx.into_iter().take(n).collect();
    if long {
        // the multi-block sets: every record carries the long String / String-list / Integer-list values
        for k in ["XS", "XL", "XI"] {
            let i = keys.iter().position(|x| *x == k).unwrap();
            if !chosen.contains(&i) && (k == "XS" || rng.chance(2, 3)) {
                chosen.push(i);
            }
        }
    }
    chosen.sort();
    for k in chosen {
        let v = match keys[k] {
            "NS" | "DP" => Val::Int(int(rng)),
            "AF" => {
                if n_alt == 0 {
                    continue;
                }
                Val::FloatArr((0..n_alt).map(|_| Some(flt(rng))).collect())
            }
            "AC" => {
                if n_alt == 0 {
                    continue;
                }
                // any entry may be missing, also all of them (`AC=.`, regression class `witness-info-missing-value`)
                Val::IntArr((0..n_alt).map(|_| if rng.chance(1, 4) { None } else { Some(int(rng)) }).collect())
            }
            "DB" | "H2" => Val::Flag,
            "MQ" => Val::Float(flt(rng)),
            "XS" if long => Val::Str(word(rng, 100, 400)),
            "XL" if long => Val::StrArr((0..rng.urange(2, 5)).map(|_| word(rng, 30, 120)).collect()),
            "XI" if long => Val::IntArr((0..rng.urange(10, 40)).map(|_| Some(int(rng))).collect()),
            "XS" => Val::Str(word(rng, 1, 16)),
            "XL" => Val::StrArr((0..rng.urange(1, 4)).map(|_| word(rng, 1, 8)).collect()),
            "XI" => Val::IntArr((0..rng.urange(1, 5)).map(|_| Some(int(rng))).collect()),
            "XF" => Val::FloatArr((0..rng.urange(1, 4)).map(|_| Some(flt(rng))).collect()),
            "XC" => Val::Char(*rng.pick(&['a', 'Z', '7', '+', '#', 'é', '中', '😀'])),
            "X2" => Val::IntArr(vec![Some(int(rng)), Some(int(rng))]),
            _ => unreachable!(),
        };
        out.push((keys[k].to_string(), v));
    }
    out
}

/// Common-model genotype: `ploidy` alleles, any of them missing, phased or not.
fn rand_gt(rng: &mut Rng, n_alt: usize, ploidy: usize) -> Val {
    let phased_all = rng.chance(1, 3);
    Val::Gt(
        (0..ploidy)
            .map(|i| {
                // a lone `.` is the missing value in VCF text, and the BCF writer rejects a missing GT
                // ("invalid input parameter"): a haploid genotype always names its allele
                let a = if rng.chance(1, 8) && ploidy > 1 { None } else { Some(rng.usize_below(n_alt + 1)) };
                (a, i > 0 && phased_all)
            })
            .collect(),
    )
}

fn rand_record(rng: &mut Rng, contigs: &[(String, usize)], n_samples: usize, full: bool, long: bool) -> Var {
    let (chrom, clen) = rng.pick(contigs).clone();
    let pos = rng.urange(1, clen);
    let ids = match rng.below(4) {
        _ if long && rng.chance(1, 2) => vec![format!("rs{}", rng.below(100000)), format!("id_{}", word(rng, 20, 90))],
        0 => vec![format!("rs{}", rng.below(100000))],
        1 => vec![format!("rs{}", rng.below(100000)), format!("id_{}", word(rng, 1, 6))],
        _ => Vec::new(),
    };
    let hi = if long && rng.chance(1, 3) { 250 } else if rng.chance(1, 5) { 12 } else { 1 };
    let refb = bases(rng, 1, hi);
    let n_alt = *rng.pick(&[0usize, 1, 1, 1, 2, 3]);
    let mut alts: Vec<String> = Vec::new();
    while alts.len() < n_alt {
        let hi = if long && rng.chance(1, 3) { 200 } else if rng.chance(1, 4) { 9 } else { 1 };
        let a = bases(rng, 1, hi);
        if a != refb && !alts.contains(&a) {
            alts.push(a);
        }
    }
    let qual = match rng.below(4) {
        0 => None,
        1 => Some(rng.range(0, 2000) as f32 / 4.0),
        _ => {
            let q = flt(rng).abs();
            Some(if q.is_finite() { q } else { 60.0 })
        }
    };
    let filters = if !full {
        if rng.bool() { None } else { Some(vec!["PASS".to_string()]) }
    } else {
        match rng.below(5) {
            0 => None,
            1 | 2 => Some(vec!["PASS".into()]),
            3 => Some(vec![rng.pick(&["q10", "s50", "LowQual"]).to_string()]),
            _ => Some(vec!["q10".into(), "s50".into()]),
        }
    };
    let info = if full { rand_info(rng, n_alt, long) } else { Vec::new() };
    let (mut format, mut samples) = (Vec::new(), Vec::new());
    if n_samples > 0 && full {
        let opt = ["GQ", "DP", "AD", "PL", "XV", "XW", "XG", "XT"];
        let with_gt = rng.chance(9, 10);
        if with_gt {
            format.push("GT".to_string());
        }
        for k in opt {
            if rng.chance(1, 3) || (long && k == "XT") || (long && matches!(k, "PL" | "XV") && rng.chance(1, 2)) {
                format.push(k.to_string());
            }
        }
        if format.is_empty() {
            format.push("DP".to_string());
        }
        let ploidy = *rng.pick(&[1usize, 2, 2, 2, 2, 3]);
        for _ in 0..n_samples {
            let mut row: Vec<Option<Val>> = Vec::new();
            for k in &format {
                // the BCF writer rejects a missing per-sample value of a String or Float-array field
                // ("missing String values") and a missing GT: not values BCF (as noodles writes it) can
                // represent. Everything else may be missing, also in every sample and also when it is the
                // only FORMAT key (regression classes witness-format-int-array-missing-in-all-samples,
                // witness-sample-column-missing)
                let missing = !matches!(k.as_str(), "GT" | "XG" | "XT") && rng.chance(1, 10);
                if missing {
                    row.push(None);
                    continue;
                }
                let v = match k.as_str() {
                    // mostly the record's ploidy, sometimes another one (regression class witness-gt-mixed-ploidy)
                    "GT" => {
                        let p = if rng.chance(1, 5) { *rng.pick(&[1usize, 2, 3, 4]) } else { ploidy };
                        rand_gt(rng, n_alt, p)
                    }
                    "GQ" | "DP" => Val::Int(int(rng).abs()),
                    "AD" => Val::IntArr((0..n_alt + 1).map(|_| if rng.chance(1, 8) { None } else { Some(int(rng).abs()) }).collect()),
                    "PL" => {
                        let g = (n_alt + 1) * (n_alt + 2) / 2;
                        Val::IntArr((0..g).map(|_| Some(rng.range(0, 70000) as i32)).collect())
                    }
                    // per-sample vectors of unequal length (regression class witness-sample-arrays-of-unequal-length)
                    "XV" => Val::IntArr((0..if long { rng.urange(5, 30) } else { rng.urange(1, 5) }).map(|_| Some(int(rng))).collect()),
                    "XW" => Val::Float(flt(rng)),
                    "XG" => Val::FloatArr((0..rng.urange(1, 4)).map(|_| Some(flt(rng))).collect()),
                    "XT" if long => Val::Str(word(rng, 40, 200)),
                    "XT" => Val::Str(word(rng, 1, 10)),
                    _ => unreachable!(),
                };
                row.push(Some(v));
            }
            samples.push(row);
        }
    }
    Var { chrom, pos, ids, refb, alts, qual, filters, info, format, samples }
}

pub const DET_CLASSES: &[&str] = &[
    "default-header-no-records",
    "header-only",
    "one-site-only",
    "one-with-sample",
    "many-mixed",
    "multi-contig",
    "multi-sample",
    "multi-block",
    "non-ascii-text",
    // minimal regression sets of defects that were repaired (the shapes are part of the random model again)
    "witness-gt-mixed-ploidy",
    "witness-gt-phased-missing-allele",
    "witness-format-int-array-missing-in-all-samples",
    "witness-info-missing-value",
    "witness-sample-arrays-of-unequal-length",
    "witness-sample-column-missing",
];

/// Deterministic scale family: large dictionaries, single records larger than a BGZF block, many samples.
pub const SCALE_QUICK: &[&str] = &["scale-large-dictionary-130", "scale-large-dictionary-260", "scale-large-record", "scale-many-samples-3000"];
pub const SCALE_THOROUGH: &[&str] = &["scale-large-dictionary-32770"];

pub const RANDOM_CLASSES: &[&str] = &["many-mixed", "multi-contig", "multi-sample", "one-with-sample", "sites-only", "header-only", "multi-block"];

pub fn make_set(class: &str, seed: u64) -> VSet {
    let mut rng = Rng::new(seed, 0x7CF, 0);
    let rng = &mut rng;
    let version = *rng.pick(&["VCFv4.3", "VCFv4.2", "VCFv4.4", "VCFv4.3"]);
    let mk_contigs = |rng: &mut Rng, n: usize| -> Vec<(String, usize)> {
        let styles = ["sq", "chr", "NC_0000", "HLA-A*01:01:0", "scaffold|"];
        (0..n).map(|i| (format!("{}{}", styles[i % styles.len()], i), rng.urange(50, 5_000_000))).collect()
    };
    let mk_samples = |n: usize| -> Vec<String> { (0..n).map(|i| format!("{}{}", ["NA0000", "sample-", "S"][i % 3], i)).collect() };
    let (header_text, contigs, sample_names, recs): (String, Vec<(String, usize)>, Vec<String>, Vec<Var>) = match class {
        // what vcf::Header::default() renders
        "default-header-no-records" => (String::new(), Vec::new(), Vec::new(), Vec::new()),
        "header-only" => {
            let c = { let k = rng.urange(1, 4); mk_contigs(rng, k) };
            let s = { let k = rng.urange(0, 3); mk_samples(k) };
            (header_text(version, &c, &s, true), c, s, Vec::new())
        }
        "one-site-only" => {
            let c = mk_contigs(rng, 1);
            let r = rand_record(rng, &c, 0, true, false);
            (header_text(version, &c, &[], true), c, Vec::new(), vec![r])
        }
        "one-with-sample" => {
            let c = mk_contigs(rng, 1);
            let s = mk_samples(1);
            let r = rand_record(rng, &c, 1, true, false);
            (header_text(version, &c, &s, true), c, s, vec![r])
        }
        "sites-only" => {
            let c = { let k = rng.urange(1, 3); mk_contigs(rng, k) };
            let n = rng.urange(2, 150);
            let recs = (0..n).map(|_| rand_record(rng, &c, 0, true, false)).collect();
            (header_text(version, &c, &[], true), c, Vec::new(), recs)
        }
        "many-mixed" => {
            let c = { let k = rng.urange(1, 3); mk_contigs(rng, k) };
            let s = { let k = rng.urange(1, 3); mk_samples(k) };
            let n = rng.urange(10, 200);
            let recs = (0..n).map(|_| rand_record(rng, &c, s.len(), true, false)).collect();
            (header_text(version, &c, &s, true), c, s, recs)
        }
        "multi-contig" => {
            let c = { let k = rng.urange(3, 12); mk_contigs(rng, k) };
            let s = { let k = rng.urange(0, 2); mk_samples(k) };
            let n = rng.urange(8, 120);
            let recs = (0..n).map(|_| rand_record(rng, &c, s.len(), true, false)).collect();
            (header_text(version, &c, &s, true), c, s, recs)
        }
        "multi-sample" => {
            let c = mk_contigs(rng, 2);
            let s = { let k = rng.urange(3, 12); mk_samples(k) };
            let n = rng.urange(5, 80);
            let recs = (0..n).map(|_| rand_record(rng, &c, s.len(), true, false)).collect();
            (header_text(version, &c, &s, true), c, s, recs)
        }
        // >= 300 KiB of VCF text (>= 5 BGZF blocks in VCF.gz) made of long INFO String / String-list /
        // Integer-list values, long FORMAT strings and vectors, long IDs and alleles, so that every kind of
        // value straddles block boundaries
        "multi-block" => {
            let c = mk_contigs(rng, 3);
            let s = mk_samples(4);
            let n = rng.urange(330, 420);
            let recs = (0..n).map(|_| rand_record(rng, &c, s.len(), true, true)).collect();
            (header_text(version, &c, &s, true), c, s, recs)
        }
        "witness-gt-mixed-ploidy"
        | "witness-gt-phased-missing-allele"
        | "witness-format-int-array-missing-in-all-samples"
        | "witness-info-missing-value"
        | "witness-sample-arrays-of-unequal-length"
        | "witness-sample-column-missing" => {
            let c = vec![("sq0".to_string(), 1000usize)];
            let plain = || vec![(Some(0), false), (Some(1), false)];
            let (s, gts): (Vec<String>, Vec<Vec<(Option<usize>, bool)>>) = match class {
                // 0/1 next to 0/1/1: a sample with >= 2 alleles that is shorter than the longest one
                "witness-gt-mixed-ploidy" => (mk_samples(2), vec![plain(), vec![(Some(0), false), (Some(1), false), (Some(1), false)]]),
                // 0|. : a phased separator in front of a missing allele
                "witness-gt-phased-missing-allele" => (mk_samples(1), vec![vec![(Some(0), false), (None, true)]]),
                _ => (mk_samples(2), vec![plain(), plain()]),
            };
            // GT:AD with AD `.` in both samples / INFO `AC=.`
            let second = if class == "witness-format-int-array-missing-in-all-samples" { ("AD", None) } else { ("DP", Some(Val::Int(7))) };
            let info = if class == "witness-info-missing-value" { vec![("AC".to_string(), Val::IntArr(vec![None]))] } else { vec![("DP".to_string(), Val::Int(14))] };
            let (format, samples): (Vec<String>, Vec<Vec<Option<Val>>>) = match class {
                // GT:XV  0/1:1,2  0/1:3
                "witness-sample-arrays-of-unequal-length" => (
                    vec!["GT".into(), "XV".into()],
                    vec![vec![Some(Val::Gt(plain())), Some(Val::IntArr(vec![Some(1), Some(2)]))], vec![Some(Val::Gt(plain())), Some(Val::IntArr(vec![Some(3)]))]],
                ),
                // DP  7  .
                "witness-sample-column-missing" => (vec!["DP".into()], vec![vec![Some(Val::Int(7))], vec![None]]),
                _ => (vec!["GT".into(), second.0.into()], gts.into_iter().map(|g| vec![Some(Val::Gt(g)), second.1.clone()]).collect()),
            };
            let r = Var {
                chrom: "sq0".into(),
                pos: 100,
                ids: Vec::new(),
                refb: "A".into(),
                alts: vec!["C".into()],
                qual: Some(30.0),
                filters: Some(vec!["PASS".into()]),
                info,
                format,
                samples,
            };
            (header_text("VCFv4.3", &c, &s, true), c, s, vec![r])
        }
        // probe (not part of any run; `bisect=variant:nonfinite-floats:1:<fmt>`)
        "nonfinite-floats" => {
            let c = vec![("sq0".to_string(), 1000usize)];
            let s = mk_samples(1);
            let recs = [f32::NAN, f32::INFINITY, f32::NEG_INFINITY]
                .iter()
                .enumerate()
                .map(|(i, &x)| Var {
                    chrom: "sq0".into(),
                    pos: 10 + i,
                    ids: Vec::new(),
                    refb: "A".into(),
                    alts: vec!["C".into()],
                    qual: if x > 0.0 { Some(x) } else { None },
                    filters: None,
                    info: vec![("MQ".to_string(), Val::Float(x)), ("XF".to_string(), Val::FloatArr(vec![Some(1.0), Some(x)]))],
                    format: vec!["XW".into()],
                    samples: vec![vec![Some(Val::Float(x))]],
                })
                .collect();
            (header_text("VCFv4.3", &c, &s, true), c, s, recs)
        }
        // non-ASCII text everywhere a name or string can stand: sample names, a FILTER id, IDs, INFO String /
        // String list / Character, FORMAT String with slot widths that differ between samples ("naïve" is the longest)
        "non-ascii-text" => {
            // contig names stay ASCII: the VCF writer rejects others ("invalid reference sequence name"; the specification
            // restricts contig names to printable ASCII)
            let c = vec![("chrA1".to_string(), 50_000usize), ("scaffold_2".to_string(), 90_000)];
            let s: Vec<String> = vec!["naïve".into(), "S→2".into(), "😀3".into()];
            let base = header_text("VCFv4.3", &c, &s, true);
            let (head, chrom_line) = base.split_at(base.find("#CHROM").unwrap());
            let t = format!("{head}##FILTER=<ID=fïltre→1,Description=\"non-ASCII filter id\">\n{chrom_line}");
            let fixed: [[&str; 3]; 4] = [["naïve", "ab", "x"], ["a", "日本語テキスト", "bc"], ["😀😀", "q", "zzzz"], ["plain", "ascii", "only"]];
            let mut recs: Vec<Var> = Vec::new();
            for i in 0..16usize {
                let mut r = rand_record(rng, &c, s.len(), true, false);
                if !r.format.contains(&"XT".to_string()) {
                    r.format.push("XT".into());
                    for row in r.samples.iter_mut() {
                        row.push(Some(Val::Str(word(rng, 1, 10))));
                    }
                }
                let xt = r.format.iter().position(|k| k == "XT").unwrap();
                if i < fixed.len() {
                    for (row, w) in r.samples.iter_mut().zip(fixed[i]) {
                        row[xt] = Some(Val::Str(w.to_string()));
                    }
                }
                r.info.retain(|(k, _)| !matches!(k.as_str(), "XS" | "XC" | "XL"));
                r.info.push(("XS".into(), Val::Str(format!("{}ï{}", word(rng, 1, 6), word(rng, 0, 6)))));
                r.info.push(("XC".into(), Val::Char(*rng.pick(&['é', '中', '😀', 'Z']))));
                r.info.push(("XL".into(), Val::StrArr(vec![word(rng, 1, 5), format!("€{}", word(rng, 1, 4)), "tail→".into()])));
                r.ids = vec![format!("rs{i}"), format!("ïd_{}", word(rng, 1, 6))];
                if i % 3 == 0 {
                    r.filters = Some(vec!["fïltre→1".into()]);
                } else if i % 3 == 1 {
                    r.filters = Some(vec!["q10".into(), "fïltre→1".into()]);
                }
                recs.push(r);
            }
            (t, c, s, recs)
        }
        // ---- scale family ----------------------------------------------------------------------
        // a dictionary with more than 127 / 255 / 32767 entries: N extra FILTERs fx<k> and up to 300 extra INFO
        // (IK<k>) and FORMAT (FK<k>) keys; records use three neighbouring FILTERs and the extra keys in windows
        // around dictionary positions 128, 256 and 32768 and at the end (typed Int8 / Int16 / Int32 index vectors)
        c if c.starts_with("scale-large-dictionary-") => {
            let n: usize = c.rsplit('-').next().unwrap().parse().expect("entry count");
            let m = n.min(300);
            let c = mk_contigs(rng, 2);
            let s = mk_samples(2);
            let base = header_text("VCFv4.3", &c, &s, true);
            let (head, chrom_line) = base.split_at(base.find("#CHROM").unwrap());
            let mut t = String::from(head);
            for k in 0..n {
                t.push_str(&format!("##FILTER=<ID=fx{k},Description=\"extra filter {k}\">\n"));
            }
            for k in 0..m {
                t.push_str(&format!("##INFO=<ID=IK{k},Number=1,Type=Integer,Description=\"extra info key {k}\">\n"));
                t.push_str(&format!("##FORMAT=<ID=FK{k},Number=1,Type=Integer,Description=\"extra format key {k}\">\n"));
            }
            t.push_str(chrom_line);
            let mut ks: Vec<usize> = Vec::new();
            for centre in [128usize, 256, 32768] {
                ks.extend((centre.saturating_sub(45)..centre + 45).filter(|&k| k < n));
            }
            ks.extend(n.saturating_sub(6)..n);
            ks.extend([0usize, 1, 2]);
            ks.sort();
            ks.dedup();
            let recs = ks
                .iter()
                .map(|&k| {
                    let mut r = rand_record(rng, &c, s.len(), true, false);
                    let mut f: Vec<String> = (k..(k + 3).min(n)).map(|j| format!("fx{j}")).collect();
                    if rng.chance(1, 3) {
                        f.insert(0, "q10".into());
                    }
                    r.filters = Some(f);
                    r.info.push((format!("IK{}", k % m), Val::Int(k as i32)));
                    if k + 7 < n {
                        r.info.push((format!("IK{}", (k + 7) % m), Val::Int(-(k as i32))));
                    }
                    r.format.push(format!("FK{}", k % m));
                    for (si, row) in r.samples.iter_mut().enumerate() {
                        row.push(Some(Val::Int((k + si) as i32)));
                    }
                    r
                })
                .collect();
            (t, c, s, recs)
        }
        // single records larger than one and than two BGZF blocks between small ones: long INFO String, long ALT
        "scale-large-record" => {
            let c = mk_contigs(rng, 2);
            let s = mk_samples(2);
            let mut recs: Vec<Var> = Vec::new();
            for big in [0usize, 70_000, 0, 0, 140_000, 0, 0] {
                let mut r = rand_record(rng, &c, s.len(), true, false);
                if big > 0 {
                    r.info.retain(|(k, _)| k != "XS");
                    r.info.push(("XS".into(), Val::Str(word(rng, big, big))));
                    if big > 100_000 {
                        r.alts = vec![bases(rng, 100_000, 100_000), "A".into()];
                        r.refb = "C".into();
                        r.info.retain(|(k, _)| !matches!(k.as_str(), "AF" | "AC"));
                        // per-allele FORMAT vectors follow the two ALTs
                        r = Var { format: vec!["GT".into()], samples: s.iter().map(|_| vec![Some(Val::Gt(vec![(Some(0), false), (Some(2), false)]))]).collect(), ..r };
                    }
                }
                recs.push(r);
            }
            (header_text(version, &c, &s, true), c, s, recs)
        }
        // 3000 samples: every record line is large; the middle one carries GT:DP:AD:PL:XT for every sample (> 128 KiB)
        "scale-many-samples-3000" => {
            let c = mk_contigs(rng, 1);
            let s: Vec<String> = (0..3000).map(|i| format!("S{i:04}")).collect();
            let mut recs: Vec<Var> = Vec::new();
            for full in [false, true, false] {
                let mut r = rand_record(rng, &c, 0, true, false);
                r.alts = vec!["G".into()];
                r.refb = "T".into();
                r.info.retain(|(k, _)| !matches!(k.as_str(), "AF" | "AC"));
                r.format = if full { vec!["GT".into(), "DP".into(), "AD".into(), "PL".into(), "XT".into()] } else { vec!["GT".into()] };
                r.samples = (0..s.len())
                    .map(|_| {
                        let mut row = vec![Some(rand_gt(rng, 1, 2))];
                        if full {
                            row.push(if rng.chance(1, 20) { None } else { Some(Val::Int(int(rng).abs())) });
                            row.push(Some(Val::IntArr(vec![Some(rng.range(0, 300) as i32), Some(rng.range(0, 70000) as i32)])));
                            row.push(Some(Val::IntArr((0..3).map(|_| Some(rng.range(0, 70000) as i32)).collect())));
                            row.push(Some(Val::Str(word(rng, 1, 12))));
                        }
                        row
                    })
                    .collect();
                recs.push(r);
            }
            (header_text(version, &c, &s, true), c, s, recs)
        }
        c => panic!("unknown variant set class {c}"),
    };
    VSet { class: class.to_string(), header_text, contigs, sample_names, recs }
}

// ---------------------------------------------------------------------------------------------
// driving noodles

pub fn parse_header(text: &str) -> Result<vcf::Header, String> {
    if text.is_empty() { Ok(vcf::Header::default()) } else { text.parse::<vcf::Header>().map_err(|e| format!("harness: generated header does not parse: {e}")) }
}

pub fn write_generic(fmt: VFmt, header: &vcf::Header, recs: &[RecordBuf]) -> Result<Vec<u8>, Fail> {
    let mut out = Vec::new();
    {
        let mut w = uvar::io::writer::Builder::default().set_format(fmt.format()).set_compression_method(fmt.compression()).build_from_writer(&mut out);
        w.write_header(header).map_err(|e| Fail::new("write_header", e))?;
        for r in recs {
            w.write_record(header, r).map_err(|e| Fail::new("write_record", e))?;
        }
        // the generic variant writer has no finish(): the stream is completed when it is dropped
    }
    Ok(out)
}

#[derive(Debug, Default)]
pub struct ReadBack {
    pub contigs: Vec<String>,
    pub samples: Vec<String>,
    pub lines: Vec<String>,
}

fn readback_of(h: &vcf::Header) -> ReadBack {
    ReadBack { contigs: h.contigs().keys().cloned().collect(), samples: h.sample_names().iter().cloned().collect(), lines: Vec::new() }
}

pub fn read_generic<R: Read>(src: R) -> Result<ReadBack, Fail> {
    let mut r = uvar::io::reader::Builder::default().build_from_reader(src).map_err(|e| Fail::new("open", e))?;
    let header = r.read_header().map_err(|e| Fail::new("read_header", e))?;
    let mut rb = readback_of(&header);
    for rec in r.records(&header) {
        let rec = rec.map_err(|e| Fail::new("read_record", e))?;
        rb.lines.push(observed_line(&header, rec.as_ref()).map_err(|e| Fail::new("decode_record", e))?);
    }
    Ok(rb)
}

pub fn read_generic_variants(src: &[u8]) -> Result<(Vec<String>, Vec<&'static str>), Fail> {
    let mut r = uvar::io::reader::Builder::default().build_from_reader(src).map_err(|e| Fail::new("open", e))?;
    let header = r.read_header().map_err(|e| Fail::new("read_header", e))?;
    let mut rec = uvar::Record::default();
    let mut lines = Vec::new();
    let mut variants: Vec<&'static str> = Vec::new();
    while r.read_record(&mut rec).map_err(|e| Fail::new("read_record", e))? != 0 {
        let v = match &rec {
            uvar::Record::Vcf(_) => "Vcf",
            uvar::Record::Bcf(_) => "Bcf",
        };
        if !variants.contains(&v) {
            variants.push(v);
        }
        lines.push(observed_line(&header, &rec).map_err(|e| Fail::new("decode_record", e))?);
    }
    Ok((lines, variants))
}

fn read_with<R, T: vcf::variant::io::Read<R>>(mut r: T) -> Result<ReadBack, Fail> {
    let header = r.read_variant_header().map_err(|e| Fail::new("read_header", e))?;
    let mut rb = readback_of(&header);
    for rec in r.variant_records(&header) {
        let rec = rec.map_err(|e| Fail::new("read_record", e))?;
        rb.lines.push(observed_line(&header, rec.as_ref()).map_err(|e| Fail::new("decode_record", e))?);
    }
    Ok(rb)
}

pub fn read_specific(fmt: VFmt, src: &[u8]) -> Result<ReadBack, Fail> {
    match fmt {
        VFmt::Vcf => read_with(vcf::io::Reader::new(src)),
        VFmt::VcfGz => read_with(vcf::io::Reader::new(bgzf::io::Reader::new(src))),
        VFmt::Bcf => read_with(bcf::io::Reader::new(src)),
        VFmt::BcfRaw => read_with(bcf::io::Reader::from(src)),
    }
}

/// generic reader (autodetect) -> generic writer(target), the way util_variant_rewrite does it.
pub fn convert(src: &[u8], tgt: VFmt) -> Result<Vec<u8>, Fail> {
    let mut reader = uvar::io::reader::Builder::default().build_from_reader(src).map_err(|e| Fail::new("src-open", e))?;
    let header = reader.read_header().map_err(|e| Fail::new("src-read_header", e))?;
    let mut out = Vec::new();
    {
        let mut writer = uvar::io::writer::Builder::default().set_format(tgt.format()).set_compression_method(tgt.compression()).build_from_writer(&mut out);
        writer.write_header(&header).map_err(|e| Fail::new("tgt-write_header", e))?;
        for result in reader.records(&header) {
            let record = result.map_err(|e| Fail::new("src-read_record", e))?;
            writer.write_record(&header, record.as_ref()).map_err(|e| Fail::new("tgt-write_record", e))?;
        }
    }
    Ok(out)
}

pub fn write_path(path: &std::path::Path, header: &vcf::Header, recs: &[RecordBuf]) -> Result<(), Fail> {
    let mut w = uvar::io::writer::Builder::default().build_from_path(path).map_err(|e| Fail::new("build", e))?;
    w.write_header(header).map_err(|e| Fail::new("write_header", e))?;
    for r in recs {
        w.write_record(header, r).map_err(|e| Fail::new("write_record", e))?;
    }
    Ok(())
}

pub fn read_path(path: &std::path::Path) -> Result<ReadBack, Fail> {
    let mut r = uvar::io::reader::Builder::default().build_from_path(path).map_err(|e| Fail::new("open", e))?;
    let header = r.read_header().map_err(|e| Fail::new("read_header", e))?;
    let mut rb = readback_of(&header);
    for rec in r.records(&header) {
        let rec = rec.map_err(|e| Fail::new("read_record", e))?;
        rb.lines.push(observed_line(&header, rec.as_ref()).map_err(|e| Fail::new("decode_record", e))?);
    }
    Ok(rb)
}

pub fn structural_check(fmt: VFmt, bytes: &[u8]) -> Result<(), (&'static str, String)> {
    let gz = bytes.len() >= 2 && bytes[0] == 0x1f && bytes[1] == 0x8b;
    if fmt.bgzf() != gz {
        return Err(("compression", format!("requested compression {:?} but the stream {} with the gzip magic", fmt.compression(), if gz { "starts" } else { "does not start" })));
    }
    let plain: Vec<u8> = if gz {
        match vcore::bgzf::walk(bytes) {
            Ok(w) => {
                if !w.ends_with_eof_marker() {
                    return Err(("compression", "BGZF stream does not end with the EOF marker".into()));
                }
                let mut v = w.concat();
                v.truncate(64);
                v
            }
            Err(e) => return Err(("compression", format!("stream starts with the gzip magic but is not well-formed BGZF: {e}"))),
        }
    } else {
        bytes[..bytes.len().min(64)].to_vec()
    };
    let ok = match fmt {
        VFmt::Bcf | VFmt::BcfRaw => plain.starts_with(b"BCF\x02"),
        VFmt::Vcf | VFmt::VcfGz => plain.starts_with(b"##fileformat=VCF"),
    };
    if ok { Ok(()) } else { Err(("format", format!("payload starts with {:?}, which is not {}", String::from_utf8_lossy(&plain[..plain.len().min(16)]), fmt.name()))) }
}
