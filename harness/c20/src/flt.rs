//! f32 values over the full finite bit-pattern range (shared by both sides). Every comparison in C20 is
//! on the bit pattern, so a writer that rounds (e.g. to 6 significant digits) or a parser that is off by one
//! ulp shows up as a difference.

use vcore::Rng;

/// values whose shortest round-trip decimal needs 7, 8 and 9 significant digits; the ends of the range;
/// subnormals; powers of two and their neighbours; -0.0
pub const EDGE_BITS: &[u32] = &[
    0x3dfcd6e9, // 0.1234567   (7 digits)
    0x449a522b, // 1234.5677   (8 digits)
    0x3dcccccd, // 0.1
    0x3eaaaaab, // 0.33333334  (8 digits)
    0x4b7fffff, // 16777215
    0x4b800000, // 16777216
    0x4affffff, // 8388607.5
    0x7f7fffff, // f32::MAX 3.4028235e38
    0xff7fffff, // f32::MIN
    0x00800000, // f32::MIN_POSITIVE 1.1754944e-38
    0x00000001, // 1e-45, smallest subnormal
    0x007fffff, // largest subnormal 1.1754942e-38
    0x80000001, // -1e-45
    0x80000000, // -0.0
    0x3f800001, // 1 + ulp = 1.0000001
    0x3f7fffff, // 1 - ulp = 0.99999994
    0x40000001, // 2 + ulp
    0x3fffffff, // 2 - ulp = 1.9999999
    0x501502f9, // 1e10
    0x2edbe6ff, // 1e-10
    0x38d1b717, // 1e-4 = 9.99999975e-5 (9 digits)
    0x461c4000, // 10000
    0x4cbebc20, // 1e8
    0x7e967699, // 1e38
    0x42c80000, // 100
    0x42c88000, // 100.25
];

pub fn wide_f32(rng: &mut Rng) -> f32 {
    match rng.below(6) {
        0 | 1 => f32::from_bits(*rng.pick(EDGE_BITS)),
        // power of two +- 0..2 ulp over the whole exponent range
        2 => {
            let e = rng.below(254) as u32 + 1;
            let b = (e << 23).wrapping_add(rng.below(5) as u32).wrapping_sub(2) | if rng.bool() { 0x8000_0000 } else { 0 };
            let x = f32::from_bits(b);
            if x.is_finite() { x } else { 1.0 }
        }
        // any finite bit pattern
        _ => loop {
            let x = f32::from_bits(rng.next_u32());
            if x.is_finite() {
                return x;
            }
        },
    }
}

/// Number of significant decimal digits of the shortest representation that parses back to `x`.
pub fn sig_digits(x: f32) -> usize {
    if !x.is_finite() {
        return 0;
    }
    let s = format!("{x:e}");
    let m = s.split('e').next().unwrap_or("");
    m.chars().filter(|c| c.is_ascii_digit()).collect::<String>().trim_end_matches('0').len().max(1)
}
