//! C20 — stub (to be implemented).

fn main() {
    eprintln!("c20: not implemented");
    std::process::exit(2);
}
