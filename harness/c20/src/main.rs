//! C20 — format autodetection picks the written format; conversions keep content.
//!
//! Monitor. For generated record sets restricted to the data model that every format represents
//! alike (see `aln.rs` / `var.rs`), every (format, compression) pair the noodles-util writer
//! builders offer is written through the *generic* writer; then
//!
//! (i)  the stream must have the shape of the requested pair (independent look at the leading
//!      bytes, BGZF walked by the harness' own walker), must read back through the generic reader
//!      with nothing but `build_from_reader` (format and compression autodetected) as the written
//!      descriptions, must be readable by the *format-specific* reader of the intended pair, must
//!      make `read_record` produce the `Record` variant of the intended format, and the outcome
//!      must not change when the same bytes arrive through a reader whose first `read` returns
//!      fewer bytes than the magic number / the first BGZF block (`vcore::adv::ChunkedRead`);
//! (ii) for every ordered (source, target) pair, generic reader -> generic writer (the loop of
//!      `util_alignment_rewrite` / `util_variant_rewrite`) must produce a stream of the target
//!      shape that reads back as the written descriptions.
//!
//! Expected values always come from the generator's description, never from noodles.

mod aln;
mod flt;
mod var;

use std::{fmt::Display, io::Read, path::Path};

use serde_json::{Value, json};
use vcore::{
    CaseOut, Ctx, Report, Rng,
    adv::{ChunkedRead, Sizes},
    bgzf as obgzf, guard,
    report::hex,
    rng::fnv1a,
    run_cases,
};

#[derive(Debug, Clone)]
pub struct Fail {
    pub stage: &'static str,
    pub err: String,
}

impl Fail {
    pub fn new(stage: &'static str, e: impl Display) -> Self {
        Fail { stage, err: e.to_string() }
    }
}

/// What a reader delivered, in the common currency of both sides.
#[derive(Debug, Default, Clone)]
pub struct Rb {
    /// header items the records are interpreted against (reference dictionary / contigs, samples)
    pub hdr: Vec<String>,
    pub lines: Vec<String>,
}

/// One record set together with everything needed to drive noodles on it.
trait Driver {
    fn side(&self) -> &'static str;
    fn class(&self) -> &str;
    fn nfmt(&self) -> usize;
    fn fmt_name(&self, f: usize) -> &'static str;
    fn bgzf(&self, f: usize) -> bool;
    fn raw_magic_len(&self, f: usize) -> usize;
    fn record_variant(&self, f: usize) -> &'static str;
    fn cols(&self) -> &'static [&'static str];
    fn expected(&self) -> &Rb;
    fn write(&self, f: usize) -> Result<Vec<u8>, Fail>;
    fn read_generic(&self, src: &mut dyn Read) -> Result<Rb, Fail>;
    fn read_variants(&self, bytes: &[u8]) -> Result<(Vec<String>, Vec<&'static str>), Fail>;
    fn read_specific(&self, f: usize, bytes: &[u8]) -> Result<Rb, Fail>;
    fn convert(&self, bytes: &[u8], tgt: usize) -> Result<Vec<u8>, Fail>;
    fn structural(&self, f: usize, bytes: &[u8]) -> Result<(), (&'static str, String)>;
    fn write_path(&self, p: &Path) -> Result<(), Fail>;
    fn read_path(&self, p: &Path) -> Result<Rb, Fail>;
    /// generator-side feature counts of the set; `{fmt}` in the key is replaced by the format read back
    fn features(&self) -> Vec<(String, u64)> {
        Vec::new()
    }
    /// (file name for the writer's build_from_path, index of the pair it must select)
    fn path_cases(&self) -> &'static [(&'static str, usize)];
}

// ---------------------------------------------------------------------------------------------

struct AlnDriver {
    set: aln::ASet,
    header: noodles_sam::Header,
    recs: Vec<noodles_sam::alignment::RecordBuf>,
    repo: noodles_fasta::Repository,
    exp: Rb,
}

impl AlnDriver {
    fn new(set: aln::ASet) -> Result<Self, String> {
        let header = aln::parse_header(&set.header_text)?;
        let recs = set.recs.iter().map(aln::to_record_buf).collect();
        let repo = aln::repository(&set.refs);
        let exp = Rb {
            hdr: set.refs.iter().map(|r| format!("{}:{}", r.name, r.seq.len())).collect(),
            lines: set.recs.iter().map(|r| aln::expected_line(r, &set.refs)).collect(),
        };
        Ok(AlnDriver { set, header, recs, repo, exp })
    }
}

fn aln_rb(r: aln::ReadBack) -> Rb {
    Rb { hdr: r.refs.iter().map(|(n, l)| format!("{n}:{l}")).collect(), lines: r.lines }
}

impl Driver for AlnDriver {
    fn side(&self) -> &'static str {
        "alignment"
    }
    fn class(&self) -> &str {
        &self.set.class
    }
    fn nfmt(&self) -> usize {
        aln::AFMTS.len()
    }
    fn fmt_name(&self, f: usize) -> &'static str {
        aln::AFMTS[f].name()
    }
    fn bgzf(&self, f: usize) -> bool {
        aln::AFMTS[f].bgzf()
    }
    fn raw_magic_len(&self, f: usize) -> usize {
        aln::AFMTS[f].raw_magic_len()
    }
    fn record_variant(&self, f: usize) -> &'static str {
        aln::AFMTS[f].record_variant()
    }
    fn cols(&self) -> &'static [&'static str] {
        &aln::COLS
    }
    fn expected(&self) -> &Rb {
        &self.exp
    }
    fn write(&self, f: usize) -> Result<Vec<u8>, Fail> {
        aln::write_generic(aln::AFMTS[f], &self.header, &self.recs, &self.repo)
    }
    fn read_generic(&self, src: &mut dyn Read) -> Result<Rb, Fail> {
        aln::read_generic(src, &self.repo).map(aln_rb)
    }
    fn read_variants(&self, bytes: &[u8]) -> Result<(Vec<String>, Vec<&'static str>), Fail> {
        aln::read_generic_variants(bytes, &self.repo)
    }
    fn read_specific(&self, f: usize, bytes: &[u8]) -> Result<Rb, Fail> {
        aln::read_specific(aln::AFMTS[f], bytes, &self.repo).map(aln_rb)
    }
    fn convert(&self, bytes: &[u8], tgt: usize) -> Result<Vec<u8>, Fail> {
        aln::convert(bytes, aln::AFMTS[tgt], &self.repo)
    }
    fn structural(&self, f: usize, bytes: &[u8]) -> Result<(), (&'static str, String)> {
        aln::structural_check(aln::AFMTS[f], bytes)
    }
    fn write_path(&self, p: &Path) -> Result<(), Fail> {
        aln::write_path(p, &self.header, &self.recs, &self.repo)
    }
    fn read_path(&self, p: &Path) -> Result<Rb, Fail> {
        aln::read_path(p, &self.repo).map(aln_rb)
    }
    fn features(&self) -> Vec<(String, u64)> {
        let mut v: Vec<(String, u64)> = self.set.pair_stats.iter().map(|(k, n)| (format!("same_name_templates_read_back[{{fmt}}/{k}]"), *n)).collect();
        let (mut scalar, mut array) = (0u64, 0u64);
        for r in &self.set.recs {
            for (_, a) in &r.aux {
                match a {
                    aln::Aux::Float(x) if flt::sig_digits(*x) >= 7 => scalar += 1,
                    aln::Aux::FloatArr(xs) => array += xs.iter().filter(|x| flt::sig_digits(**x) >= 7).count() as u64,
                    _ => {}
                }
            }
        }
        v.push(("floats_needing_ge_7_digits_read_back[{fmt}/scalar-f]".into(), scalar));
        v.push(("floats_needing_ge_7_digits_read_back[{fmt}/B:f]".into(), array));
        v
    }
    fn path_cases(&self) -> &'static [(&'static str, usize)] {
        aln::PATH_CASES
    }
}

struct VarDriver {
    set: var::VSet,
    header: noodles_vcf::Header,
    recs: Vec<noodles_vcf::variant::RecordBuf>,
    exp: Rb,
}

fn var_hdr(contigs: impl Iterator<Item = String>, samples: impl Iterator<Item = String>) -> Vec<String> {
    contigs.map(|c| format!("contig:{c}")).chain(samples.map(|s| format!("sample:{s}"))).collect()
}

impl VarDriver {
    fn new(set: var::VSet) -> Result<Self, String> {
        let header = var::parse_header(&set.header_text)?;
        let recs = set.recs.iter().map(var::to_record_buf).collect();
        let exp = Rb { hdr: var_hdr(set.contigs.iter().map(|c| c.0.clone()), set.sample_names.iter().cloned()), lines: set.recs.iter().map(var::expected_line).collect() };
        Ok(VarDriver { set, header, recs, exp })
    }
}

fn var_rb(r: var::ReadBack) -> Rb {
    Rb { hdr: var_hdr(r.contigs.into_iter(), r.samples.into_iter()), lines: r.lines }
}

impl Driver for VarDriver {
    fn side(&self) -> &'static str {
        "variant"
    }
    fn class(&self) -> &str {
        &self.set.class
    }
    fn nfmt(&self) -> usize {
        var::VFMTS.len()
    }
    fn fmt_name(&self, f: usize) -> &'static str {
        var::VFMTS[f].name()
    }
    fn bgzf(&self, f: usize) -> bool {
        var::VFMTS[f].bgzf()
    }
    fn raw_magic_len(&self, f: usize) -> usize {
        var::VFMTS[f].raw_magic_len()
    }
    fn record_variant(&self, f: usize) -> &'static str {
        var::VFMTS[f].record_variant()
    }
    fn cols(&self) -> &'static [&'static str] {
        &var::COLS
    }
    fn expected(&self) -> &Rb {
        &self.exp
    }
    fn write(&self, f: usize) -> Result<Vec<u8>, Fail> {
        var::write_generic(var::VFMTS[f], &self.header, &self.recs)
    }
    fn read_generic(&self, src: &mut dyn Read) -> Result<Rb, Fail> {
        var::read_generic(src).map(var_rb)
    }
    fn read_variants(&self, bytes: &[u8]) -> Result<(Vec<String>, Vec<&'static str>), Fail> {
        var::read_generic_variants(bytes)
    }
    fn read_specific(&self, f: usize, bytes: &[u8]) -> Result<Rb, Fail> {
        var::read_specific(var::VFMTS[f], bytes).map(var_rb)
    }
    fn convert(&self, bytes: &[u8], tgt: usize) -> Result<Vec<u8>, Fail> {
        var::convert(bytes, var::VFMTS[tgt])
    }
    fn structural(&self, f: usize, bytes: &[u8]) -> Result<(), (&'static str, String)> {
        var::structural_check(var::VFMTS[f], bytes)
    }
    fn write_path(&self, p: &Path) -> Result<(), Fail> {
        var::write_path(p, &self.header, &self.recs)
    }
    fn read_path(&self, p: &Path) -> Result<Rb, Fail> {
        var::read_path(p).map(var_rb)
    }
    fn features(&self) -> Vec<(String, u64)> {
        let (mut qual, mut info, mut format) = (0u64, 0u64, 0u64);
        let wide = |v: &var::Val| -> u64 {
            match v {
                var::Val::Float(x) => (flt::sig_digits(*x) >= 7) as u64,
                var::Val::FloatArr(xs) => xs.iter().flatten().filter(|x| flt::sig_digits(**x) >= 7).count() as u64,
                _ => 0,
            }
        };
        for r in &self.set.recs {
            qual += r.qual.map(|q| (flt::sig_digits(q) >= 7) as u64).unwrap_or(0);
            info += r.info.iter().map(|(_, v)| wide(v)).sum::<u64>();
            format += r.samples.iter().flatten().flatten().map(wide).sum::<u64>();
        }
        vec![
            ("floats_needing_ge_7_digits_read_back[{fmt}/QUAL]".into(), qual),
            ("floats_needing_ge_7_digits_read_back[{fmt}/INFO]".into(), info),
            ("floats_needing_ge_7_digits_read_back[{fmt}/FORMAT]".into(), format),
        ]
    }
    fn path_cases(&self) -> &'static [(&'static str, usize)] {
        var::PATH_CASES
    }
}

// ---------------------------------------------------------------------------------------------
// judging

enum Verdict {
    Same,
    /// (stage, error text)
    Failed(&'static str, String),
    /// (column or "count"/"header", detail)
    Differs(String, String),
    Panicked(String, String),
}

fn first_diff_col(cols: &[&str], a: &str, b: &str) -> String {
    let (x, y): (Vec<&str>, Vec<&str>) = (a.split('\t').collect(), b.split('\t').collect());
    for (i, c) in cols.iter().enumerate() {
        if x.get(i) != y.get(i) {
            return c.to_string();
        }
    }
    "shape".into()
}

fn clip(s: &str) -> String {
    if s.len() > 300 { format!("{}…", s.chars().take(300).collect::<String>()) } else { s.to_string() }
}

fn judge(cols: &[&str], exp: &Rb, got: Result<Result<Rb, Fail>, guard::PanicInfo>) -> Verdict {
    match got {
        Err(p) => Verdict::Panicked(p.sig.clone(), format!("{} at {}:{}", p.message, p.file, p.line)),
        Ok(Err(f)) => Verdict::Failed(f.stage, f.err),
        Ok(Ok(rb)) => {
            if rb.hdr != exp.hdr {
                return Verdict::Differs("header".into(), format!("header items read {:?}, written {:?}", rb.hdr, exp.hdr));
            }
            for (i, (g, e)) in rb.lines.iter().zip(&exp.lines).enumerate() {
                if g != e {
                    let col = first_diff_col(cols, g, e);
                    return Verdict::Differs(col.clone(), format!("record #{i} differs in {col}: read {:?}, written {:?}", clip(g), clip(e)));
                }
            }
            if rb.lines.len() != exp.lines.len() {
                return Verdict::Differs("count".into(), format!("{} records read, {} written", rb.lines.len(), exp.lines.len()));
            }
            Verdict::Same
        }
    }
}

struct Out {
    o: CaseOut,
    sigs: Vec<String>,
    /// `Some((side, shape))` for the minimal witness sets of understood defects: everything such a
    /// set trips is reported under the one signature `<side>-witness[<shape>]`
    witness: Option<(String, String)>,
}

impl Out {
    fn violation(&mut self, sig: String, desc: String, witness: Value) {
        let (sig, desc) = match &self.witness {
            Some((side, shape)) if !sig.contains("-writer-compression-mismatch:") => (format!("{side}-witness[{shape}]"), format!("[{sig}] {desc}")),
            _ => (sig, desc),
        };
        // one witness per signature and case is enough
        if self.sigs.contains(&sig) {
            self.o.count("violations_suppressed_same_sig_same_case", 1);
            return;
        }
        self.sigs.push(sig.clone());
        self.o.violation_with(sig, desc, witness);
    }
}

fn head(bytes: &[u8]) -> Value {
    json!({"len": bytes.len(), "head_hex": hex(&bytes[..bytes.len().min(48)])})
}

fn first_block_size(bytes: &[u8]) -> usize {
    // BSIZE of the first BGZF member (harness' own reading of the header)
    if bytes.len() >= 18 && bytes[12] == b'B' && bytes[13] == b'C' { u16::from_le_bytes([bytes[16], bytes[17]]) as usize + 1 } else { bytes.len() }
}

const BIG: usize = 1 << 30;

fn windows(seed: u64, quick: bool) -> Vec<(&'static str, Sizes)> {
    let mut w = vec![
        ("every-read-1", Sizes::Fixed(1)),
        ("every-read-2", Sizes::Fixed(2)),
        ("every-read-3", Sizes::Fixed(3)),
        ("first-1", Sizes::Script(vec![1, BIG])),
        ("first-2", Sizes::Script(vec![2, BIG])),
        ("first-3", Sizes::Script(vec![3, BIG])),
        ("first-4", Sizes::Script(vec![4, BIG])),
        ("first-17", Sizes::Script(vec![17, BIG])),
        ("first-19", Sizes::Script(vec![19, BIG])),
        ("first-30", Sizes::Script(vec![30, BIG])),
        ("random-7", Sizes::Random(7, seed)),
        ("every-read-4096", Sizes::Fixed(4096)),
        ("first-8192-then-small", Sizes::Script(vec![8192, 1, 2, 3, BIG])),
    ];
    if !quick {
        w.push(("every-read-5", Sizes::Fixed(5)));
        w.push(("first-100", Sizes::Script(vec![100, BIG])));
        w.push(("random-300", Sizes::Random(300, seed ^ 9)));
        w.push(("every-read-8191", Sizes::Fixed(8191)));
    }
    w
}

/// Size of the first delivery the reader's 8 KiB `BufReader` will see.
fn first_delivery(bytes: &[u8], sizes: &Sizes) -> usize {
    let mut probe = ChunkedRead::from_slice(bytes, sizes.clone());
    let mut buf = [0u8; 8192];
    probe.read(&mut buf).unwrap_or(0)
}

fn run_set(d: &dyn Driver, ctx: &Ctx, idx: u64, seed: u64) -> CaseOut {
    let mut out = Out { o: CaseOut::new(), sigs: Vec::new(), witness: d.class().strip_prefix("witness-").map(|s| (d.side().to_string(), s.to_string())) };
    out.o.evaluations = 0;
    let side = d.side();
    let exp = d.expected();
    let n = d.nfmt();
    let cols = d.cols();
    out.o.count(&format!("sets[{side}/{}]", d.class()), 1);
    out.o.count(&format!("records_in_sets[{side}]"), exp.lines.len() as u64);
    out.o.max(&format!("max_records_per_set[{side}]"), exp.lines.len() as u64);

    let mut files: Vec<Option<Vec<u8>>> = vec![None; n];
    let mut src_ok = vec![false; n];
    let eof_only = |b: &[u8]| b == obgzf::EOF_MARKER;

    // ---- (i) writing, shape, detection ----------------------------------------------------
    for f in 0..n {
        let name = d.fmt_name(f);
        let bytes = match guard::catch(|| d.write(f)) {
            Err(p) => {
                // a mapped record with a CIGAR but without bases makes the CRAM writer panic (io/writer/record/convert.rs
                // indexes the empty sequence); C07 records that as observed, not judged - CRAM derives its features from
                // the bases. Counted here as well.
                if d.class() == "scale-long-cigar-noseq-noqual" && name == "cram" {
                    out.o.count(&format!("writer_panicked_sets_not_judged[{side}/{}/{name}]", d.class()), 1);
                    continue;
                }
                out.violation(format!("panic:{}", p.sig), format!("{side}: generic writer for {name} panicked: {}", p.message), Value::Null);
                continue;
            }
            Ok(Err(e)) => {
                out.o.count(&format!("writer_rejected[{side}/{name}/{}]", e.stage), 1);
                // missing SEQ / QUAL with a long CIGAR is outside what every writer has to take: counted, not judged
                if !d.class().starts_with("scale-long-cigar-") {
                    out.o.inconclusive.push(format!("{side}: generic writer for {name} rejected a common-model set at {}: {}", e.stage, e.err));
                }
                out.o.count(&format!("writer_rejected_sets[{side}/{}/{name}]", d.class()), 1);
                continue;
            }
            Ok(Ok(b)) => b,
        };
        out.o.count(&format!("files_written[{side}/{name}]"), 1);
        out.o.max("max_file_bytes", bytes.len() as u64);
        files[f] = Some(bytes.clone());
        if bytes.starts_with(&[0x1f, 0x8b]) {
            if let Ok(w) = obgzf::walk(&bytes) {
                // data-carrying members; values can only straddle a block boundary when there are several
                let m = w.members.iter().filter(|m| !m.data.is_empty()).count() as u64;
                out.o.max(&format!("max_bgzf_data_blocks[{side}/{name}]"), m);
                if m >= 5 {
                    out.o.count(&format!("files_with_ge_5_bgzf_data_blocks[{side}/{name}]"), 1);
                }
            }
        } else if bytes.len() >= 300 * 1024 {
            out.o.count(&format!("uncompressed_files_ge_300KiB[{side}/{name}]"), 1);
        }
        let mut shape_ok = true;
        if let Err((kind, msg)) = d.structural(f, &bytes) {
            shape_ok = false;
            out.violation(
                format!("{side}-writer-{kind}-mismatch:{name}"),
                format!("{side}: the generic writer built for {name} produced a stream of another shape: {msg}"),
                head(&bytes),
            );
        }

        // full first window
        out.o.evaluations += 1;
        out.o.count("detection_runs", 1);
        out.o.fps.push(fnv1a(format!("det|{side}|{}|{name}|full", d.class()).as_bytes()));
        let v = judge(cols, exp, guard::catch(|| d.read_generic(&mut &bytes[..])));
        match &v {
            Verdict::Same => {
                src_ok[f] = true;
                out.o.count(&format!("detected_ok[{side}/{name}]"), 1);
                for (k, n) in d.features() {
                    out.o.count(&k.replace("{fmt}", name), n);
                }
                out.o.count("records_compared", exp.lines.len() as u64);
            }
            Verdict::Failed(stage, err) => {
                if eof_only(&bytes) && *stage == "open" {
                    out.violation(
                        format!("{side}-autodetect-fails-on-eof-only-bgzf"),
                        format!("{side}: the generic writer's {name} output for a set without header text and records is the 28-byte BGZF EOF marker; build_from_reader fails on it: {err}"),
                        head(&bytes),
                    );
                } else {
                    out.violation(format!("{side}-autodetect-{stage}-fails:{name}"), format!("{side}: generic reader (autodetect) on the generic writer's {name} output fails at {stage}: {err}"), head(&bytes));
                }
            }
            Verdict::Differs(col, detail) => {
                out.violation(format!("{side}-autodetect-readback-differs:{name}:{col}"), format!("{side}: generic reader (autodetect) on the generic writer's {name} output: {detail}"), head(&bytes));
            }
            Verdict::Panicked(sig, msg) => out.violation(format!("panic:{sig}"), format!("{side}: generic reader on {name} output panicked: {msg}"), head(&bytes)),
        }

        // the reader of the intended pair
        if shape_ok {
            out.o.count("specific_reader_runs", 1);
            match judge(cols, exp, guard::catch(|| d.read_specific(f, &bytes))) {
                Verdict::Same => out.o.count(&format!("specific_ok[{side}/{name}]"), 1),
                Verdict::Failed(stage, err) => {
                    out.violation(format!("{side}-specific-reader-{stage}-fails:{name}"), format!("{side}: the {name} reader cannot read what the generic writer built for {name} produced ({stage}): {err}"), head(&bytes))
                }
                Verdict::Differs(col, detail) => out.violation(format!("{side}-specific-readback-differs:{name}:{col}"), format!("{side}: the {name} reader on the generic writer's {name} output: {detail}"), head(&bytes)),
                Verdict::Panicked(sig, msg) => out.violation(format!("panic:{sig}"), format!("{side}: {name} reader panicked: {msg}"), head(&bytes)),
            }
        }

        if !src_ok[f] {
            continue;
        }

        // read_record path: same records, and the Record variant tells the detected format
        match guard::catch(|| d.read_variants(&bytes)) {
            Err(p) => out.violation(format!("panic:{}", p.sig), format!("{side}: read_record on {name} output panicked: {}", p.message), head(&bytes)),
            Ok(Err(e)) => out.violation(format!("{side}-read_record-{}-fails:{name}", e.stage), format!("{side}: read_record path on {name} output fails: {}", e.err), head(&bytes)),
            Ok(Ok((lines, variants))) => {
                if let Verdict::Differs(col, detail) = judge(cols, exp, Ok(Ok(Rb { hdr: exp.hdr.clone(), lines }))) {
                    out.violation(format!("{side}-read_record-differs:{name}:{col}"), format!("{side}: read_record path on {name} output: {detail}"), head(&bytes));
                }
                if !variants.is_empty() {
                    out.o.count("record_variant_observations", 1);
                    if variants != [d.record_variant(f)] {
                        out.violation(
                            format!("{side}-detected-record-variant:{name}"),
                            format!("{side}: read_record on the generic writer's {name} output yields Record::{variants:?}, the intended format is Record::{}", d.record_variant(f)),
                            head(&bytes),
                        );
                    }
                }
            }
        }

        // short first windows (not on the minimal witness sets: they exist for one shape only)
        let mut windows = if out.witness.is_some() { Vec::new() } else { windows(seed ^ f as u64, ctx.quick()) };
        if d.class().starts_with("scale-") {
            // the scale sets are about size, not about windows: three scripts are enough
            windows.retain(|w| matches!(w.0, "first-1" | "first-30" | "every-read-4096"));
        }
        for (label, sizes) in windows {
            let w0 = first_delivery(&bytes, &sizes);
            out.o.evaluations += 1;
            out.o.count("detection_runs", 1);
            out.o.count("detection_runs_chunked", 1);
            // judged on the stream as it is (a writer that ignored the requested compression is reported separately)
            let is_gz = bytes.starts_with(&[0x1f, 0x8b]);
            let limit = if is_gz { first_block_size(&bytes).min(8192).min(bytes.len()) } else { d.raw_magic_len(f).max(if d.bgzf(f) { 4 } else { 0 }).min(bytes.len()) };
            if w0 < limit {
                out.o.count(&format!("short_first_window_runs[{side}/{name}]"), 1);
            }
            out.o.fps.push(fnv1a(format!("det|{side}|{}|{name}|{label}", d.class()).as_bytes()));
            let v = judge(cols, exp, guard::catch(|| d.read_generic(&mut ChunkedRead::from_slice(&bytes, sizes.clone()))));
            let what = match v {
                Verdict::Same => {
                    out.o.count("chunked_detection_ok", 1);
                    continue;
                }
                Verdict::Panicked(sig, msg) => {
                    out.violation(format!("panic:{sig}"), format!("{side}: generic reader on {name} behind window {label} panicked: {msg}"), head(&bytes));
                    continue;
                }
                Verdict::Failed(stage, err) => format!("fails at {stage}: {err}"),
                Verdict::Differs(_, detail) => detail,
            };
            let class = if is_gz {
                if w0 < 2 {
                    "magic-split"
                } else if w0 < limit {
                    "bgzf-block-split"
                } else {
                    ""
                }
            } else if w0 < limit {
                "magic-split"
            } else {
                ""
            };
            let desc = format!(
                "{side}: the same {name} bytes ({} bytes) that autodetect reads correctly from a slice are not read correctly when the first read() delivers only {w0} byte(s) (window script {label}): {what}",
                bytes.len()
            );
            if class.is_empty() {
                out.violation(format!("{side}-autodetect-window-dependent:{name}"), desc, json!({"window": label, "first_delivery": w0, "file": head(&bytes)}));
            } else {
                out.o.count(&format!("short_first_read_misdetections[{side}/{name}/{class}]"), 1);
                out.violation(format!("{side}-autodetect-short-first-read:{class}"), desc, json!({"window": label, "first_delivery": w0, "file": head(&bytes)}));
            }
        }
    }

    // ---- (ii) conversions -------------------------------------------------------------------
    for s in 0..n {
        for t in 0..n {
            let (sn, tn) = (d.fmt_name(s), d.fmt_name(t));
            // a target the generic writer rejected directly is not a supported combination for this set
            let (Some(src), Some(_)) = (files[s].as_ref(), files[t].as_ref()) else {
                out.o.count("conversions_skipped_file_not_written", 1);
                continue;
            };
            if !src_ok[s] {
                // already reported under (i); a conversion from an unreadable source says nothing new
                out.o.count("conversions_skipped_source_unreadable", 1);
                continue;
            }
            out.o.evaluations += 1;
            out.o.count("conversion_pairs", 1);
            out.o.count(&format!("conversion[{side}/{sn}->{tn}]"), 1);
            out.o.fps.push(fnv1a(format!("conv|{side}|{}|{sn}|{tn}", d.class()).as_bytes()));
            let conv = match guard::catch(|| d.convert(src, t)) {
                Err(p) => {
                    out.violation(format!("panic:{}", p.sig), format!("{side}: conversion {sn}->{tn} panicked: {}", p.message), head(src));
                    continue;
                }
                Ok(Err(e)) => {
                    out.violation(
                        format!("{side}-conversion-fails:{sn}->{tn}:{}", e.stage),
                        format!("{side}: piping the generic reader over {sn} into the generic writer for {tn} fails at {} although {tn} accepted the same records directly: {}", e.stage, e.err),
                        head(src),
                    );
                    continue;
                }
                Ok(Ok(b)) => b,
            };
            if let Err((kind, msg)) = d.structural(t, &conv) {
                out.violation(format!("{side}-writer-{kind}-mismatch:{tn}"), format!("{side}: conversion {sn}->{tn}: the generic writer built for {tn} produced a stream of another shape: {msg}"), head(&conv));
            }
            match judge(cols, exp, guard::catch(|| d.read_generic(&mut &conv[..]))) {
                Verdict::Same => {
                    out.o.count("conversions_ok", 1);
                    out.o.count("records_compared", exp.lines.len() as u64);
                }
                Verdict::Failed(stage, err) => {
                    if eof_only(&conv) && stage == "open" {
                        out.violation(
                            format!("{side}-autodetect-fails-on-eof-only-bgzf"),
                            format!("{side}: conversion {sn}->{tn} of a set without header text and records yields the 28-byte BGZF EOF marker; build_from_reader fails on it: {err}"),
                            head(&conv),
                        );
                    } else {
                        out.violation(format!("{side}-conversion-unreadable:{sn}->{tn}:{stage}"), format!("{side}: the {tn} stream converted from {sn} cannot be read back ({stage}): {err}"), head(&conv));
                    }
                }
                Verdict::Differs(col, detail) => out.violation(format!("{side}-conversion-differs:{sn}->{tn}:{col}"), format!("{side}: conversion {sn}->{tn}: {detail}"), head(&conv)),
                Verdict::Panicked(sig, msg) => out.violation(format!("panic:{sig}"), format!("{side}: reading the {tn} stream converted from {sn} panicked: {msg}"), head(&conv)),
            }
        }
    }

    // ---- path based builders: the writer picks the pair from the file name, the reader from the content
    let all_names = exp.lines.len() <= 250;
    let dir = ctx.work.join(format!("c{idx}-{side}"));
    for (ci, &(rel, f)) in d.path_cases().iter().enumerate() {
        if out.witness.is_some() || files[f].is_none() || (!all_names && ci >= 4) {
            continue;
        }
        let name = d.fmt_name(f);
        let path = dir.join(rel);
        if let Some(p) = path.parent() {
            let _ = std::fs::create_dir_all(p);
        }
        out.o.count("path_runs", 1);
        out.o.count(&format!("path_names[{side}/{rel}]"), 1);
        match guard::catch(|| d.write_path(&path)) {
            Err(p) => {
                out.violation(format!("panic:{}", p.sig), format!("{side}: build_from_path(\"{rel}\") writer panicked: {}", p.message), Value::Null);
                continue;
            }
            Ok(Err(e)) => {
                out.violation(format!("{side}-path-writer-fails:{rel}:{}", e.stage), format!("{side}: build_from_path(\"{rel}\") writer fails at {} although build_from_writer for {name} accepted the set: {}", e.stage, e.err), Value::Null);
                continue;
            }
            Ok(Ok(())) => {}
        }
        let bytes = std::fs::read(&path).unwrap_or_default();
        if let Err((kind, msg)) = d.structural(f, &bytes) {
            out.violation(
                format!("{side}-path-writer-{kind}-mismatch:{rel}"),
                format!("{side}: the writer built with build_from_path(\"{rel}\") (no set_format) must produce {name}; the file it wrote is something else: {msg}"),
                head(&bytes),
            );
        }
        match judge(cols, exp, guard::catch(|| d.read_path(&path))) {
            Verdict::Same => out.o.count("path_runs_ok", 1),
            Verdict::Failed(stage, err) => {
                if eof_only(&bytes) && stage == "open" {
                    out.violation(format!("{side}-autodetect-fails-on-eof-only-bgzf"), format!("{side}: build_from_path on the {rel} file written for a set without header text and records (28-byte BGZF EOF marker) fails: {err}"), head(&bytes));
                } else {
                    out.violation(format!("{side}-path-autodetect-{stage}-fails:{rel}"), format!("{side}: reader build_from_path on the file written through build_from_path(\"{rel}\") fails at {stage}: {err}"), head(&bytes));
                }
            }
            Verdict::Differs(col, detail) => out.violation(format!("{side}-path-readback-differs:{rel}:{col}"), format!("{side}: {rel} written and read through build_from_path: {detail}"), head(&bytes)),
            Verdict::Panicked(sig, msg) => out.violation(format!("panic:{sig}"), format!("{side}: build_from_path reader on {rel} panicked: {msg}"), head(&bytes)),
        }
        let _ = std::fs::remove_file(&path);
    }
    let _ = std::fs::remove_dir_all(&dir);
    let cg = aln::CG_CARRIER_FIELDS_ATTRIBUTED.swap(0, std::sync::atomic::Ordering::Relaxed);
    if cg > 0 {
        out.o.count("cg_carrier_fields_attributed_to_known_C05_C06_finding", cg);
    }
    if d.class().starts_with("scale-") {
        out.o.count(&format!("scale_sets[{side}/{}]", d.class()), 1);
        if (0..n).all(|f| src_ok[f] || (d.class() == "scale-long-cigar-noseq-noqual" && d.fmt_name(f) == "cram")) {
            out.o.count(&format!("scale_sets_read_back_in_every_format[{side}/{}]", d.class()), 1);
        }
        out.o.max(&format!("max_scale_records[{side}]"), exp.lines.len() as u64);
        out.o.max(&format!("max_scale_record_bytes[{side}]"), exp.lines.iter().map(|l| l.len()).max().unwrap_or(0) as u64);
    }
    out.o
}

// ---------------------------------------------------------------------------------------------

#[derive(Clone, Debug)]
struct Case {
    side: &'static str,
    class: String,
    seed: u64,
}

fn case_json(c: &Case) -> Value {
    json!({"side": c.side, "class": c.class, "set_seed": c.seed})
}

fn gen_cases(ctx: &Ctx) -> Vec<Case> {
    let mut cases = Vec::new();
    // deterministic part: every class once per side, seeded by VERIF_SEED (the sets without
    // header text and records do not depend on the seed: they are the witnesses of the known
    // empty-SAM.gz finding)
    for (i, c) in aln::DET_CLASSES.iter().enumerate() {
        cases.push(Case { side: "alignment", class: c.to_string(), seed: ctx.seed.wrapping_mul(1000) + i as u64 });
    }
    for (i, c) in var::DET_CLASSES.iter().enumerate() {
        cases.push(Case { side: "variant", class: c.to_string(), seed: ctx.seed.wrapping_mul(1000) + i as u64 });
    }
    // the scale family: large dictionaries, single records larger than a BGZF block, more records than a CRAM container holds
    for (i, c) in aln::SCALE_QUICK.iter().chain(if ctx.quick() { [].iter() } else { aln::SCALE_THOROUGH.iter() }).enumerate() {
        cases.push(Case { side: "alignment", class: c.to_string(), seed: ctx.seed.wrapping_mul(1000) + 700 + i as u64 });
    }
    for (i, c) in var::SCALE_QUICK.iter().chain(if ctx.quick() { [].iter() } else { var::SCALE_THOROUGH.iter() }).enumerate() {
        cases.push(Case { side: "variant", class: c.to_string(), seed: ctx.seed.wrapping_mul(1000) + 700 + i as u64 });
    }
    // two more multi-block sets per side (three with the one above): the only sets in which values straddle
    // BGZF block boundaries, which is where a short write of a *.gz / BGZF target loses bytes
    for k in 1..=2u64 {
        cases.push(Case { side: "alignment", class: "multi-block".into(), seed: ctx.seed.wrapping_mul(1000) + 500 + k });
        cases.push(Case { side: "variant", class: "multi-block".into(), seed: ctx.seed.wrapping_mul(1000) + 500 + k });
    }
    // seeded random part
    let n = ctx.budget("sets", 12, 480);
    let mut rng = Rng::new(ctx.seed, 0xC20, 0);
    for i in 0..n {
        // the multi-block classes are the expensive ones: keep them rare
        let pick = |rng: &mut Rng, classes: &[&str]| -> String {
            loop {
                let c = *rng.pick(classes);
                if c != "multi-block" || rng.chance(1, 6) {
                    return c.to_string();
                }
            }
        };
        cases.push(Case { side: "alignment", class: pick(&mut rng, aln::RANDOM_CLASSES), seed: ctx.seed.wrapping_mul(7919).wrapping_add(i) });
        cases.push(Case { side: "variant", class: pick(&mut rng, var::RANDOM_CLASSES), seed: ctx.seed.wrapping_mul(104729).wrapping_add(i) });
    }
    cases
}

fn run_case(ctx: &Ctx, idx: u64, c: &Case) -> CaseOut {
    let built: Result<Box<dyn Driver>, String> = if c.side == "alignment" {
        AlnDriver::new(aln::make_set(&c.class, c.seed)).map(|d| Box::new(d) as Box<dyn Driver>)
    } else {
        VarDriver::new(var::make_set(&c.class, c.seed)).map(|d| Box::new(d) as Box<dyn Driver>)
    };
    match built {
        Ok(d) => {
            let mut o = run_set(d.as_ref(), ctx, idx, c.seed);
            o.fp = fnv1a(format!("set|{}|{}", c.side, c.class).as_bytes());
            if idx % 5 == 0 {
                o.sample = Some(json!({"case": case_json(c), "records": d.expected().lines.len(), "first_record": d.expected().lines.first()}));
            }
            o
        }
        Err(e) => {
            // a generator problem is never a verdict about noodles
            let mut o = CaseOut::new();
            o.evaluations = 0;
            o.inconclusive.push(e);
            o
        }
    }
}

/// Debug aid (`bisect=<side>:<class>:<seed>:<fmt index>`): writes every record of a set on its own
/// and prints the ones that do not read back.
fn bisect(spec: &str) {
    let p: Vec<&str> = spec.split(':').collect();
    let (side, class, seed, f) = (p[0], p[1], p[2].parse::<u64>().unwrap(), p[3].parse::<usize>().unwrap());
    let tgt: Option<usize> = p.get(4).map(|t| t.parse().unwrap());
    if side == "variant" {
        let set = var::make_set(class, seed);
        for (i, r) in set.recs.iter().enumerate() {
            let mut one = set.clone();
            one.recs = vec![r.clone()];
            let d = VarDriver::new(one).unwrap();
            let res = guard::catch(|| {
                let b = d.write(f)?;
                let b = match tgt {
                    Some(t) => d.convert(&b, t)?,
                    None => b,
                };
                d.read_generic(&mut &b[..])
            });
            let bad = match &res {
                Ok(Ok(rb)) => rb.lines != d.exp.lines,
                _ => true,
            };
            if bad {
                println!("record #{i}: expected {:?}\n   got {:?}", d.exp.lines, res.map_err(|p| p.message));
            }
        }
    } else {
        let set = aln::make_set(class, seed);
        for (i, r) in set.recs.iter().enumerate() {
            let mut one = set.clone();
            one.recs = vec![r.clone()];
            let d = AlnDriver::new(one).unwrap();
            let res = guard::catch(|| {
                let b = d.write(f)?;
                let b = match tgt {
                    Some(t) => d.convert(&b, t)?,
                    None => b,
                };
                d.read_generic(&mut &b[..])
            });
            let bad = match &res {
                Ok(Ok(rb)) => rb.lines != d.exp.lines,
                _ => true,
            };
            if bad {
                println!("record #{i}: expected {:?}\n   got {:?}", d.exp.lines, res.map_err(|p| p.message));
            }
        }
    }
}

fn main() {
    let ctx = Ctx::from_args();
    if let Some(spec) = ctx.param("bisect") {
        bisect(spec);
        return;
    }
    let ctx = vcore::cases::replay_request(&ctx).map(|r| r.1).unwrap_or(ctx);
    let mut rep = Report::new(
        "case = one generated record set (side alignment/variant, class, seed) restricted to the common data model; per set every \
         (format, compression) pair of the noodles-util writer builders {SAM, SAM.gz, BAM, raw BAM, CRAM} / {VCF, VCF.gz, BCF, raw BCF} is \
         written by the generic writer, checked for shape, read back by the autodetecting generic reader (slice and 13 [quick] / 17 [thorough] scripted \
         first-read windows), by the reader of the intended format and through read_record; then all ordered (source, target) pairs are \
         converted generic reader -> generic writer and read back. evaluations = detection runs + conversion pairs; distinct = distinct \
         (side, set class, format, window script) and (side, set class, source, target); non-trivial = all (every run writes and reads a file)",
    );
    rep.assumptions.push(
        "expected records are the generator's own descriptions rendered at the SAM / VCF data-model level (aux and INFO/FORMAT as key->typed value maps, \
         integers by value, floats by f32 bits, RNAME/RNEXT by name through the header read from the same stream, first GT allele phasing ignored); \
         headers are compared only on what records are interpreted against (reference dictionary names+lengths; contig and sample names)"
            .into(),
    );
    rep.assumptions.push(
        "common model, alignment: read names unique per template (single reads, and same-name templates of two primary mapped segments whose mate fields are \
         mutually consistent, stale in one direction only, or stale in both: PNEXT, RNEXT, mate-reverse / mate-unmapped bits, TLEN magnitude / sign / zero; adjacent \
         or separated by other reads; every target, CRAM included, must return the mate fields exactly as written - CRAM carries them explicitly on detached \
         records and may attach mates only when recomputation restores them), upper-case ACGTN bases, qualities present (a lone quality 9 = text '*' avoided), CIGAR over M/I/D/N/S with \
         reads inside their reference, unmapped reads without MAPQ (CRAM has no MQ for them), CRAM given the generated reference sequences through \
         set_reference_sequence_repository; variant: every FILTER/INFO/FORMAT/contig defined in the header, values BCF can represent; values the noodles BCF \
         writer rejects with an explicit error are not generated (missing per-sample String / Float-array values, a missing GT value)"
            .into(),
    );
    rep.assumptions.push(
        "classes witness-* are minimal deterministic sets for one shape each; everything such a set trips is reported under the single signature \
         <side>-witness[<shape>]. All of them are by now regression sets of repaired defects (headerless SAM whose first QNAME starts with CRAM, placed unmapped \
         read overhanging its reference end, GT of mixed ploidy, phased missing allele, vector missing in all samples, INFO key with missing value, per-sample \
         vectors of unequal length, a sample column that is '.'); except for the CRAM-named first read their shapes are part of the random model. Deterministic adversarial sets: headerless SAM / SAM.gz whose first QNAME is or starts with a magic prefix (BAM, BAM_0001, \
         BAMBI.7, BA, B, BCF, BCF_1, CRA, CRA_M, C) under the ordinary signatures; three multi-block sets per side (>= 300 KiB of text, >= 5 BGZF data blocks \
         in SAM.gz/BAM/VCF.gz/BCF, long names / SEQ+QUAL / Z, H, B aux / INFO and FORMAT strings and lists / IDs / alleles) so that every kind of value \
         straddles block boundaries of the BGZF targets"
            .into(),
    );
    rep.assumptions.push(
        "floats (aux f and B:f; QUAL, INFO and FORMAT Float) range over the full finite f32 bit-pattern space (7/8/9-digit values, powers of two +- ulp, MIN/MAX/ \
         MIN_POSITIVE, subnormals, -0.0) and are compared bit for bit after every write and conversion; the canonical NaN and the infinities are included where \
         every format carries them (B:f entries, INFO/FORMAT Float) and excluded from scalar aux f, which the SAM writer rejects explicitly (\"invalid float\"). \
         build_from_path (no set_format): 27 + 22 file names with extra dots, format words elsewhere in the name, dots in directory names; the last extension \
         decides; pinned from the unchanged tree: no / unknown / upper-case extension = default format (SAM / VCF), BGZF iff the last extension is gz, bgz, bam or bcf"
            .into(),
    );
    rep.assumptions.push(
        "scale family (deterministic, classes scale-*; three window scripts only): alignment 10 241 / 20 481 (thorough also 25 000) minimal records = more than \
         one CRAM container and several BGZF blocks; single records of 70 000 / 150 000 (thorough 300 000) bases, mapped with a long CIGAR and unmapped, and a \
         100 kB Z tag between small records; variant dictionaries of 130 / 260 (thorough 32 770) extra FILTERs plus extra INFO/FORMAT keys used in windows around \
         dictionary positions 128 / 256 / 32 768, records with a 70 kB / 140 kB INFO String and a 100 kB ALT, 3000 samples with GT:DP:AD:PL:XT; all through every \
         pair, read_record into one reused record, records(), and the whole conversion matrix"
            .into(),
    );
    rep.assumptions.push(
        "variant strings (IDs, INFO String / String list / Character, FORMAT String) mix 2-, 3- and 4-byte code points in one word out of three; the deterministic \
         set non-ascii-text adds non-ASCII sample names and a non-ASCII FILTER id (contig names stay ASCII: the VCF writer rejects others). Scale classes \
         scale-long-cigar-{seq-qual,seq-noqual,noseq-noqual}: mapped records with 65535 / 65536 / 70000 CIGAR operations between small ones; established on \
         the unchanged tree: all five formats carry them, except that the CRAM writer panics on a mapped record without bases (C07: observed, not judged; \
         counted in writer_panicked_sets_not_judged). A CG:B:I field on a record with more than 65535 operations read through the lazy bam::Record is the \
         known C05 finding lazy-ne-eager:data-retains-CG-of-long-cigar / C06 sam-bam-sam:extra-CG-field-of-long-cigar: it is dropped before comparing and counted \
         (cg_carrier_fields_attributed_to_known_C05_C06_finding), never raised under a C20 signature"
            .into(),
    );
    rep.assumptions.push(
        "build_from_reader wraps the source in its own 8 KiB BufReader, so an outer BufReader of small capacity is bypassed; short first windows are produced \
         with vcore::adv::ChunkedRead scripts at the Read level (no Interrupted injections: C12's business); the async and indexed generic readers are not driven"
            .into(),
    );
    let cases = gen_cases(&ctx);
    let f = |i: u64| -> CaseOut { run_case(&ctx, i, &cases[i as usize]) };
    run_cases(&ctx, &mut rep, cases.len() as u64, 120.0, &f, &|i| case_json(&cases[i as usize]));
    if ctx.replay.is_none() {
        let counters = rep.counters.clone();
        let c = |k: &str| counters.get(k).copied().unwrap_or(0);
        rep.floor("conversion_pairs", c("conversion_pairs"), ctx.budget("floor_pairs", 250, 8000));
        rep.floor("conversions_ok", c("conversions_ok"), ctx.budget("floor_pairs_ok", 200, 7000));
        rep.floor("detection_runs", c("detection_runs"), 500);
        rep.floor("records_compared", c("records_compared"), 5000);
        for f in aln::AFMTS {
            rep.floor(&format!("files_written[alignment/{}]", f.name()), c(&format!("files_written[alignment/{}]", f.name())), 10);
            rep.floor(&format!("detected_ok[alignment/{}]", f.name()), c(&format!("detected_ok[alignment/{}]", f.name())), 8);
        }
        for f in var::VFMTS {
            rep.floor(&format!("files_written[variant/{}]", f.name()), c(&format!("files_written[variant/{}]", f.name())), 10);
            rep.floor(&format!("detected_ok[variant/{}]", f.name()), c(&format!("detected_ok[variant/{}]", f.name())), 8);
        }
        rep.floor("record_variant_observations", c("record_variant_observations"), 50);
        rep.floor("path_runs", c("path_runs"), 300);
        for cl in aln::SCALE_QUICK.iter().chain(if ctx.quick() { [].iter() } else { aln::SCALE_THOROUGH.iter() }) {
            rep.floor(&format!("scale_sets_read_back_in_every_format[alignment/{cl}]"), c(&format!("scale_sets_read_back_in_every_format[alignment/{cl}]")), 1);
        }
        for cl in var::SCALE_QUICK.iter().chain(if ctx.quick() { [].iter() } else { var::SCALE_THOROUGH.iter() }) {
            rep.floor(&format!("scale_sets_read_back_in_every_format[variant/{cl}]"), c(&format!("scale_sets_read_back_in_every_format[variant/{cl}]")), 1);
        }
        for (rel, _) in aln::PATH_CASES {
            rep.floor(&format!("path_names[alignment/{rel}]"), c(&format!("path_names[alignment/{rel}]")), 5);
        }
        for (rel, _) in var::PATH_CASES {
            rep.floor(&format!("path_names[variant/{rel}]"), c(&format!("path_names[variant/{rel}]")), 5);
        }
        // values whose shortest decimal needs >= 7 significant digits went through the text formats
        for k in ["sam/scalar-f", "sam.gz/scalar-f", "sam/B:f", "cram/scalar-f", "bam/scalar-f"] {
            rep.floor(&format!("floats_needing_ge_7_digits_read_back[{k}]"), c(&format!("floats_needing_ge_7_digits_read_back[{k}]")), 40);
        }
        for k in ["vcf/QUAL", "vcf/INFO", "vcf/FORMAT", "vcf.gz/INFO", "bcf/INFO", "bcf/FORMAT"] {
            rep.floor(&format!("floats_needing_ge_7_digits_read_back[{k}]"), c(&format!("floats_needing_ge_7_digits_read_back[{k}]")), 40);
        }
        // same-name templates whose mate fields are consistent / stale in one direction / stale in both went
        // through CRAM (where attaching mates could rewrite them)
        for k in ["consistent", "stale-first-only", "stale-second-only", "stale-both"] {
            rep.floor(&format!("same_name_templates_read_back[cram/{k}]"), c(&format!("same_name_templates_read_back[cram/{k}]")), 16);
        }
        // the multi-block sets did produce multi-block text targets (the field writers of SAM and VCF write
        // straight into the BGZF writer)
        rep.floor("files_with_ge_5_bgzf_data_blocks[alignment/sam.gz]", c("files_with_ge_5_bgzf_data_blocks[alignment/sam.gz]"), 3);
        rep.floor("files_with_ge_5_bgzf_data_blocks[variant/vcf.gz]", c("files_with_ge_5_bgzf_data_blocks[variant/vcf.gz]"), 3);
    }
    rep.finish(&ctx);
}
