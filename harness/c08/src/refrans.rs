//! Independent rANS decoders written from the CRAM codecs specification ("CRAMcodecs", §2 rANS 4x8
//! and §3 rANS Nx16), following its pseudocode (ReadFrequencies0/1, ReadAlphabet, RansGetCumulativeFreq,
//! RansGetSymbolFromFreq, RansAdvanceStep, RansRenorm, DecodePackMeta/DecodePack, DecodeRLEMeta/DecodeRLE,
//! DecodeStripe). Deliberately dumb (linear symbol search, no lookup tables) and strict (running off the
//! end of the input is an error). Nothing in here was derived from noodles' decoder.

use crate::refnum;

pub type R<T> = Result<T, String>;

struct In<'a> {
    b: &'a [u8],
    p: usize,
    /// read noodles' known deviations from the specification instead of the specification
    dialect: bool,
    /// which deviations were actually met while reading in dialect mode
    used: Vec<&'static str>,
}

impl<'a> In<'a> {
    fn new(b: &'a [u8]) -> Self {
        In { b, p: 0, dialect: false, used: Vec::new() }
    }
    /// A reader over another buffer that inherits the dialect switch.
    fn sub<'b>(&self, b: &'b [u8]) -> In<'b> {
        In { b, p: 0, dialect: self.dialect, used: Vec::new() }
    }
    fn absorb(&mut self, other: In) {
        for u in other.used {
            self.note(u);
        }
    }
    fn note(&mut self, what: &'static str) {
        if !self.used.contains(&what) {
            self.used.push(what);
        }
    }
    fn u8(&mut self) -> R<u8> {
        let v = *self.b.get(self.p).ok_or("truncated:u8")?;
        self.p += 1;
        Ok(v)
    }
    fn u16le(&mut self) -> R<u32> {
        let lo = self.u8().map_err(|_| "truncated:renorm-u16")? as u32;
        let hi = self.u8().map_err(|_| "truncated:renorm-u16")? as u32;
        Ok(lo | hi << 8)
    }
    fn u32le(&mut self) -> R<u32> {
        let mut v = 0u32;
        for i in 0..4 {
            v |= (self.u8().map_err(|_| "truncated:u32")? as u32) << (8 * i);
        }
        Ok(v)
    }
    fn itf8(&mut self) -> R<u32> {
        let (v, n) = refnum::itf8_decode(&self.b[self.p..]).ok_or("truncated:itf8")?;
        self.p += n;
        Ok(v as u32)
    }
    fn uint7(&mut self) -> R<u32> {
        let (v, n) = refnum::uint7_decode(&self.b[self.p..]).ok_or("truncated:uint7")?;
        self.p += n;
        Ok(v)
    }
    fn take(&mut self, n: usize) -> R<&'a [u8]> {
        if self.b.len() - self.p < n {
            return Err("truncated:data".into());
        }
        let s = &self.b[self.p..self.p + n];
        self.p += n;
        Ok(s)
    }
    fn left(&self) -> usize {
        self.b.len() - self.p
    }
}

/// One frequency table: F[s], C[s] (cumulative, C[s] = sum of F[0..s]).
#[derive(Clone)]
struct Table {
    f: [u32; 256],
    c: [u32; 256],
    total: u32,
}

impl Table {
    fn empty() -> Self {
        Table { f: [0; 256], c: [0; 256], total: 0 }
    }
    fn cumulate(&mut self) {
        let mut x = 0u32;
        for s in 0..256 {
            self.c[s] = x;
            x = x.saturating_add(self.f[s]);
        }
        self.total = x;
    }
    /// RansGetSymbolFromFreq: the symbol s with C[s] <= f < C[s] + F[s].
    fn symbol(&self, f: u32) -> R<usize> {
        if f >= self.total {
            return Err("slot-beyond-frequency-total".into());
        }
        let mut s = 0usize;
        while !(self.f[s] > 0 && f < self.c[s].saturating_add(self.f[s])) {
            s += 1;
        }
        Ok(s)
    }
}

// ------------------------------------------------------------------------------------------------
// rANS 4x8 (CRAM 3.0)
// ------------------------------------------------------------------------------------------------

/// ReadFrequencies0 of rANS 4x8: symbol list with run-length shortcut, frequencies as ITF8.
fn read_freqs0_4x8(i: &mut In) -> R<Table> {
    if i.dialect {
        return read_freqs0_4x8_dialect(i);
    }
    let mut t = Table::empty();
    let mut sym = i.u8()? as usize;
    let mut last_sym = sym;
    let mut rle = 0u32;
    loop {
        let f = i.itf8()?;
        t.f[sym] = f;
        if rle > 0 {
            rle -= 1;
            sym += 1;
            if sym > 255 {
                return Err("freq-table:symbol-run-past-255".into());
            }
        } else {
            sym = i.u8()? as usize;
            if sym == last_sym + 1 {
                rle = i.u8()? as u32;
            }
        }
        last_sym = sym;
        if sym == 0 {
            break;
        }
    }
    t.cumulate();
    if t.total > 4096 {
        return Err("freq-table:total-gt-4096".into());
    }
    Ok(t)
}

/// The inverse of noodles' `rans_4x8::encode::order_0::write_frequencies` as it is (known defects:
/// a run-length byte after a *first* symbol 1, because "previous symbol" starts out as 0; a run
/// length of 0 instead of the real one when the run of consecutive symbols reaches 255; the
/// "previous symbol" is not advanced over a run of length 0). Used only to classify streams the
/// specification decoder cannot read.
fn read_symlist_dialect(i: &mut In, what: &'static str, mut item: impl FnMut(&mut In, usize) -> R<()>) -> R<()> {
    let mut present = [false; 256];
    let mut prev = 0usize;
    let mut sym = i.u8()? as usize;
    let mut first = true;
    loop {
        if sym > 0 && sym - 1 == prev {
            let len = i.u8()? as usize;
            if first {
                i.note(if what == "ctx" { "ctxlist-starts-at-1" } else { "symlist-starts-at-1" });
            }
            item(i, sym)?;
            present[sym] = true;
            for k in 1..=len {
                if sym + k > 255 {
                    return Err("freq-table:symbol-run-past-255".into());
                }
                item(i, sym + k)?;
                present[sym + k] = true;
                prev = sym + k;
            }
        } else {
            item(i, sym)?;
            present[sym] = true;
            prev = sym;
        }
        first = false;
        sym = i.u8()? as usize;
        if sym == 0 {
            break;
        }
    }
    if present[253] && present[254] && present[255] {
        i.note(if what == "ctx" { "ctxlist-run-to-255" } else { "symlist-run-to-255" });
    }
    Ok(())
}

fn read_freqs0_4x8_dialect(i: &mut In) -> R<Table> {
    let mut t = Table::empty();
    read_symlist_dialect(i, "sym", |i, s| {
        t.f[s] = i.itf8()?;
        Ok(())
    })?;
    t.cumulate();
    if t.total > 4096 {
        return Err("freq-table:total-gt-4096".into());
    }
    Ok(t)
}

fn renorm8(r: &mut u32, i: &mut In) -> R<()> {
    while *r < (1 << 23) {
        let b = i.u8().map_err(|_| "truncated:renorm-u8")?;
        *r = (*r << 8) | b as u32;
    }
    Ok(())
}

fn decode_4x8_o0(i: &mut In, len: usize) -> R<Vec<u8>> {
    let t = read_freqs0_4x8(i)?;
    let mut r = [0u32; 4];
    for x in &mut r {
        *x = i.u32le()?;
    }
    let mut out = vec![0u8; len];
    for k in 0..len {
        let j = k % 4;
        let f = r[j] & 0xFFF;
        let s = t.symbol(f)?;
        out[k] = s as u8;
        r[j] = t.f[s].wrapping_mul(r[j] >> 12).wrapping_add(f).wrapping_sub(t.c[s]);
        renorm8(&mut r[j], i)?;
    }
    Ok(out)
}

fn read_freqs1_4x8(i: &mut In) -> R<Vec<Option<Box<Table>>>> {
    let mut tabs: Vec<Option<Box<Table>>> = (0..256).map(|_| None).collect();
    if i.dialect {
        read_symlist_dialect(i, "ctx", |i, c| {
            tabs[c] = Some(Box::new(read_freqs0_4x8_dialect(i)?));
            Ok(())
        })?;
        return Ok(tabs);
    }
    let mut sym = i.u8()? as usize;
    let mut last_sym = sym;
    let mut rle = 0u32;
    loop {
        tabs[sym] = Some(Box::new(read_freqs0_4x8(i)?));
        if rle > 0 {
            rle -= 1;
            sym += 1;
            if sym > 255 {
                return Err("freq-table:context-run-past-255".into());
            }
        } else {
            sym = i.u8()? as usize;
            if sym == last_sym + 1 {
                rle = i.u8()? as u32;
            }
        }
        last_sym = sym;
        if sym == 0 {
            break;
        }
    }
    Ok(tabs)
}

fn decode_4x8_o1(i: &mut In, len: usize) -> R<Vec<u8>> {
    let tabs = read_freqs1_4x8(i)?;
    let mut r = [0u32; 4];
    for x in &mut r {
        *x = i.u32le()?;
    }
    let mut out = vec![0u8; len];
    let q = len / 4;
    let mut pos = [0usize, q, 2 * q, 3 * q];
    let mut last = [0usize; 4];
    let mut step = |j: usize, r: &mut [u32; 4], pos: &mut [usize; 4], last: &mut [usize; 4], i: &mut In| -> R<()> {
        let t = tabs[last[j]].as_ref().ok_or("order1:context-without-table")?;
        let f = r[j] & 0xFFF;
        let s = t.symbol(f)?;
        out[pos[j]] = s as u8;
        r[j] = t.f[s].wrapping_mul(r[j] >> 12).wrapping_add(f).wrapping_sub(t.c[s]);
        renorm8(&mut r[j], i)?;
        last[j] = s;
        pos[j] += 1;
        Ok(())
    };
    while pos[0] < q {
        for j in 0..4 {
            step(j, &mut r, &mut pos, &mut last, i)?;
        }
    }
    while pos[3] < len {
        step(3, &mut r, &mut pos, &mut last, i)?;
    }
    Ok(out)
}

/// Decodes one rANS 4x8 block: 1 byte order, u32 LE compressed size (of what follows the 9-byte
/// header), u32 LE uncompressed size, then the order-0 / order-1 payload.
pub fn decode_4x8(src: &[u8]) -> R<Vec<u8>> {
    decode_4x8_with(src, false).map(|r| r.0)
}

/// The same with the symbol-list readers replaced by the inverse of noodles' writer; returns the
/// names of the deviations from the specification that the stream actually contains.
pub fn decode_4x8_dialect(src: &[u8]) -> R<(Vec<u8>, Vec<&'static str>)> {
    decode_4x8_with(src, true)
}

fn decode_4x8_with(src: &[u8], dialect: bool) -> R<(Vec<u8>, Vec<&'static str>)> {
    let mut i = In::new(src);
    i.dialect = dialect;
    let order = i.u8()?;
    let csize = i.u32le()? as usize;
    let usize_ = i.u32le()? as usize;
    if csize != i.left() {
        return Err("header:compressed-size-ne-payload-length".into());
    }
    if usize_ == 0 {
        return Ok((Vec::new(), Vec::new()));
    }
    let out = match order {
        0 => decode_4x8_o0(&mut i, usize_)?,
        1 => decode_4x8_o1(&mut i, usize_)?,
        _ => return Err("header:bad-order-byte".into()),
    };
    // (bytes left over after the last symbol are not an error: the specification does not say so)
    Ok((out, i.used))
}

// ------------------------------------------------------------------------------------------------
// rANS Nx16 (CRAM 3.1)
// ------------------------------------------------------------------------------------------------

pub const F_ORDER: u8 = 0x01;
pub const F_X32: u8 = 0x04;
pub const F_STRIPE: u8 = 0x08;
pub const F_NOSZ: u8 = 0x10;
pub const F_CAT: u8 = 0x20;
pub const F_RLE: u8 = 0x40;
pub const F_PACK: u8 = 0x80;

/// ReadAlphabet: symbol list where a symbol equal to its predecessor + 1 is followed by a count of
/// further consecutive symbols.
fn read_alphabet(i: &mut In) -> R<[bool; 256]> {
    if i.dialect {
        return read_alphabet_dialect(i);
    }
    let mut a = [false; 256];
    let mut sym = i.u8()? as usize;
    let mut last_sym = sym;
    let mut rle = 0u32;
    loop {
        a[sym] = true;
        if rle > 0 {
            rle -= 1;
            sym += 1;
            if sym > 255 {
                return Err("alphabet:symbol-run-past-255".into());
            }
        } else {
            sym = i.u8()? as usize;
            if sym == last_sym + 1 {
                rle = i.u8()? as u32;
            }
        }
        last_sym = sym;
        if sym == 0 {
            break;
        }
    }
    Ok(a)
}

/// The inverse of noodles' `rans_nx16::encode::write_alphabet` as it is: "previous symbol" starts
/// out as 0, so a *first* symbol 1 is followed by a run-length byte the specification does not have
/// there (known defect). Everything else that writer emits is readable by the specification reader.
fn read_alphabet_dialect(i: &mut In) -> R<[bool; 256]> {
    let mut a = [false; 256];
    let mut prev = 0usize;
    let mut sym = i.u8()? as usize;
    let mut first = true;
    loop {
        a[sym] = true;
        if sym > 0 && sym - 1 == prev {
            let len = i.u8()? as usize;
            if first {
                i.note("alphabet-starts-at-1");
            }
            for k in 1..=len {
                if sym + k > 255 {
                    return Err("alphabet:symbol-run-past-255".into());
                }
                a[sym + k] = true;
            }
        }
        prev = sym;
        first = false;
        sym = i.u8()? as usize;
        if sym == 0 {
            break;
        }
    }
    Ok(a)
}

/// NormaliseFrequencies*_Shift: scale a table whose total is a smaller power of two up to 1<<bits.
fn normalise_shift(t: &mut Table, bits: u32) -> R<()> {
    let mut tot: u32 = t.f.iter().fold(0u32, |a, &b| a.saturating_add(b));
    if tot == 0 || tot == 1 << bits {
        return Ok(());
    }
    if tot > 1 << bits {
        return Err("freq-table:total-gt-1<<bits".into());
    }
    let mut shift = 0;
    while tot < 1 << bits {
        tot *= 2;
        shift += 1;
    }
    for f in &mut t.f {
        *f <<= shift;
    }
    Ok(())
}

fn read_freqs0_nx16(i: &mut In) -> R<Table> {
    let a = read_alphabet(i)?;
    let mut t = Table::empty();
    for s in 0..256 {
        if a[s] {
            t.f[s] = i.uint7()?;
        }
    }
    normalise_shift(&mut t, 12)?;
    t.cumulate();
    if t.total > 4096 {
        return Err("freq-table:total-gt-4096".into());
    }
    Ok(t)
}

fn renorm16(r: &mut u32, i: &mut In) -> R<()> {
    if *r < (1 << 15) {
        let v = i.u16le()?;
        *r = (*r << 16) | v;
    }
    Ok(())
}

fn decode_nx16_o0(i: &mut In, len: usize, n: usize) -> R<Vec<u8>> {
    let t = read_freqs0_nx16(i)?;
    let mut r = vec![0u32; n];
    for x in &mut r {
        *x = i.u32le()?;
    }
    let mut out = vec![0u8; len];
    for k in 0..len {
        let j = k % n;
        let f = r[j] & 0xFFF;
        let s = t.symbol(f)?;
        out[k] = s as u8;
        r[j] = t.f[s].wrapping_mul(r[j] >> 12).wrapping_add(f).wrapping_sub(t.c[s]);
        renorm16(&mut r[j], i)?;
    }
    Ok(out)
}

fn read_freqs1_nx16(i: &mut In) -> R<(Vec<Option<Box<Table>>>, u32)> {
    let comp = i.u8()?;
    let shift = (comp >> 4) as u32;
    if shift == 0 || shift > 12 {
        return Err("order1:bad-shift".into());
    }
    if comp & 1 != 0 {
        let usz = i.uint7()? as usize;
        let csz = i.uint7()? as usize;
        let cdata = i.take(csz)?;
        let mut ci = i.sub(cdata);
        let owned = decode_nx16_o0(&mut ci, usz, 4)?;
        i.absorb(ci);
        let mut sub = i.sub(&owned);
        let t = read_tables1_nx16(&mut sub, shift)?;
        i.absorb(sub);
        Ok((t, shift))
    } else {
        Ok((read_tables1_nx16(i, shift)?, shift))
    }
}

fn read_tables1_nx16(src: &mut In, shift: u32) -> R<Vec<Option<Box<Table>>>> {
    let a = read_alphabet(src)?;
    let mut tabs: Vec<Option<Box<Table>>> = (0..256).map(|_| None).collect();
    for c in 0..256 {
        if !a[c] {
            continue;
        }
        let mut t = Table::empty();
        let mut run = 0u32;
        for s in 0..256 {
            if !a[s] {
                continue;
            }
            if run > 0 {
                run -= 1;
            } else {
                t.f[s] = src.uint7()?;
                if t.f[s] == 0 {
                    run = src.u8()? as u32;
                }
            }
        }
        normalise_shift(&mut t, shift)?;
        t.cumulate();
        tabs[c] = Some(Box::new(t));
    }
    Ok(tabs)
}

fn decode_nx16_o1(i: &mut In, len: usize, n: usize) -> R<Vec<u8>> {
    let (tabs, shift) = read_freqs1_nx16(i)?;
    let mask = (1u32 << shift) - 1;
    let mut r = vec![0u32; n];
    for x in &mut r {
        *x = i.u32le()?;
    }
    let mut out = vec![0u8; len];
    let q = len / n;
    let mut pos: Vec<usize> = (0..n).map(|j| j * q).collect();
    let mut last = vec![0usize; n];
    let mut step = |j: usize, r: &mut [u32], pos: &mut [usize], last: &mut [usize], i: &mut In| -> R<()> {
        let t = tabs[last[j]].as_ref().ok_or("order1:context-without-table")?;
        let f = r[j] & mask;
        let s = t.symbol(f)?;
        out[pos[j]] = s as u8;
        r[j] = t.f[s].wrapping_mul(r[j] >> shift).wrapping_add(f).wrapping_sub(t.c[s]);
        renorm16(&mut r[j], i)?;
        last[j] = s;
        pos[j] += 1;
        Ok(())
    };
    if i.dialect {
        // noodles' encoder as it is (known defect): after the first symbol of every chunk, each state
        // codes its whole chunk in one go instead of taking turns symbol by symbol
        if q >= 2 {
            i.note("order1-chunks-not-interleaved");
        }
        if q >= 1 {
            for j in 0..n {
                step(j, &mut r, &mut pos, &mut last, i)?;
            }
            for j in 0..n {
                for _ in 1..q {
                    step(j, &mut r, &mut pos, &mut last, i)?;
                }
            }
        }
    } else {
        for _ in 0..q {
            for j in 0..n {
                step(j, &mut r, &mut pos, &mut last, i)?;
            }
        }
    }
    while pos[n - 1] < len {
        step(n - 1, &mut r, &mut pos, &mut last, i)?;
    }
    Ok(out)
}

struct PackMeta {
    map: Vec<u8>,
}

fn decode_pack_meta(i: &mut In) -> R<(PackMeta, usize)> {
    let nsym = i.u8()? as usize;
    let map = i.take(nsym)?.to_vec();
    let len = i.uint7()? as usize;
    Ok((PackMeta { map }, len))
}

fn decode_pack(data: &[u8], m: &PackMeta, len: usize) -> R<Vec<u8>> {
    let nsym = m.map.len();
    if nsym == 0 || nsym > 16 {
        return Err("pack:nsym-out-of-range".into());
    }
    let mut out = Vec::with_capacity(len);
    if nsym == 1 {
        out.resize(len, m.map[0]);
        return Ok(out);
    }
    let (per, bits) = if nsym == 2 {
        (8usize, 1u32)
    } else if nsym <= 4 {
        (4, 2)
    } else {
        (2, 4)
    };
    let mut j = 0usize;
    let mut v = 0u32;
    for k in 0..len {
        if k % per == 0 {
            v = *data.get(j).ok_or("pack:packed-data-too-short")? as u32;
            j += 1;
        }
        let x = (v & ((1 << bits) - 1)) as usize;
        out.push(*m.map.get(x).ok_or("pack:code-beyond-map")?);
        v >>= bits;
    }
    Ok(out)
}

struct RleMeta {
    is_run_symbol: [bool; 256],
    /// the run-length part of the meta data (after the symbol list)
    lens: Vec<u8>,
}

fn decode_rle_meta(i: &mut In) -> R<(RleMeta, usize)> {
    let meta_len = i.uint7()? as usize;
    let lit_len = i.uint7()? as usize;
    let meta: Vec<u8> = if meta_len & 1 != 0 {
        i.take(meta_len / 2)?.to_vec()
    } else {
        let clen = i.uint7()? as usize;
        let c = i.take(clen)?;
        let mut ci = i.sub(c);
        let m = decode_nx16_o0(&mut ci, meta_len / 2, 4)?;
        i.absorb(ci);
        m
    };
    let mut m = In::new(&meta);
    let mut nsym = m.u8()? as usize;
    if nsym == 0 {
        nsym = 256;
    }
    let mut l = [false; 256];
    for _ in 0..nsym {
        l[m.u8()? as usize] = true;
    }
    let lens = meta[m.p..].to_vec();
    Ok((RleMeta { is_run_symbol: l, lens }, lit_len))
}

fn decode_rle(lits: &[u8], m: &RleMeta, len: usize) -> R<Vec<u8>> {
    let mut out = Vec::with_capacity(len);
    let mut li = In::new(&m.lens);
    let mut k = 0usize;
    while out.len() < len {
        let s = *lits.get(k).ok_or("rle:literals-exhausted")?;
        k += 1;
        if m.is_run_symbol[s as usize] {
            let run = li.uint7().map_err(|_| "rle:run-lengths-exhausted")? as usize;
            if out.len() + run + 1 > len {
                return Err("rle:run-exceeds-output-length".into());
            }
            for _ in 0..=run {
                out.push(s);
            }
        } else {
            out.push(s);
        }
    }
    if k != lits.len() {
        return Err("rle:unused-literals".into());
    }
    Ok(out)
}

fn decode_stripe(i: &mut In, len: usize, depth: u32) -> R<Vec<u8>> {
    let x = i.u8()? as usize;
    if x == 0 {
        return Err("stripe:zero-streams".into());
    }
    let mut clens = Vec::with_capacity(x);
    for _ in 0..x {
        clens.push(i.uint7()? as usize);
    }
    let mut subs = Vec::with_capacity(x);
    for j in 0..x {
        let ulen = len / x + usize::from(len % x > j);
        let c = i.take(clens[j])?;
        let (t, used, notes) = decode_nx16_inner(c, ulen, depth + 1, i.dialect)?;
        let _ = used;
        for u in notes {
            i.note(u);
        }
        subs.push(t);
    }
    let mut out = vec![0u8; len];
    for j in 0..x {
        for (k, &b) in subs[j].iter().enumerate() {
            out[k * x + j] = b;
        }
    }
    Ok(out)
}

/// Returns (data, bytes consumed, dialect deviations met).
fn decode_nx16_inner(src: &[u8], outer_len: usize, depth: u32, dialect: bool) -> R<(Vec<u8>, usize, Vec<&'static str>)> {
    if depth > 2 {
        return Err("stripe:nested-too-deep".into());
    }
    let mut i = In::new(src);
    i.dialect = dialect;
    let flags = i.u8()?;
    let mut len = if flags & F_NOSZ == 0 { i.uint7()? as usize } else { outer_len };
    let n = if flags & F_X32 != 0 { 32 } else { 4 };
    if flags & F_STRIPE != 0 {
        let out = decode_stripe(&mut i, len, depth)?;
        return Ok((out, i.p, i.used));
    }
    let mut pack = None;
    if flags & F_PACK != 0 {
        let pack_len = len;
        let (m, l) = decode_pack_meta(&mut i)?;
        len = l;
        pack = Some((m, pack_len));
    }
    let mut rle = None;
    if flags & F_RLE != 0 {
        let rle_len = len;
        let (m, l) = decode_rle_meta(&mut i)?;
        len = l;
        rle = Some((m, rle_len));
    }
    let mut data = if flags & F_CAT != 0 {
        i.take(len)?.to_vec()
    } else if len == 0 {
        Vec::new()
    } else if flags & F_ORDER != 0 {
        decode_nx16_o1(&mut i, len, n)?
    } else {
        decode_nx16_o0(&mut i, len, n)?
    };
    if let Some((m, l)) = rle {
        data = decode_rle(&data, &m, l)?;
    }
    if let Some((m, l)) = pack {
        data = decode_pack(&data, &m, l)?;
    }
    Ok((data, i.p, i.used))
}

/// Decodes a complete rANS Nx16 stream. `len` is the uncompressed size known from the block header
/// (used when the stream carries NO_SIZE, and checked against the result); `None` = the stream
/// carries its own size (name tokenizer sub-streams).
pub fn decode_nx16(src: &[u8], len: Option<usize>) -> R<Vec<u8>> {
    decode_nx16_with(src, len, false).map(|r| r.0)
}

/// The same reading noodles' known deviations from the specification; returns which ones were met.
pub fn decode_nx16_dialect(src: &[u8], len: Option<usize>) -> R<(Vec<u8>, Vec<&'static str>)> {
    decode_nx16_with(src, len, true)
}

fn decode_nx16_with(src: &[u8], len: Option<usize>, dialect: bool) -> R<(Vec<u8>, Vec<&'static str>)> {
    let (out, used, notes) = decode_nx16_inner(src, len.unwrap_or(0), 0, dialect)?;
    if let Some(len) = len {
        if out.len() != len {
            return Err("decoded-length-ne-block-length".into());
        }
    }
    // (bytes left over after the last symbol are not an error: the specification does not say so, and
    // the reference test vector for STRIPE carries 28 of them)
    let _ = used;
    Ok((out, notes))
}

// ------------------------------------------------------------------------------------------------
// known-answer self check
// ------------------------------------------------------------------------------------------------

/// Streams that were NOT produced by noodles' encoder (the decode test vectors of the noodles test
/// suite, which come from the reference implementation: un-normalised frequency tables that need the
/// power-of-two shift, a 10-bit order-1 table, run-length meta data that is itself rANS compressed,
/// striped sub-streams that carry their own size, a 4x8 order-1 table normalised to 4096). The
/// independent decoders must decode every one of them; the monitor refuses to give a verdict otherwise.
const KNOWN_ANSWERS: &[(&str, &[u8], &[u8])] = &[
    (
        "nx16:test_decode_order_0",
        &[
            0x00, 0x07, 0x64, 0x65, 0x00, 0x6c, 0x6e, 0x6f, 0x00, 0x73, 0x00, 0x01, 0x01, 0x01, 0x01, 0x03, 0x01, 0x00, 0x26, 0x20,
            0x00, 0x00, 0xb8, 0x0a, 0x00, 0x00, 0xd8, 0x0a, 0x00, 0x00, 0x00, 0x04, 0x00,
        ],
        b"noodles",
    ),
    (
        "nx16:test_decode_order_1",
        &[
            0x01, 0x4d, 0xa0, 0x00, 0x64, 0x65, 0x00, 0x6c, 0x6e, 0x6f, 0x00, 0x73, 0x00, 0x00, 0x00, 0x01, 0x01, 0x00, 0x00, 0x01,
            0x01, 0x00, 0x00, 0x00, 0x00, 0x0f, 0x00, 0x00, 0x01, 0x00, 0x02, 0x00, 0x01, 0x0f, 0x00, 0x02, 0x01, 0x00, 0x01, 0x01,
            0x0f, 0x00, 0x02, 0x00, 0x03, 0x0f, 0x01, 0x00, 0x00, 0x00, 0x00, 0x01, 0x00, 0x02, 0x0f, 0x00, 0x00, 0x00, 0x05, 0x10,
            0x80, 0x72, 0x60, 0x00, 0x80, 0x8b, 0x5f, 0x00, 0xc0, 0xb0, 0x60, 0x00, 0x40, 0x49, 0x39, 0x00,
        ],
        b"nnnnnnnnnnnnooooooooooooooooddddddddddddddllllllllllllllleeeeeeeeeessssssssss",
    ),
    (
        "nx16:test_decode_stripe",
        &[
            0x08, 0x07, 0x04, 0x17, 0x17, 0x17, 0x15, 0x00, 0x02, 0x6c, 0x6e, 0x00, 0x01, 0x01, 0x00, 0x08, 0x01, 0x00, 0x00, 0x00,
            0x01, 0x00, 0x00, 0x80, 0x00, 0x00, 0x00, 0x80, 0x00, 0x00, 0x00, 0x02, 0x65, 0x6f, 0x00, 0x01, 0x01, 0x00, 0x08, 0x01,
            0x00, 0x00, 0x00, 0x01, 0x00, 0x00, 0x80, 0x00, 0x00, 0x00, 0x80, 0x00, 0x00, 0x00, 0x02, 0x6f, 0x73, 0x00, 0x01, 0x01,
            0x00, 0x00, 0x01, 0x00, 0x00, 0x08, 0x01, 0x00, 0x00, 0x80, 0x00, 0x00, 0x00, 0x80, 0x00, 0x00, 0x00, 0x01, 0x64, 0x00,
            0x01, 0x00, 0x80, 0x00, 0x00, 0x00, 0x80, 0x00, 0x00, 0x00, 0x80, 0x00, 0x00, 0x00, 0x80, 0x00, 0x00, 0x00, 0x02, 0x00,
            0x00, 0x00, 0x00, 0x00, 0x00, 0x00, 0x22, 0x00, 0x81, 0x11, 0x01, 0x7f, 0x00,
        ],
        b"noodles",
    ),
    (
        "nx16:test_decode_uncompressed",
        &[
            0x20, 0x07, 0x6e, 0x6f, 0x6f, 0x64, 0x6c, 0x65, 0x73,
        ],
        b"noodles",
    ),
    (
        "nx16:test_decode_rle",
        &[
            0x40, 0x0d, 0x06, 0x06, 0x17, 0x01, 0x07, 0x6f, 0x00, 0x02, 0x01, 0x01, 0x00, 0x00, 0x01, 0x00, 0x00, 0x0c, 0x02, 0x00,
            0x00, 0x08, 0x02, 0x00, 0x00, 0x80, 0x00, 0x00, 0x64, 0x65, 0x00, 0x6c, 0x6e, 0x6f, 0x00, 0x73, 0x00, 0x03, 0x01, 0x01,
            0x01, 0x01, 0x01, 0x00, 0x3a, 0x20, 0x00, 0x00, 0x7c, 0x20, 0x00, 0x00, 0x52, 0x01, 0x00, 0x00, 0x08, 0x04, 0x00,
        ],
        b"noooooooodles",
    ),
    (
        "nx16:test_decode_bit_packing_with_6_symbols",
        &[
            0x80, 0x07, 0x06, 0x64, 0x65, 0x6c, 0x6e, 0x6f, 0x73, 0x04, 0x04, 0x05, 0x00, 0x12, 0x43, 0x00, 0x01, 0x01, 0x01, 0x01,
            0x00, 0x0c, 0x02, 0x00, 0x00, 0x00, 0x02, 0x00, 0x00, 0x08, 0x02, 0x00, 0x00, 0x04, 0x02, 0x00,
        ],
        b"noodles",
    ),
    (
        "r4x8:test_decode_with_order_0",
        &[
            0x00, 0x25, 0x00, 0x00, 0x00, 0x07, 0x00, 0x00, 0x00, 0x64, 0x82, 0x49, 0x65, 0x00, 0x82, 0x49, 0x6c, 0x82, 0x49, 0x6e,
            0x82, 0x49, 0x6f, 0x00, 0x84, 0x92, 0x73, 0x82, 0x49, 0x00, 0xe2, 0x06, 0x83, 0x18, 0x74, 0x7b, 0x41, 0x0c, 0x2b, 0xa9,
            0x41, 0x0c, 0x25, 0x31, 0x80, 0x03,
        ],
        b"noodles",
    ),
    (
        "r4x8:test_decode_with_order_1",
        &[
            0x01, 0x3b, 0x00, 0x00, 0x00, 0x07, 0x00, 0x00, 0x00, 0x00, 0x64, 0x84, 0x00, 0x6e, 0x84, 0x00, 0x6f, 0x00, 0x87, 0xff,
            0x00, 0x64, 0x6c, 0x8f, 0xff, 0x00, 0x65, 0x00, 0x73, 0x8f, 0xff, 0x00, 0x6c, 0x65, 0x8f, 0xff, 0x00, 0x6e, 0x6f, 0x8f,
            0xff, 0x00, 0x6f, 0x00, 0x64, 0x87, 0xff, 0x6f, 0x88, 0x00, 0x00, 0x00, 0x00, 0x04, 0x00, 0x02, 0x02, 0x28, 0x00, 0x01,
            0x02, 0x28, 0x00, 0x01, 0x02, 0x60, 0x00, 0x02,
        ],
        b"noodles",
    ),
];

pub fn self_check() -> Result<usize, String> {
    for (name, stream, expected) in KNOWN_ANSWERS {
        let got = if name.starts_with("nx16") { decode_nx16(stream, None) } else { decode_4x8(stream) };
        match got {
            Ok(d) if d == *expected => {}
            Ok(d) => return Err(format!("{name}: decoded {:?}, expected {:?}", String::from_utf8_lossy(&d), String::from_utf8_lossy(expected))),
            Err(e) => return Err(format!("{name}: {e}")),
        }
    }
    Ok(KNOWN_ANSWERS.len())
}

#[cfg(test)]
mod tests {
    #[test]
    fn known_answers() {
        assert_eq!(super::self_check(), Ok(8));
    }
}
