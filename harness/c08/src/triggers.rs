//! Trigger predicates of the *known* encoder defects (see /verif/findings/C08.known). They are
//! deterministic functions of the case (input bytes, effective flags, transform meta data read from
//! the emitted stream) and are used for one thing only: they become part of the violation
//! signature, so that a failure on an input that carries none of the known triggers is reported
//! under a different signature than the known findings and cannot hide behind them.
//!
//! A trigger says "this input reaches code that is known to be wrong", not "this input must fail".

use crate::refnum;

fn alphabet(data: &[u8]) -> [bool; 256] {
    let mut a = [false; 256];
    for &b in data {
        a[b as usize] = true;
    }
    a
}

fn first_is_1(a: &[bool; 256]) -> bool {
    !a[0] && a[1]
}

/// The maximal run of present symbols that ends at 255 has at least three members.
fn run_of_3_to_255(a: &[bool; 256]) -> bool {
    a[255] && a[254] && a[253]
}

fn push(v: &mut Vec<&'static str>, t: &'static str) {
    if !v.contains(&t) {
        v.push(t);
    }
}

/// rANS 4x8: triggers of the symbol-list writer (`write_frequencies`) and of the empty input.
pub fn r4x8(order1: bool, data: &[u8]) -> Vec<&'static str> {
    let mut t = Vec::new();
    if data.is_empty() {
        push(&mut t, "empty-input");
        return t;
    }
    if !order1 {
        let a = alphabet(data);
        if first_is_1(&a) {
            push(&mut t, "symlist-starts-at-1");
        }
        if run_of_3_to_255(&a) {
            push(&mut t, "symlist-run-to-255");
        }
    } else {
        // rows: context c -> set of symbols that follow c (every adjacent pair of the whole input is
        // counted by the encoder, plus context 0 -> first byte of each of the four quarters)
        let mut rows = vec![[false; 256]; 256];
        let mut ctxs = [false; 256];
        let q = data.len() / 4;
        if q > 0 {
            for j in 0..4 {
                rows[0][data[j * q] as usize] = true;
            }
            ctxs[0] = true;
        }
        for w in data.windows(2) {
            rows[w[0] as usize][w[1] as usize] = true;
            ctxs[w[0] as usize] = true;
        }
        if run_of_3_to_255(&ctxs) {
            push(&mut t, "ctxlist-run-to-255");
        }
        for c in 0..256 {
            if ctxs[c] {
                if first_is_1(&rows[c]) {
                    push(&mut t, "symlist-starts-at-1");
                }
                if run_of_3_to_255(&rows[c]) {
                    push(&mut t, "symlist-run-to-255");
                }
            }
        }
    }
    t
}

/// Parses the transform meta data of a (non-striped) Nx16 stream and applies the transforms forward
/// to `data`, giving the byte string that went into the entropy coder. None if the stream header
/// cannot be parsed.
fn nx16_entropy_input(enc: &[u8], data: &[u8]) -> Option<Vec<u8>> {
    let flags = *enc.first()?;
    let mut p = 1usize;
    let mut cur = data.to_vec();
    if flags & 0x10 == 0 {
        let (_, n) = refnum::uint7_decode(&enc[p..])?;
        p += n;
    }
    if flags & 0x80 != 0 {
        let nsym = *enc.get(p)? as usize;
        p += 1;
        let map = enc.get(p..p + nsym)?;
        p += nsym;
        let (_, n) = refnum::uint7_decode(&enc[p..])?;
        p += n;
        let mut idx = [0u8; 256];
        for (i, &s) in map.iter().enumerate() {
            idx[s as usize] = i as u8;
        }
        let per = match nsym {
            0 | 1 => 0,
            2 => 8,
            3..=4 => 4,
            5..=16 => 2,
            _ => return None,
        };
        let mut out = Vec::new();
        if per > 0 {
            let bits = 8 / per;
            for ch in cur.chunks(per) {
                let mut b = 0u8;
                for (i, &s) in ch.iter().enumerate() {
                    b |= idx[s as usize] << (bits * i);
                }
                out.push(b);
            }
        }
        cur = out;
    }
    if flags & 0x40 != 0 {
        let (ml, n) = refnum::uint7_decode(&enc[p..])?;
        p += n;
        let (_, n) = refnum::uint7_decode(&enc[p..])?;
        p += n;
        if ml & 1 == 0 {
            return None; // compressed meta data: noodles never emits it
        }
        let meta = enc.get(p..p + (ml as usize >> 1))?;
        let mut nsym = *meta.first()? as usize;
        if nsym == 0 {
            nsym = 256;
        }
        let mut l = [false; 256];
        for &s in meta.get(1..1 + nsym)? {
            l[s as usize] = true;
        }
        let mut out = Vec::new();
        let mut i = 0;
        while i < cur.len() {
            let s = cur[i];
            out.push(s);
            i += 1;
            if l[s as usize] {
                while i < cur.len() && cur[i] == s {
                    i += 1;
                }
            }
        }
        cur = out;
    }
    Some(cur)
}

fn nx16_entropy_triggers(flags: u8, e: &[u8], t: &mut Vec<&'static str>) {
    if flags & 0x20 != 0 {
        return; // CAT: no entropy coder
    }
    let n = if flags & 0x04 != 0 { 32 } else { 4 };
    if flags & 0x01 == 0 {
        if first_is_1(&alphabet(e)) {
            push(t, "alphabet-starts-at-1");
        }
    } else if e.len() / n >= 2 {
        push(t, "order1-chunks-not-interleaved");
    }
}

/// rANS Nx16: triggers computed on what actually reached the entropy coder(s).
pub fn nx16(enc: &[u8], data: &[u8]) -> Vec<&'static str> {
    let mut t = Vec::new();
    let Some(&flags) = enc.first() else { return t };
    if flags & 0x08 != 0 {
        // STRIPE: four order-0 sub-streams over the transposed input (noodles always uses 4, NO_SIZE)
        for j in 0..4 {
            let sub: Vec<u8> = data.iter().skip(j).step_by(4).copied().collect();
            if sub.len() >= 4 && first_is_1(&alphabet(&sub)) {
                push(&mut t, "alphabet-starts-at-1");
            }
        }
        return t;
    }
    match nx16_entropy_input(enc, data) {
        Some(e) => nx16_entropy_triggers(flags, &e, &mut t),
        None => push(&mut t, "unparsable-header"),
    }
    t
}

pub fn label(t: &[&'static str]) -> String {
    if t.is_empty() { "none".into() } else { t.join("+") }
}
