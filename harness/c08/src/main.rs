//! C08 — stub (to be implemented).

fn main() {
    eprintln!("c08: not implemented");
    std::process::exit(2);
}
