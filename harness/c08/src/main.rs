//! C08 — CRAM codecs and integer codings decode exactly what was encoded, per the spec.
//!
//! Monitor (through hook H2, `noodles_cram::verif`):
//! * self round trip `decode(encode(x)) == x` for rANS 4x8 order 0/1, rANS Nx16 under all 128 flag
//!   subsets, the adaptive arithmetic coder under all 128 flag subsets, fqzcomp over record-length
//!   partitions, the name tokenizer over lists of read names, gzip/bzip2/lzma at several levels;
//! * cross decoding: every rANS 4x8 / Nx16 stream noodles emits is also decoded by the independent
//!   decoders in `refrans` (written from the CRAM codecs specification) and compared with the input;
//! * ITF8 / LTF8 / uint7: write -> read identity, byte-exact comparison of noodles' encoding with the
//!   reference encoders in `refnum`, and decoding from a `ChunkedRead` that delivers one byte per
//!   call; ITF8 over all 2^32 values in the thorough tier.
//! Panics inside encode/decode are violations (`panic:<call site signature>`).

mod genc;
mod refnum;
mod refrans;

use std::io::Read;

use noodles_cram::verif::{codecs, num};
use serde_json::{Map, Value, json};
use vcore::{
    CaseOut, Ctx, Report, Rng, Tier,
    adv::{ChunkedRead, Sizes},
    guard,
    report::hex,
    rng::fnv1a,
    run_cases,
};

use genc as gen_;

#[derive(Clone, Debug)]
struct Case {
    /// "payload" | "witness" | "names" | "quals" | "itf8_range" | "itf8_set" | "ltf8" | "uint7"
    kind: &'static str,
    /// payload class / name family / quality style / integer sub-set
    class: String,
    /// payload length / number of names / number of records / number of random values
    len: usize,
    pseed: u64,
    /// run configuration `i` of this case iff `mix(i) % part.1 == part.0`
    part: (u32, u32),
    /// run the two rANS 4x8 configurations in this case
    r4x8: bool,
    /// first value of an exhaustive ITF8 range (as unsigned bit pattern)
    lo: u64,
}

fn case_json(c: &Case) -> Value {
    json!({"kind": c.kind, "class": c.class, "len": c.len, "pseed": c.pseed, "part": [c.part.0, c.part.1], "r4x8": c.r4x8, "lo": c.lo})
}

// ------------------------------------------------------------------------------------------------
// flag naming
// ------------------------------------------------------------------------------------------------

const NX16_BITS: [(u8, &str); 7] =
    [(0x01, "ORDER"), (0x04, "N32"), (0x08, "STRIPE"), (0x10, "NO_SIZE"), (0x20, "CAT"), (0x40, "RLE"), (0x80, "PACK")];
const AAC_BITS: [(u8, &str); 7] =
    [(0x01, "ORDER"), (0x04, "EXT"), (0x08, "STRIPE"), (0x10, "NO_SIZE"), (0x20, "CAT"), (0x40, "RLE"), (0x80, "PACK")];

fn flag_names(bits: &[(u8, &str); 7], f: u8) -> String {
    let v: Vec<&str> = bits.iter().filter(|(b, _)| f & b != 0).map(|(_, n)| *n).collect();
    if v.is_empty() { "none".into() } else { v.join("|") }
}

/// The i-th of the 128 subsets of the 7 flag bits.
fn subset(bits: &[(u8, &str); 7], i: u32) -> u8 {
    let mut f = 0u8;
    for (k, (b, _)) in bits.iter().enumerate() {
        if i >> k & 1 == 1 {
            f |= b;
        }
    }
    f
}

// ------------------------------------------------------------------------------------------------
// one codec round trip
// ------------------------------------------------------------------------------------------------

struct Trip<'a> {
    o: &'a mut CaseOut,
    what: String,
    /// class + length class, for the distinct count
    fp_class: String,
}

fn io_kind(e: &std::io::Error) -> String {
    format!("{:?}", e.kind())
}

fn head(b: &[u8]) -> String {
    if b.len() <= 96 { hex(b) } else { format!("{}…(+{} bytes)", hex(&b[..96]), b.len() - 96) }
}

fn first_diff(a: &[u8], b: &[u8]) -> String {
    let n = a.iter().zip(b).position(|(x, y)| x != y).unwrap_or(a.len().min(b.len()));
    format!("lengths {} vs {}, first difference at offset {n}", a.len(), b.len())
}

/// What the independent decoder makes of a stream noodles emitted.
enum Stream {
    /// decodes to the input under the specification decoder
    SpecOk,
    /// the specification decoder fails (or yields other bytes), but the stream decodes to the input once
    /// the named *known* deviations of noodles' encoder are read the way noodles writes them
    KnownDefect(Vec<&'static str>),
    /// neither: (diagnostic class, human readable)
    Unexplained(String, String),
}

/// Fixed priority for naming a stream that carries several known deviations.
const DEFECT_PRIORITY: &[&str] = &[
    "alphabet-starts-at-1",
    "order1-chunks-not-interleaved",
    "symlist-starts-at-1",
    "symlist-run-to-255",
    "ctxlist-run-to-255",
    "ctxlist-starts-at-1",
];

fn primary(notes: &[&'static str]) -> &'static str {
    DEFECT_PRIORITY.iter().find(|d| notes.contains(d)).copied().unwrap_or("unnamed")
}

fn classify(
    data: &[u8],
    spec: Result<Vec<u8>, String>,
    dialect: impl FnOnce() -> Result<(Vec<u8>, Vec<&'static str>), String>,
) -> Stream {
    let (class, text) = match spec {
        Ok(d) if d == data => return Stream::SpecOk,
        Ok(d) => ("mismatch".to_string(), format!("decodes to other bytes ({})", first_diff(&d, data))),
        Err(e) => (e.clone(), format!("cannot decode it: {e}")),
    };
    match dialect() {
        Ok((d, notes)) if d == data && !notes.is_empty() => Stream::KnownDefect(notes),
        _ => Stream::Unexplained(class, text),
    }
}

fn classify_4x8(enc: &[u8], data: &[u8]) -> Stream {
    classify(data, refrans::decode_4x8(enc), || refrans::decode_4x8_dialect(enc))
}

fn classify_nx16(enc: &[u8], data: &[u8], len: Option<usize>) -> Stream {
    classify(data, refrans::decode_nx16(enc, len), || refrans::decode_nx16_dialect(enc, len))
}

impl Trip<'_> {
    /// `codec`: short codec name; `req`: requested configuration label; `enc`/`dec`: noodles; `xdec`:
    /// classification of the emitted stream by the independent decoder (if one exists for this
    /// codec); `eff`: renders the *effective* configuration from the encoded stream (what the
    /// encoder normalised the request to).
    #[allow(clippy::too_many_arguments)]
    fn run(
        &mut self,
        codec: &str,
        req: &str,
        data: &[u8],
        enc: &dyn Fn() -> std::io::Result<Vec<u8>>,
        dec: &dyn Fn(&[u8]) -> std::io::Result<Vec<u8>>,
        xdec: Option<&dyn Fn(&[u8]) -> Stream>,
        eff: &dyn Fn(&[u8]) -> String,
    ) {
        let o = &mut *self.o;
        let key = format!("{codec}:{req}");
        o.evaluations += 1;
        o.count(&format!("L~{key}~{}", data.len()), 1);
        o.fps.push(fnv1a(format!("{key}|{}", self.fp_class).as_bytes()));
        let lc = gen_::len_class(data.len());
        let wit_in = || json!({"input_hex": hex(&data[..data.len().min(512)])});
        let encoded = match guard::catch(enc) {
            Err(p) => {
                o.violation_with(
                    format!("panic:{}", p.sig),
                    format!("{codec} encode panicked ({}) with {req} on {}: input {}", p.message, self.what, head(data)),
                    wit_in(),
                );
                return;
            }
            Ok(Err(e)) => {
                o.count(&format!("J~{key}~{}", io_kind(&e)), 1);
                return;
            }
            Ok(Ok(b)) => b,
        };
        let e = eff(&encoded);
        if e != req {
            o.count(&format!("N~{key}"), 1);
        }
        let wit = || json!({"input_hex": hex(&data[..data.len().min(512)]), "encoded_hex": hex(&encoded[..encoded.len().min(512)])});
        // 1. what does the independent decoder make of the stream?
        let mut stream = None;
        if let Some(x) = xdec {
            o.count(&format!("X~{key}"), 1);
            match guard::catch(|| x(&encoded)) {
                Err(p) => o.inconclusive.push(format!("independent {codec} decoder panicked: {} ({})", p.message, self.what)),
                Ok(st) => {
                    match &st {
                        Stream::SpecOk => {}
                        Stream::KnownDefect(notes) => o.violation_with(
                            format!("{codec}-xdec:encoder-defect={}", primary(notes)),
                            format!(
                                "the independent {codec} decoder (CRAM codecs specification) cannot decode noodles' stream to the input; it decodes to the input once the encoder's known deviation(s) {notes:?} are read the way noodles writes them; requested {req}, effective {e}, {}: input {} -> encoded {}",
                                self.what, head(data), head(&encoded)
                            ),
                            wit(),
                        ),
                        Stream::Unexplained(class, text) => o.violation_with(
                            format!("{codec}-xdec:{class}:{e}:len={lc}"),
                            format!(
                                "the independent {codec} decoder (CRAM codecs specification) {text}; requested {req}, effective {e}, {}: input {} -> encoded {}",
                                self.what, head(data), head(&encoded)
                            ),
                            wit(),
                        ),
                    }
                    stream = Some(st);
                }
            }
        }
        // 2. noodles' own decoder; a failure on a stream that carries a known encoder defect is
        //    attributed to that defect, every other failure gets a generic, narrow signature
        let (fail_class, fail_text): (Option<String>, String) = match guard::catch(|| dec(&encoded)) {
            Err(p) => (Some(format!("panic:{}", p.sig)), format!("decode panicked ({})", p.message)),
            Ok(Err(err)) => (Some("decode-error".into()), format!("decode rejects noodles' own encoding ({err})")),
            Ok(Ok(back)) => {
                if back != data {
                    (Some("mismatch".into()), format!("decode(encode(x)) != x ({}), decoded {}", first_diff(&back, data), head(&back)))
                } else {
                    (None, String::new())
                }
            }
        };
        if let Some(class) = fail_class {
            let sig = match (&stream, class.starts_with("panic:")) {
                (Some(Stream::KnownDefect(notes)), _) => format!("{codec}-selftrip:encoder-defect={}", primary(notes)),
                (_, true) => class.clone(),
                _ => format!("{codec}-selftrip:{class}:{e}:len={lc}"),
            };
            o.violation_with(
                sig,
                format!("{codec} {fail_text}; requested {req}, effective {e}, {}: input {} -> encoded {}", self.what, head(data), head(&encoded)),
                wit(),
            );
        }
    }
}

fn pre_sized(
    f: impl Fn(&[u8], &mut [u8]) -> std::io::Result<()>,
    n: usize,
) -> impl Fn(&[u8]) -> std::io::Result<Vec<u8>> {
    move |src| {
        let mut dst = vec![0u8; n];
        f(src, &mut dst)?;
        Ok(dst)
    }
}

/// Number of configurations of a payload case (the `part` filter runs over these indices).
const N_CONFIGS: u32 = 2 + 128 + 128 + 7 + 4 + 3 + 3;

fn do_r4x8(t: &mut Trip, data: &[u8], order1: bool) {
    let order = if order1 { codecs::rans_4x8::Order::One } else { codecs::rans_4x8::Order::Zero };
    t.run(
        "r4x8",
        if order1 { "o1" } else { "o0" },
        data,
        &|| codecs::rans_4x8::encode(order, data),
        &|b| codecs::rans_4x8::decode(b),
        Some(&|b| classify_4x8(b, data)),
        &|b| if b.first() == Some(&1) { "o1".into() } else { "o0".into() },
    );
}

fn do_nx16(t: &mut Trip, data: &[u8], f: u8) {
    t.run(
        "nx16",
        &flag_names(&NX16_BITS, f),
        data,
        &|| codecs::rans_nx16::encode(codecs::rans_nx16::Flags::from(f), data),
        &|b| codecs::rans_nx16::decode(b, data.len()),
        Some(&|b| classify_nx16(b, data, Some(data.len()))),
        &|b| flag_names(&NX16_BITS, b.first().copied().unwrap_or(0)),
    );
}

fn do_aac(t: &mut Trip, data: &[u8], f: u8) {
    t.run(
        "aac",
        &flag_names(&AAC_BITS, f),
        data,
        &|| codecs::aac::encode(codecs::aac::Flags::from(f), data),
        &|b| codecs::aac::decode(b, data.len()),
        None,
        &|b| flag_names(&AAC_BITS, b.first().copied().unwrap_or(0)),
    );
}

fn do_fqz(t: &mut Trip, data: &[u8], lens: &[usize], label: &str) {
    t.o.max("max_fqz_records", lens.len() as u64);
    t.run("fqz", label, data, &|| codecs::fqzcomp::encode(lens, data), &|b| codecs::fqzcomp::decode(b), None, &|_| label.to_string());
}

fn run_payload(c: &Case, o: &mut CaseOut) {
    let mut rng = Rng::new(c.pseed, 8, 0);
    let data = gen_::make(&c.class, c.len, &mut rng);
    let what = format!("payload class {} len {} pseed {}", c.class, c.len, c.pseed);
    let fp_class = format!("{}|{}", c.class, c.len);
    let mut t = Trip { o, what, fp_class };
    // pseudo-random but fixed assignment of the configurations to the parts
    let sel = |i: u32| (i.wrapping_mul(0x9E37_79B1) >> 15) % c.part.1 == c.part.0;
    let same = |s: &str| {
        let s = s.to_string();
        move |_: &[u8]| s.clone()
    };
    if c.r4x8 {
        do_r4x8(&mut t, &data, false);
        do_r4x8(&mut t, &data, true);
    }
    let mut i = 0u32;
    for k in 0..128 {
        if sel(i) {
            do_nx16(&mut t, &data, subset(&NX16_BITS, k));
        }
        i += 1;
    }
    for k in 0..128 {
        if sel(i) {
            do_aac(&mut t, &data, subset(&AAC_BITS, k));
        }
        i += 1;
    }
    // fqzcomp over every partition style
    for (k, kind) in gen_::PARTITIONS.iter().enumerate() {
        if sel(i) {
            let mut prng = Rng::new(c.pseed, 9, k as u64);
            let lens = gen_::partition(kind, data.len(), &mut prng);
            do_fqz(&mut t, &data, &lens, kind);
        }
        i += 1;
    }
    for level in [0u32, 1, 6, 9] {
        if sel(i) {
            let l = format!("level{level}");
            t.run("gzip", &l, &data, &|| codecs::gzip::encode(level, &data), &pre_sized(codecs::gzip::decode, data.len()), None, &same(&l));
        }
        i += 1;
    }
    for level in [1u32, 5, 9] {
        if sel(i) {
            let l = format!("level{level}");
            t.run("bzip2", &l, &data, &|| codecs::bzip2::encode(level, &data), &pre_sized(codecs::bzip2::decode, data.len()), None, &same(&l));
        }
        i += 1;
    }
    for level in [0u32, 3, 6] {
        if sel(i) {
            let l = format!("level{level}");
            t.run("lzma", &l, &data, &|| codecs::lzma::encode(level, &data), &pre_sized(codecs::lzma::decode, data.len()), None, &same(&l));
        }
        i += 1;
    }
    debug_assert_eq!(i, N_CONFIGS);
}

/// Deterministic witnesses of the known findings (/verif/findings/C08.known): every run meets each of
/// them, whatever the seed. (id, codec, flags / order, input)
const WITNESSES: &[(&str, &str, u8, &[u8])] = &[
    ("nx16-alphabet-starts-at-1", "nx16", 0x00, &[1, 1, 1, 1]),
    ("nx16-order1-chunks-not-interleaved", "nx16", 0x01, b"CGACTGGGAGCGTCTTCTAGTAACCCATCGCTCGCAGAG"),
    ("r4x8-symlist-starts-at-1", "r4x8", 0, &[1, 1, 1]),
    ("r4x8-symlist-run-to-255", "r4x8", 0, &[0xfd, 0xfe, 0xff, 0xfd, 0xfe, 0xff]),
    ("r4x8-ctxlist-run-to-255", "r4x8", 1, &[0xfd, 0xff, 0xff, 0xfd, 0xfe, 0xfe, 0xff]),
    ("r4x8-empty-input", "r4x8", 0, &[]),
    ("aac-empty-input", "aac", 0x00, &[]),
    ("aac-pack-single-symbol", "aac", 0x80, b"AAAAA"),
    ("fqz-empty-input", "fqz", 0, &[]),
    ("tok-leading-zeros", "tok", 0, b"r:5\0r:007"),
    ("tok-substream-alphabet-starts-at-1", "tok", 0, b"ab:1\0ab:2\0ab:3\0ab:4"),
    (
        "tok-127-tokens",
        "tok",
        0,
        b"1:2:3:4:5:6:7:8:9:0:1:2:3:4:5:6:7:8:9:0:1:2:3:4:5:6:7:8:9:0:1:2:3:4:5:6:7:8:9:0:1:2:3:4:5:6:7:8:9:0:1:2:3:4:5:6:7:8:9:0:1:2:3:4",
    ),
];

fn run_witness(c: &Case, o: &mut CaseOut) {
    let (id, codec, f, data) = *WITNESSES.iter().find(|w| w.0 == c.class).expect("witness id");
    if codec == "tok" {
        let list: Vec<Vec<u8>> = data.split(|&b| b == 0).map(|s| s.to_vec()).collect();
        check_names(o, &format!("witness:{id}"), &list);
        return;
    }
    let mut t = Trip { o, what: format!("fixed witness {id}"), fp_class: format!("witness|{id}") };
    match codec {
        "nx16" => do_nx16(&mut t, data, f),
        "r4x8" => do_r4x8(&mut t, data, f == 1),
        "aac" => do_aac(&mut t, data, f),
        "fqz" => do_fqz(&mut t, data, &[], "empty-partition"),
        _ => unreachable!(),
    }
}

fn run_quals(c: &Case, o: &mut CaseOut) {
    let mut rng = Rng::new(c.pseed, 10, 0);
    let (lens, data) = gen_::quality_records(&mut rng, c.len, &c.class);
    let what = format!("quality records style {} n {} pseed {} (lens {:?}…)", c.class, c.len, c.pseed, &lens[..lens.len().min(8)]);
    let fp_class = format!("quals|{}|{}", c.class, c.len);
    let mut t = Trip { o, what, fp_class };
    do_fqz(&mut t, &data, &lens, &format!("records-{}", c.class));
}

fn strip_nul(b: &[u8]) -> &[u8] {
    b.strip_suffix(&[0]).unwrap_or(b)
}

fn split_names(b: &[u8]) -> Vec<&[u8]> {
    let b = strip_nul(b);
    if b.is_empty() { Vec::new() } else { b.split(|&x| x == 0).collect() }
}

fn show_names(n: &[Vec<u8>]) -> String {
    let v: Vec<String> = n.iter().take(12).map(|s| String::from_utf8_lossy(s).into_owned()).collect();
    format!("{v:?}{}", if n.len() > 12 { format!(" …({} names)", n.len()) } else { String::new() })
}

/// Maximal runs of ASCII alphanumerics / of everything else (the token boundaries of the CRAM name
/// tokenizer).
fn name_tokens(n: &[u8]) -> Vec<&[u8]> {
    let mut out = Vec::new();
    let mut start = 0;
    for i in 1..=n.len() {
        if i == n.len() || n[i].is_ascii_alphanumeric() != n[start].is_ascii_alphanumeric() {
            out.push(&n[start..i]);
            start = i;
        }
    }
    out
}

/// Diagnostic class of a name-list mismatch: do all differences consist of an all-digit token that
/// lost its leading zeros?
fn only_leading_zeros_lost(expected: &[&[u8]], got: &[&[u8]]) -> bool {
    if expected.len() != got.len() {
        return false;
    }
    let mut any = false;
    for (e, g) in expected.iter().zip(got) {
        if e == g {
            continue;
        }
        let (te, tg) = (name_tokens(e), name_tokens(g));
        if te.len() != tg.len() {
            return false;
        }
        for (a, b) in te.iter().zip(&tg) {
            if a == b {
                continue;
            }
            let digits = |x: &[u8]| !x.is_empty() && x.iter().all(|c| c.is_ascii_digit());
            if !(digits(a) && digits(b) && a.len() > 1 && a[0] == b'0') {
                return false;
            }
            let k = a.iter().position(|&c| c != b'0').unwrap_or(a.len() - 1);
            if &a[k..] != *b {
                return false;
            }
            any = true;
        }
    }
    any
}

/// The rANS Nx16 sub-streams of a name tokenizer block (CRAM codecs: 4 bytes total name length,
/// 4 bytes name count, 1 byte use_arith; then per token stream one type byte (bit 7 = first stream
/// of the next token position, bit 6 = duplicate of another stream, followed by two bytes), a uint7
/// compressed length and the compressed stream).
fn tok_substreams(enc: &[u8]) -> Result<Vec<(u8, &[u8])>, String> {
    if enc.len() < 9 {
        return Err("container shorter than its header".into());
    }
    if enc[8] != 0 {
        return Err("use_arith set".into());
    }
    let mut p = 9;
    let mut out = Vec::new();
    while p < enc.len() {
        let ttype = enc[p];
        p += 1;
        if ttype & 0x40 != 0 {
            p += 2;
            continue;
        }
        let (clen, n) = refnum::uint7_decode(&enc[p..]).ok_or("truncated stream length")?;
        p += n;
        let d = enc.get(p..p + clen as usize).ok_or("stream longer than the container")?;
        p += clen as usize;
        out.push((ttype, d));
    }
    Ok(out)
}

fn run_names(c: &Case, o: &mut CaseOut) {
    let mut rng = Rng::new(c.pseed, 11, 0);
    let list: Vec<Vec<u8>> = if c.class == "empty_list" { Vec::new() } else { gen_::names(&c.class, c.len, &mut rng) };
    check_names(o, &c.class, &list);
}

fn check_names(o: &mut CaseOut, family: &str, list: &[Vec<u8>]) {
    o.max("max_names_per_list", list.len() as u64);
    o.max("max_tokens_per_name", list.iter().map(|n| name_tokens(n).len()).max().unwrap_or(0) as u64);
    for trailing_nul in [true, false] {
        let mut src = Vec::new();
        for (i, n) in list.iter().enumerate() {
            if i > 0 {
                src.push(0);
            }
            src.extend_from_slice(n);
        }
        if trailing_nul && !list.is_empty() {
            src.push(0);
        }
        let req = if trailing_nul { "nul-terminated" } else { "nul-separated" };
        let key = format!("tok:{req}");
        o.evaluations += 1;
        o.count(&format!("L~{key}~{}", list.len()), 1);
        o.fps.push(fnv1a(format!("{key}|{}|{}", family, list.len()).as_bytes()));
        let wit = json!({"names": list.iter().take(400).map(|s| String::from_utf8_lossy(s).into_owned()).collect::<Vec<_>>()});
        let encoded = match guard::catch(|| codecs::name_tokenizer::encode(&src)) {
            Err(p) => {
                o.violation_with(format!("panic:{}", p.sig), format!("name tokenizer encode panicked ({}) on family {} ({req}): {}", p.message, family, show_names(list)), wit);
                continue;
            }
            Ok(Err(e)) => {
                o.count(&format!("J~{key}~{}", io_kind(&e)), 1);
                continue;
            }
            Ok(Ok(b)) => b,
        };
        // the embedded rANS Nx16 streams are rANS streams noodles emits: cross-decode each of them
        // (the expected content of a token stream is not known independently, so only "decodable
        // under the specification" is judged, plus agreement with noodles' decoder of the same bytes)
        let mut hit: Vec<&'static str> = Vec::new();
        match tok_substreams(&encoded) {
            Err(e) => o.violation_with("tok-container:unparsable", format!("name tokenizer output cannot be split into token streams ({e}), family {}: {}", family, show_names(list)), wit.clone()),
            Ok(subs) => {
                o.count(&format!("X~{key}"), 1);
                o.count("tok_substreams_cross_decoded", subs.len() as u64);
                for (ttype, sub) in subs {
                    // The content of a token stream is not known independently. A candidate X counts as
                    // "the input of this stream" iff noodles' (deterministic) encoder maps X to exactly
                    // these bytes; the property then demands that the specification decoder returns X.
                    let is_input = |x: &[u8]| matches!(guard::catch(|| codecs::rans_nx16::encode(codecs::rans_nx16::Flags::from(0), x)), Ok(Ok(e)) if e == sub);
                    let mine = refrans::decode_nx16(sub, None);
                    if matches!(&mine, Ok(y) if is_input(y)) {
                        continue;
                    }
                    let spec_says = match &mine {
                        Ok(_) => "decodes it to bytes that noodles' encoder does not map to this stream".to_string(),
                        Err(e) => format!("cannot decode it: {e}"),
                    };
                    match refrans::decode_nx16_dialect(sub, None) {
                        Ok((x, notes)) if !notes.is_empty() && is_input(&x) => {
                            let d = primary(&notes);
                            if !hit.contains(&d) {
                                hit.push(d);
                                o.violation_with(
                                    format!("tok-xdec:substream-encoder-defect={d}"),
                                    format!(
                                        "token stream (type byte {ttype:#04x}) inside the name tokenizer block is the rANS Nx16 encoding of {} but the specification decoder {spec_says}; the stream carries the encoder's known deviation {notes:?}; family {family} ({req}): {}; stream {}",
                                        head(&x), show_names(list), head(sub)
                                    ),
                                    wit.clone(),
                                );
                            }
                        }
                        _ => o.violation_with(
                            format!("tok-xdec:substream:{}", mine.as_ref().err().cloned().unwrap_or_else(|| "decodes-to-something-else".into())),
                            format!("token stream (type byte {ttype:#04x}) inside the name tokenizer block: the specification decoder {spec_says}; family {family} ({req}): {}; stream {}", show_names(list), head(sub)),
                            wit.clone(),
                        ),
                    }
                }
            }
        }
        let (fail_class, fail_text): (Option<String>, String) = match guard::catch(|| codecs::name_tokenizer::decode(&encoded)) {
            Err(p) => (Some(format!("panic:{}", p.sig)), format!("decode panicked ({}) on its own encoding", p.message)),
            Ok(Err(e)) => (Some("decode-error".into()), format!("decode rejects noodles' own encoding ({e})")),
            Ok(Ok(back)) => {
                if strip_nul(&back) == strip_nul(&src) {
                    (None, String::new())
                } else {
                    let got = split_names(&back);
                    let exp: Vec<&[u8]> = list.iter().map(|n| &n[..]).collect();
                    let k = got.iter().zip(&exp).position(|(a, b)| a != b).unwrap_or(got.len().min(exp.len()));
                    let show = |v: &Vec<&[u8]>, k: usize| v.get(k).map(|s| String::from_utf8_lossy(s).into_owned()).unwrap_or_else(|| "<none>".into());
                    let prev = if k > 0 { show(&exp, k - 1) } else { "<first>".into() };
                    let class = if only_leading_zeros_lost(&exp, &got) { "mismatch:leading-zeros-of-digit-token-dropped" } else { "mismatch:other" };
                    (
                        Some(class.into()),
                        format!(
                            "decode(encode(names)) != names: {} names in, {} out; first difference at name #{k}: expected {:?}, got {:?} (previous name {:?})",
                            exp.len(), got.len(), show(&exp, k), show(&got, k), prev
                        ),
                    )
                }
            }
        };
        if let Some(class) = fail_class {
            let sig = if let Some(d) = hit.first() {
                format!("tok-selftrip:substream-encoder-defect={d}")
            } else if class.starts_with("panic:") {
                class.clone()
            } else if class.starts_with("mismatch:leading") {
                format!("tok-selftrip:{class}")
            } else {
                format!("tok-selftrip:{class}:family={}", family)
            };
            o.violation_with(sig, format!("name tokenizer {fail_text}; family {} ({req}): {}", family, show_names(list)), wit);
        }
    }
}

// ------------------------------------------------------------------------------------------------
// integer codings
// ------------------------------------------------------------------------------------------------

/// One integer coding under test: noodles writer/reader + reference encoder.
trait Coding {
    type T: Copy + PartialEq + std::fmt::Debug + std::fmt::LowerHex;
    const NAME: &'static str;
    fn write(buf: &mut Vec<u8>, v: Self::T) -> std::io::Result<()>;
    fn read<R: Read>(r: &mut R) -> std::io::Result<Self::T>;
    fn ref_encode(v: Self::T, out: &mut Vec<u8>);
    fn ref_decode(b: &[u8]) -> Option<(Self::T, usize)>;
}

struct Itf8;
impl Coding for Itf8 {
    type T = i32;
    const NAME: &'static str = "itf8";
    fn write(buf: &mut Vec<u8>, v: i32) -> std::io::Result<()> {
        num::write_itf8(buf, v)
    }
    fn read<R: Read>(r: &mut R) -> std::io::Result<i32> {
        num::read_itf8(r)
    }
    fn ref_encode(v: i32, out: &mut Vec<u8>) {
        refnum::itf8_encode(v, out)
    }
    fn ref_decode(b: &[u8]) -> Option<(i32, usize)> {
        refnum::itf8_decode(b)
    }
}

struct Ltf8;
impl Coding for Ltf8 {
    type T = i64;
    const NAME: &'static str = "ltf8";
    fn write(buf: &mut Vec<u8>, v: i64) -> std::io::Result<()> {
        num::write_ltf8(buf, v)
    }
    fn read<R: Read>(r: &mut R) -> std::io::Result<i64> {
        num::read_ltf8(r)
    }
    fn ref_encode(v: i64, out: &mut Vec<u8>) {
        refnum::ltf8_encode(v, out)
    }
    fn ref_decode(b: &[u8]) -> Option<(i64, usize)> {
        refnum::ltf8_decode(b)
    }
}

struct Uint7;
impl Coding for Uint7 {
    type T = u32;
    const NAME: &'static str = "uint7";
    fn write(buf: &mut Vec<u8>, v: u32) -> std::io::Result<()> {
        num::write_uint7(buf, v)
    }
    fn read<R: Read>(r: &mut R) -> std::io::Result<u32> {
        num::read_uint7(r)
    }
    fn ref_encode(v: u32, out: &mut Vec<u8>) {
        refnum::uint7_encode(v, out)
    }
    fn ref_decode(b: &[u8]) -> Option<(u32, usize)> {
        refnum::uint7_decode(b)
    }
}

const INT_BATCH: usize = 4096;

/// Checks one batch; returns the first failure as (sig, desc).
fn int_batch<C: Coding>(vals: &[C::T]) -> Option<(String, String)> {
    let mut buf: Vec<u8> = Vec::with_capacity(vals.len() * 9);
    let mut rf: Vec<u8> = Vec::with_capacity(16);
    let name = C::NAME;
    for &v in vals {
        let start = buf.len();
        if let Err(e) = C::write(&mut buf, v) {
            return Some((format!("{name}-write-error"), format!("write_{name}({v:?} = {v:#x}) into a Vec failed: {e}")));
        }
        let enc = &buf[start..];
        rf.clear();
        C::ref_encode(v, &mut rf);
        if enc != &rf[..] {
            return Some((
                format!("{name}-encoding-ne-spec:bytes={}-vs-{}", enc.len(), rf.len()),
                format!("write_{name}({v:?} = {v:#x}) emitted {} but the specification's encoding is {}", hex(enc), hex(&rf)),
            ));
        }
        match C::ref_decode(enc) {
            Some((w, n)) if w == v && n == enc.len() => {}
            other => {
                return Some((
                    format!("{name}-refdecode:bytes={}", enc.len()),
                    format!("the reference {name} decoder reads {other:?} from noodles' encoding {} of {v:?}", hex(enc)),
                ));
            }
        }
        let mut r = enc;
        match C::read(&mut r) {
            Ok(w) if w == v && r.is_empty() => {}
            Ok(w) => {
                return Some((
                    format!("{name}-roundtrip:bytes={}", enc.len()),
                    format!("read_{name}(write_{name}({v:?} = {v:#x})) = {w:?} = {w:#x} ({} of {} bytes left unread); encoding {}", r.len(), enc.len(), hex(enc)),
                ));
            }
            Err(e) => {
                return Some((
                    format!("{name}-roundtrip:read-error:bytes={}", enc.len()),
                    format!("read_{name} fails ({e}) on write_{name}({v:?} = {v:#x}) = {}", hex(enc)),
                ));
            }
        }
    }
    // the same values from a source that delivers one byte per read call
    let mut cr = ChunkedRead::from_slice(&buf, Sizes::Fixed(1));
    for &v in vals {
        match C::read(&mut cr) {
            Ok(w) if w == v => {}
            Ok(w) => {
                return Some((
                    format!("{name}-chunked-read:mismatch"),
                    format!("read_{name} from a 1-byte-per-call source returned {w:?} = {w:#x} for the encoding of {v:?} = {v:#x}"),
                ));
            }
            Err(e) => {
                return Some((
                    format!("{name}-chunked-read:error"),
                    format!("read_{name} from a 1-byte-per-call source failed ({e}) for the encoding of {v:?} = {v:#x}"),
                ));
            }
        }
    }
    if cr.position() != buf.len() {
        return Some((format!("{name}-chunked-read:left-over"), format!("{} of {} bytes left unread after the batch", buf.len() - cr.position(), buf.len())));
    }
    None
}

fn int_values<C: Coding>(o: &mut CaseOut, vals: &[C::T]) {
    for chunk in vals.chunks(INT_BATCH) {
        match guard::catch(|| int_batch::<C>(chunk)) {
            Ok(None) => {}
            Ok(Some((sig, desc))) => {
                o.violation(sig, desc);
            }
            Err(p) => {
                // locate the value
                let mut wit = String::new();
                for &v in chunk {
                    if guard::catch(|| int_batch::<C>(&[v])).is_err() {
                        wit = format!("{v:?} = {v:#x}");
                        break;
                    }
                }
                o.violation(format!("panic:{}", p.sig), format!("{} write/read panicked ({}) on value {wit}", C::NAME, p.message));
            }
        }
    }
    o.count(&format!("{}_values_checked", C::NAME), vals.len() as u64);
    o.evaluations += vals.len() as u64;
}

fn around(out: &mut Vec<i128>, centre: i128, radius: i128) {
    for d in -radius..=radius {
        out.push(centre + d);
    }
}

fn itf8_boundary_set() -> Vec<i32> {
    // as unsigned bit patterns: 0, 2^7, 2^14, 2^21, 2^28, 2^31 (= i32::MIN / i32::MAX + 1), 2^32 (wraps to 0)
    let mut v = Vec::new();
    for c in [0i128, 1 << 7, 1 << 14, 1 << 21, 1 << 28, 1 << 31, 1 << 32, 1 << 8, 1 << 16, 1 << 24] {
        around(&mut v, c, 300);
    }
    let mut out: Vec<i32> = v.into_iter().map(|x| (x.rem_euclid(1 << 32)) as u32 as i32).collect();
    out.sort_unstable();
    out.dedup();
    out
}

fn ltf8_boundary_set() -> Vec<i64> {
    let mut v = Vec::new();
    around(&mut v, 0, 300);
    for k in 1..=9 {
        around(&mut v, 1i128 << (7 * k), 300);
    }
    for k in 1..=8 {
        around(&mut v, 1i128 << (8 * k), 300);
    }
    around(&mut v, 1i128 << 63, 300); // i64::MIN / i64::MAX
    around(&mut v, 1i128 << 64, 300); // -1 / 0
    let mut out: Vec<i64> = v.into_iter().map(|x| (x.rem_euclid(1 << 64)) as u64 as i64).collect();
    out.sort_unstable();
    out.dedup();
    out
}

fn uint7_boundary_set() -> Vec<u32> {
    let mut v = Vec::new();
    around(&mut v, 0, 300);
    for k in 1..=4 {
        around(&mut v, 1i128 << (7 * k), 300);
    }
    for k in 1..=3 {
        around(&mut v, 1i128 << (8 * k), 300);
    }
    around(&mut v, 1i128 << 32, 300);
    let mut out: Vec<u32> = v.into_iter().filter(|x| (0..1i128 << 32).contains(x)).map(|x| x as u32).collect();
    out.sort_unstable();
    out.dedup();
    out
}

/// Random values with a uniformly chosen bit width, so every encoded length is hit equally often.
fn random_width_u64(rng: &mut Rng, max_bits: u32) -> u64 {
    let bits = rng.urange(0, max_bits as usize) as u32;
    let v = rng.next_u64();
    if bits == 0 {
        0
    } else if bits >= 64 {
        v
    } else {
        // top bit of the chosen width set
        (v & ((1u64 << bits) - 1)) | (1u64 << (bits - 1))
    }
}

fn run_ints(c: &Case, o: &mut CaseOut) {
    let mut rng = Rng::new(c.pseed, 12, 0);
    match (c.kind, c.class.as_str()) {
        ("itf8_range", _) => {
            // c.len consecutive bit patterns from c.lo
            let mut vals: Vec<i32> = Vec::with_capacity(INT_BATCH);
            let mut x = c.lo;
            let end = c.lo + c.len as u64;
            while x < end {
                vals.clear();
                let n = (end - x).min(INT_BATCH as u64 * 16);
                vals.extend((x..x + n).map(|u| u as u32 as i32));
                int_values::<Itf8>(o, &vals);
                x += n;
            }
            o.count("itf8_exhaustive_range_values", c.len as u64);
            o.fp = fnv1a(format!("itf8_range|{}", c.lo).as_bytes());
        }
        ("itf8_set", "boundaries") => {
            let v = itf8_boundary_set();
            int_values::<Itf8>(o, &v);
            o.fp = fnv1a(b"itf8|boundaries");
        }
        ("itf8_set", _) => {
            let v: Vec<i32> = (0..c.len).map(|i| if i % 2 == 0 { rng.next_u32() as i32 } else { random_width_u64(&mut rng, 32) as u32 as i32 }).collect();
            int_values::<Itf8>(o, &v);
            o.fp = fnv1a(format!("itf8|random|{}", c.pseed).as_bytes());
        }
        ("ltf8", "boundaries") => {
            let v = ltf8_boundary_set();
            int_values::<Ltf8>(o, &v);
            o.fp = fnv1a(b"ltf8|boundaries");
        }
        ("ltf8", _) => {
            let v: Vec<i64> = (0..c.len).map(|i| if i % 2 == 0 { rng.next_u64() as i64 } else { random_width_u64(&mut rng, 64) as i64 }).collect();
            int_values::<Ltf8>(o, &v);
            o.fp = fnv1a(format!("ltf8|random|{}", c.pseed).as_bytes());
        }
        ("uint7", "boundaries") => {
            let v = uint7_boundary_set();
            int_values::<Uint7>(o, &v);
            o.fp = fnv1a(b"uint7|boundaries");
        }
        ("uint7", _) => {
            let v: Vec<u32> = (0..c.len).map(|i| if i % 2 == 0 { rng.next_u32() } else { random_width_u64(&mut rng, 32) as u32 }).collect();
            int_values::<Uint7>(o, &v);
            o.fp = fnv1a(format!("uint7|random|{}", c.pseed).as_bytes());
        }
        other => panic!("unknown integer case {other:?}"),
    }
    // evaluations were counted per value
    o.evaluations -= 1;
}

fn run_case(c: &Case) -> CaseOut {
    let mut o = CaseOut::new();
    o.evaluations = 0;
    match c.kind {
        "payload" => run_payload(c, &mut o),
        "quals" => run_quals(c, &mut o),
        "names" => run_names(c, &mut o),
        "witness" => run_witness(c, &mut o),
        _ => {
            o.evaluations = 1;
            run_ints(c, &mut o)
        }
    }
    // one payload meets the same defect under many configurations: keep three witnesses per
    // signature and case, count the rest
    let mut seen: std::collections::BTreeMap<String, u32> = Default::default();
    let mut dropped = 0u64;
    let all = std::mem::take(&mut o.violations);
    for v in all {
        let n = seen.entry(v.0.clone()).or_insert(0);
        *n += 1;
        if *n <= 3 {
            o.violations.push(v);
        } else {
            dropped += 1;
        }
    }
    if dropped > 0 {
        o.count("violations_beyond_three_per_signature_and_case", dropped);
    }
    o
}

// ------------------------------------------------------------------------------------------------
// case list
// ------------------------------------------------------------------------------------------------

fn parts_for(len: usize) -> u32 {
    match len {
        0..=5000 => 1,
        5001..=70000 => 8,
        70001..=300000 => 32,
        _ => 136,
    }
}

fn gen_cases(ctx: &Ctx) -> Vec<Case> {
    let thorough = ctx.tier == Tier::Thorough;
    let mut cases: Vec<Case> = Vec::new();
    let mut k = 0u64;
    let pseed = |k: &mut u64| {
        *k += 1;
        ctx.seed.wrapping_mul(0x9E37_79B9).wrapping_add(*k << 8)
    };
    let classes = gen_::all_classes();
    let max_len = ctx.budget("maxlen", 70_000, 1 << 20) as usize;
    let lengths = gen_::lengths(max_len);
    // variants per (class, length): quick 1, thorough 5 for short lengths
    let variants_short = ctx.budget("variants", 1, 5);
    // quick: every payload runs ONE pseudo-randomly chosen part out of 8 x parts_for(len) (about 34 of
    // the 273 configurations for short payloads; which part depends on class, length and VERIF_SEED)
    // plus rANS 4x8; thorough: every payload runs every configuration.
    let thin = ctx.budget("thin", 8, 1) as u32;
    let mut payload_cases: Vec<Case> = Vec::new();
    let push_payload = |v: &mut Vec<Case>, class: &str, len: usize, ps: u64| {
        let n = parts_for(len) * thin;
        if thin > 1 {
            let p = (fnv1a(format!("{class}|{len}|{ps}").as_bytes()) % n as u64) as u32;
            v.push(Case { kind: "payload", class: class.to_string(), len, pseed: ps, part: (p, n), r4x8: true, lo: 0 });
        } else {
            for p in 0..n {
                v.push(Case { kind: "payload", class: class.to_string(), len, pseed: ps, part: (p, n), r4x8: p == 0, lo: 0 });
            }
        }
    };
    for &len in &lengths {
        for class in &classes {
            // the heaviest lengths only for a rotating third of the classes
            if len > 300_000 && (fnv1a(class.as_bytes()) ^ len as u64) % 3 != ctx.seed % 3 {
                continue;
            }
            let nvar = if len <= 1100 { variants_short } else { 1 };
            for _ in 0..nvar {
                let ps = pseed(&mut k);
                push_payload(&mut payload_cases, class, len, ps);
            }
        }
    }
    // a full run alphabet (256 run symbols, stored as count 0) meets EVERY configuration in every tier, at a length
    // where each byte value has a run and at one where the last pass over the alphabet is cut short
    for len in [1536usize, 2000] {
        let ps = pseed(&mut k);
        for p in 0..parts_for(len) {
            payload_cases.push(Case { kind: "payload", class: "all256_runs".to_string(), len, pseed: ps, part: (p, parts_for(len)), r4x8: p == 0, lo: 0 });
        }
    }
    // seeded random lengths
    let mut rng = Rng::new(ctx.seed, 80, 0);
    let nrand = ctx.budget("randlens", 250, 2000);
    for _ in 0..nrand {
        let len = match rng.below(4) {
            0 => rng.urange(71, 600),
            1 => rng.urange(600, 5000),
            2 => rng.urange(71, 5000) / 32 * 32 + rng.urange(0, 2) * 31 % 33,
            _ => rng.urange(5001, 70_000.min(max_len.max(5001))),
        };
        let class = *rng.pick(&classes);
        let ps = pseed(&mut k);
        push_payload(&mut payload_cases, class, len, ps);
    }
    // `cases=N` selects a reduced workload (sanitizer stages): a deterministic stride over the list
    let want = ctx.budget("cases", u64::MAX, u64::MAX);
    let reduce = |v: Vec<Case>, want: u64| -> Vec<Case> {
        if want == u64::MAX || v.len() as u64 <= want {
            return v;
        }
        let n = v.len() as u64;
        (0..want).map(|i| v[(i * n / want) as usize].clone()).collect()
    };
    let reduced = want != u64::MAX;
    cases.extend(reduce(payload_cases, want));

    // quality strings with record structure
    let mut q = Vec::new();
    for style in ["fixed", "variable", "mixed"] {
        for nrec in [1usize, 2, 3, 10, 100, 1000] {
            for _ in 0..ctx.budget("qualvariants", 6, 40) {
                q.push(Case { kind: "quals", class: style.into(), len: nrec, pseed: pseed(&mut k), part: (0, 1), r4x8: false, lo: 0 });
            }
        }
    }
    cases.extend(reduce(q, want / 10));

    // name lists
    let mut n = Vec::new();
    n.push(Case { kind: "names", class: "empty_list".into(), len: 0, pseed: 0, part: (0, 1), r4x8: false, lo: 0 });
    for fam in gen_::NAME_FAMILIES {
        for count in [1usize, 2, 3, 5, 17, 100, 1000] {
            if (*fam == "single" || *fam == "single_char") && count > 1 {
                continue;
            }
            for _ in 0..ctx.budget("namevariants", 4, 60) {
                n.push(Case { kind: "names", class: fam.to_string(), len: count, pseed: pseed(&mut k), part: (0, 1), r4x8: false, lo: 0 });
            }
        }
    }
    if thorough {
        for fam in ["illumina", "illumina_pairs", "mixed", "padded"] {
            n.push(Case { kind: "names", class: fam.into(), len: 20_000, pseed: pseed(&mut k), part: (0, 1), r4x8: false, lo: 0 });
        }
    }
    cases.extend(reduce(n, want / 10));

    // fixed witnesses of the known findings
    for w in WITNESSES {
        cases.push(Case { kind: "witness", class: w.0.to_string(), len: w.3.len(), pseed: 0, part: (0, 1), r4x8: false, lo: 0 });
    }

    // integers
    for (kind, _) in [("itf8_set", 0), ("ltf8", 0), ("uint7", 0)] {
        cases.push(Case { kind, class: "boundaries".into(), len: 0, pseed: 0, part: (0, 1), r4x8: false, lo: 0 });
        let chunks = if reduced { 1 } else { 16 };
        for _ in 0..chunks {
            cases.push(Case { kind, class: "random".into(), len: 1 << 16, pseed: pseed(&mut k), part: (0, 1), r4x8: false, lo: 0 });
        }
    }
    if ctx.budget("itf8_exhaustive", 0, 1) == 1 {
        let step = 1u64 << 22;
        let mut lo = 0u64;
        while lo < 1 << 32 {
            cases.push(Case { kind: "itf8_range", class: "exhaustive".into(), len: step as usize, pseed: 0, part: (0, 1), r4x8: false, lo });
            lo += step;
        }
    }
    // `only=<kind>` keeps one kind of case (debugging aid; floors are not applied then)
    if let Some(k) = ctx.param("only") {
        cases.retain(|c| c.kind == k);
    }
    // interleave heavy and light cases across the shards
    let mut rng = Rng::new(0xC08, 81, 0);
    rng.shuffle(&mut cases);
    cases
}

// ------------------------------------------------------------------------------------------------
// evidence post-processing
// ------------------------------------------------------------------------------------------------

/// Folds the per-run counters `L~cfg~len`, `X~cfg`, `J~cfg~reason`, `N~cfg` into one table per
/// codec x configuration: cases, distinct lengths covered, cross-decoded cases, rejections.
fn summarise(rep: &mut Report) {
    let mut per: std::collections::BTreeMap<String, Map<String, Value>> = Default::default();
    let mut lens: std::collections::BTreeMap<String, Vec<u64>> = Default::default();
    let keys: Vec<String> = rep.counters.keys().filter(|k| k.len() > 2 && &k[1..2] == "~" && "LXJN".contains(&k[..1])).cloned().collect();
    let mut by_codec: std::collections::BTreeMap<String, [u64; 4]> = Default::default();
    for k in keys {
        let n = rep.counters.remove(&k).unwrap();
        let mut it = k.splitn(3, '~');
        let tag = it.next().unwrap();
        let cfg = it.next().unwrap().to_string();
        let rest = it.next().unwrap_or("");
        let codec = cfg.split(':').next().unwrap().to_string();
        let e = per.entry(cfg.clone()).or_default();
        let add = |e: &mut Map<String, Value>, key: &str, n: u64| {
            let cur = e.get(key).and_then(|v| v.as_u64()).unwrap_or(0);
            e.insert(key.to_string(), json!(cur + n));
        };
        let bc = by_codec.entry(codec).or_default();
        match tag {
            "L" => {
                add(e, "cases", n);
                bc[0] += n;
                lens.entry(cfg).or_default().push(rest.parse().unwrap_or(0));
            }
            "X" => {
                add(e, "cross_decoded", n);
                bc[1] += n;
            }
            "J" => {
                add(e, &format!("encoder_rejected[{rest}]"), n);
                bc[2] += n;
            }
            "N" => {
                add(e, "encoder_normalised_flags", n);
                bc[3] += n;
            }
            _ => {}
        }
    }
    for (cfg, mut l) in lens {
        l.sort_unstable();
        l.dedup();
        let e = per.entry(cfg).or_default();
        e.insert("lengths_covered".into(), json!(l.len()));
        e.insert("min_len".into(), json!(l.first()));
        e.insert("max_len".into(), json!(l.last()));
    }
    for (codec, v) in &by_codec {
        rep.counters.insert(format!("round_trips[{codec}]"), v[0]);
        if v[1] > 0 {
            rep.counters.insert(format!("cross_decoded[{codec}]"), v[1]);
        }
        if v[2] > 0 {
            rep.counters.insert(format!("encoder_rejected[{codec}]"), v[2]);
        }
        if v[3] > 0 {
            rep.counters.insert(format!("encoder_normalised_flags[{codec}]"), v[3]);
        }
    }
    let total: u64 = by_codec.values().map(|v| v[0]).sum();
    rep.counters.insert("codec_round_trips".into(), total);
    rep.counters.insert("codec_configurations".into(), per.len() as u64);
    rep.extra.insert("per_codec_configuration".into(), Value::Object(per.into_iter().map(|(k, v)| (k, Value::Object(v))).collect()));
}

fn main() {
    let ctx = Ctx::from_args();
    let ctx = vcore::cases::replay_request(&ctx).map(|r| r.1).unwrap_or(ctx);
    let mut rep = Report::new(
        "case = one payload (class x length x seed) pushed through every codec configuration (rANS 4x8 o0/o1, rANS Nx16 x 128 flag \
         subsets, AAC x 128 flag subsets, fqzcomp x 7 partition styles, gzip/bzip2/lzma levels; long payloads are split into parts \
         that each run a residue class of the configurations), or one name list (family x count, NUL-terminated and NUL-separated \
         framing), or one quality-record set, or one batch of integers; evaluations = codec round trips + integer values checked; \
         distinct = distinct (codec, requested configuration, payload class / name family, length or count) plus one per integer \
         batch; every case is non-trivial (the empty input is a case of the property)",
    );
    rep.assumptions.push(
        "independent rANS 4x8 / Nx16 decoders and ITF8/LTF8/uint7 reference codecs were written from the CRAM 3.x / CRAM codecs \
         specification as reconstructed from memory of its pseudocode and of the htscodecs reference behaviour (no network, no copy of \
         the documents in the sandbox); they are validated at every start against 8 known-answer streams that noodles' encoder did not \
         produce (reference-implementation vectors: un-normalised tables needing the power-of-two shift, a 10-bit order-1 table, rANS \
         compressed RLE meta data, stripe sub-streams carrying their own size, a 4x8 order-1 table normalised to 4096); those features \
         are never emitted by noodles' encoder, so for them the cross-decoding says nothing about noodles. Left-over bytes after the last \
         symbol are not judged. No Nx16 flag subset had to be dropped from cross-decoding: on the unchanged tree every disagreement \
         between the independent decoder and noodles' stream coincides with a failure of noodles' own decoder on the same stream"
            .into(),
    );
    rep.assumptions.push(
        "a stream that the specification decoder cannot read is additionally read by a 'dialect' variant of the same decoder that \
         inverts the known defects of noodles' encoder (findings/C08.known); only if that variant reproduces the input exactly is the \
         failure reported under the known defect's signature, every other failure keeps a generic narrow signature. Token streams \
         inside a name tokenizer block have no independently known content: a byte string X counts as the content of a stream iff \
         noodles' deterministic rans_nx16 encoder maps X to exactly that stream; the specification decoder must then return X"
            .into(),
    );
    rep.assumptions.push(
        "name lists: names are non-empty, NUL-free, over [!-?A-~], at most 254 bytes; comparison on the list of names (one trailing NUL \
         not significant); fqzcomp partitions have only positive record lengths (the empty input is given the empty partition)"
            .into(),
    );
    rep.assumptions.push("AAC, fqzcomp, name tokenizer, gzip, bzip2, lzma: self round trip only (no independent decoder)".into());
    match refrans::self_check() {
        Ok(n) => {
            rep.counters.insert("independent_decoder_known_answer_streams".into(), n as u64);
        }
        Err(e) => rep.floors_unmet.push(format!("independent rANS decoder fails its known-answer self check: {e}")),
    }
    let cases = gen_cases(&ctx);
    let f = |i: u64| -> CaseOut {
        let c = &cases[i as usize];
        let mut o = run_case(c);
        if i % 997 == 0 {
            o.sample = Some(case_json(c));
        }
        o
    };
    run_cases(&ctx, &mut rep, cases.len() as u64, 120.0, &f, &|i| case_json(&cases[i as usize]));
    summarise(&mut rep);
    if ctx.replay.is_none() {
        let reduced = ctx.param("cases").is_some() || ctx.param("only").is_some();
        let counters = rep.counters.clone();
        let g = |k: &str| counters.get(k).copied().unwrap_or(0);
        if !reduced {
            rep.floor("codec_round_trips", g("codec_round_trips"), 50_000);
            rep.floor("cross_decoded[r4x8]", g("cross_decoded[r4x8]"), 2_000);
            rep.floor("cross_decoded[nx16]", g("cross_decoded[nx16]"), 20_000);
            rep.floor("round_trips[aac]", g("round_trips[aac]"), 20_000);
            rep.floor("round_trips[fqz]", g("round_trips[fqz]"), 1_000);
            rep.floor("round_trips[tok]", g("round_trips[tok]"), 500);
            rep.floor("itf8_values_checked", g("itf8_values_checked"), 1 << 20);
            rep.floor("ltf8_values_checked", g("ltf8_values_checked"), 1 << 20);
            rep.floor("uint7_values_checked", g("uint7_values_checked"), 1 << 20);
        }
        let ex = g("itf8_exhaustive_range_values");
        if ctx.budget("itf8_exhaustive", 0, 1) == 1 {
            rep.extra.insert("itf8_exhaustive".into(), json!(ex == 1u64 << 32));
            if ex != 1u64 << 32 {
                rep.floors_unmet.push(format!("ITF8 exhaustive sub-space incomplete: {ex} of 2^32 values checked"));
            }
        } else {
            rep.extra.insert("itf8_exhaustive".into(), json!(false));
        }
    }
    rep.finish(&ctx);
}
