//! Generators private to C08: payload classes aimed at frequency normalisation / table
//! serialisation / interleave tails, read-name families for the name tokenizer and record-length
//! partitions for fqzcomp. Everything is a pure function of the `Rng` handed in.

use vcore::{Rng, payload};

/// Extra payload classes (on top of `vcore::payload::CLASSES`).
pub const EXTRA_CLASSES: &[&str] = &[
    "rare_one",      // one symbol everywhere, a second symbol exactly once (1 : len-1 skew, up to 1 : 10^6)
    "skew_1e5",      // two symbols, the rare one with probability 1e-5 but at least once
    "all256_dom",    // every one of the 256 symbols once, the rest one dominant symbol (normalisation must steal)
    "all256_two_dom", // same with two equally frequent dominant symbols (tie for the maximum)
    "sym1_no0",      // small alphabet starting at symbol 1, symbol 0 absent
    "top_syms",      // alphabet 253,254,255 (+ a few): consecutive symbols up to the end of the byte range
    "consecutive",   // alphabet = one block of consecutive symbols a..a+k
    "two_blocks",    // alphabet = two blocks of consecutive symbols separated by a gap of one
    "few_syms",      // exactly k distinct symbols, k in {1,2,3,4,5,16,17} (bit-packing boundaries)
    "alt2",          // two symbols strictly alternating (no runs at all)
    "longrun",       // one run covering nearly everything, run lengths at the uint7 boundaries
    "once_ctx",      // a permutation of all symbols repeated with different permutations: most order-1 contexts occur once
    "unique_last",   // dna-like, the last byte is a symbol that occurs nowhere else (context with empty table)
    "rares_many",    // 1 dominant symbol + ~200 symbols occurring once each, in random places
    "all256_runs",   // every one of the 256 byte values in runs of 2..=6: with an RLE transform ALL 256 symbols are run symbols (count stored as 0)
];

pub fn all_classes() -> Vec<&'static str> {
    let mut v: Vec<&'static str> = payload::CLASSES.to_vec();
    v.extend_from_slice(EXTRA_CLASSES);
    v
}

pub fn make(class: &str, len: usize, rng: &mut Rng) -> Vec<u8> {
    if payload::CLASSES.contains(&class) {
        return payload::make(class, len, rng);
    }
    let mut v: Vec<u8> = Vec::with_capacity(len);
    match class {
        "rare_one" => {
            let a = rng.next_u32() as u8;
            let b = a.wrapping_add(1 + rng.below(255) as u8);
            v.resize(len, a);
            if len > 0 {
                let p = rng.usize_below(len);
                v[p] = b;
            }
        }
        "skew_1e5" => {
            let a = rng.next_u32() as u8;
            let b = a.wrapping_add(1 + rng.below(255) as u8);
            v.resize(len, a);
            let mut any = false;
            for x in v.iter_mut() {
                if rng.chance(1, 100_000) {
                    *x = b;
                    any = true;
                }
            }
            if !any && len > 1 {
                let p = rng.usize_below(len);
                v[p] = b;
            }
        }
        "all256_dom" | "all256_two_dom" => {
            let d1 = rng.next_u32() as u8;
            let d2 = if class == "all256_two_dom" { d1.wrapping_add(1 + rng.below(255) as u8) } else { d1 };
            for i in 0..len {
                v.push(if i % 2 == 0 { d1 } else { d2 });
            }
            // scatter each of the 256 symbols once (as far as the length allows)
            let mut perm: Vec<u8> = (0..=255).collect();
            rng.shuffle(&mut perm);
            let mut places: Vec<usize> = (0..len).collect();
            rng.shuffle(&mut places);
            for (k, &p) in places.iter().take(256).enumerate() {
                v[p] = perm[k];
            }
        }
        "sym1_no0" => {
            let k = rng.urange(1, 6) as u8;
            for _ in 0..len {
                v.push(1 + rng.below(k as u64) as u8);
            }
            if len > 0 {
                v[rng.usize_below(len)] = 1;
            }
        }
        "top_syms" => {
            let extra = rng.below(3) as u8;
            for _ in 0..len {
                let r = rng.below(10);
                v.push(if r < 9 { 253 + (r % 3) as u8 } else { 40 * extra + 7 });
            }
        }
        "consecutive" => {
            let k = rng.urange(2, 40) as u64;
            let a = rng.below(256 - k) as u8;
            for _ in 0..len {
                v.push(a + rng.below(k) as u8);
            }
        }
        "two_blocks" => {
            let k1 = rng.urange(1, 5) as u64;
            let k2 = rng.urange(1, 5) as u64;
            let a = rng.below(240) as u8;
            let b = a + k1 as u8 + 1; // gap of exactly one missing symbol
            for _ in 0..len {
                v.push(if rng.bool() { a + rng.below(k1) as u8 } else { b + rng.below(k2) as u8 });
            }
        }
        "few_syms" => {
            let k = *rng.pick(&[1usize, 2, 3, 4, 5, 16, 17]);
            let mut alpha: Vec<u8> = (0..=255).collect();
            rng.shuffle(&mut alpha);
            alpha.truncate(k);
            for i in 0..len {
                // make sure all k symbols occur when the length allows
                v.push(if i < k { alpha[i] } else { alpha[rng.usize_below(k)] });
            }
            rng.shuffle(&mut v);
        }
        "alt2" => {
            let a = rng.next_u32() as u8;
            let b = a.wrapping_add(1 + rng.below(255) as u8);
            for i in 0..len {
                v.push(if i % 2 == 0 { a } else { b });
            }
        }
        "longrun" => {
            let runs = [127usize, 128, 129, 255, 256, 257, 16383, 16384, 16385, 3, 4, 5];
            let mut s = rng.next_u32() as u8;
            while v.len() < len {
                let n = *rng.pick(&runs);
                let n = if rng.chance(1, 3) { len - v.len() } else { n };
                for _ in 0..n.min(len - v.len()) {
                    v.push(s);
                }
                s = s.wrapping_add(1 + rng.below(3) as u8);
                if rng.chance(1, 2) && v.len() < len {
                    v.push(rng.next_u32() as u8);
                }
            }
            v.truncate(len);
        }
        "once_ctx" => {
            while v.len() < len {
                let mut perm: Vec<u8> = (0..=255).collect();
                rng.shuffle(&mut perm);
                v.extend_from_slice(&perm);
            }
            v.truncate(len);
        }
        "unique_last" => {
            for _ in 0..len {
                v.push(b"ACGT"[rng.usize_below(4)]);
            }
            if len > 0 {
                v[len - 1] = *rng.pick(&[0u8, 1, b'N', 255]);
            }
        }
        "rares_many" => {
            let d = rng.next_u32() as u8;
            v.resize(len, d);
            let mut perm: Vec<u8> = (0..=255).collect();
            rng.shuffle(&mut perm);
            let n = rng.urange(150, 255).min(len);
            let mut places: Vec<usize> = (0..len).collect();
            rng.shuffle(&mut places);
            for k in 0..n {
                v[places[k]] = perm[k];
            }
        }
        "all256_runs" => {
            while v.len() < len {
                let mut perm: Vec<u8> = (0..=255).collect();
                rng.shuffle(&mut perm);
                let r = rng.urange(2, 6).max(2);
                for s in perm {
                    for _ in 0..r {
                        v.push(s);
                    }
                }
            }
            v.truncate(len);
        }
        _ => panic!("unknown payload class {class}"),
    }
    debug_assert_eq!(v.len(), len);
    v
}

/// Every length 0..=70, then boundary-dense lengths around the 4- and 32-way interleaves, the uint7
/// size boundaries and the powers of two up to `max`.
pub fn lengths(max: usize) -> Vec<usize> {
    let mut v: Vec<usize> = (0..=70).collect();
    for b in [
        96usize, 100, 128, 160, 256, 512, 1000, 1024, 4096, 16384, 65536, 262144, 1 << 20,
    ] {
        for d in [-1i64, 0, 1] {
            v.push((b as i64 + d) as usize);
        }
    }
    v.push(2 * 65536 + 3);
    v.retain(|&l| l <= max);
    v.sort_unstable();
    v.dedup();
    v
}

pub fn len_class(len: usize) -> &'static str {
    match len {
        0 => "0",
        1..=3 => "1-3",
        4..=31 => "4-31",
        32..=255 => "32-255",
        256..=4095 => "256-4095",
        4096..=65535 => "4096-65535",
        _ => ">=65536",
    }
}

// ------------------------------------------------------------------------------------------------
// fqzcomp record-length partitions
// ------------------------------------------------------------------------------------------------

pub const PARTITIONS: &[&str] = &["single", "fixed", "fixed_tail", "variable", "ones", "two_lengths", "long_first"];

/// A partition of `len` bytes into record lengths (all > 0; the empty input gets the empty list).
pub fn partition(kind: &str, len: usize, rng: &mut Rng) -> Vec<usize> {
    if len == 0 {
        return Vec::new();
    }
    let mut out = Vec::new();
    let mut left = len;
    let mut push = |n: usize, left: &mut usize| {
        let n = n.clamp(1, *left);
        out.push(n);
        *left -= n;
    };
    match kind {
        "single" => push(len, &mut left),
        "fixed" => {
            // a divisor of len when there is a reasonable one, so that every record has the same length
            let cands: Vec<usize> = (1..=len.min(300)).filter(|d| len % d == 0).collect();
            let l = *rng.pick(&cands);
            while left > 0 {
                push(l, &mut left)
            }
        }
        "fixed_tail" => {
            let l = rng.urange(1, len.min(300));
            while left > 0 {
                push(l, &mut left)
            }
        }
        "variable" => {
            while left > 0 {
                let n = rng.skewed(400) as usize + 1;
                push(n, &mut left)
            }
        }
        "ones" => {
            if len > 5000 {
                // keep it bounded: mostly ones, then the rest
                for _ in 0..5000 {
                    push(1, &mut left);
                }
                push(left, &mut left);
            } else {
                while left > 0 {
                    push(1, &mut left)
                }
            }
        }
        "two_lengths" => {
            let a = rng.urange(1, 160);
            let b = rng.urange(1, 160);
            while left > 0 {
                let n = if rng.bool() { a } else { b };
                push(n, &mut left)
            }
        }
        "long_first" => {
            // first record longer than 128 / 1023 (position table scaling and clamping)
            let n = *rng.pick(&[129usize, 200, 1023, 1024, 1025, 3000]);
            push(n, &mut left);
            while left > 0 {
                let n = rng.urange(1, 200);
                push(n, &mut left)
            }
        }
        _ => panic!("unknown partition {kind}"),
    }
    out
}

/// Quality strings the way sequencers produce them (several records, duplicates included).
pub fn quality_records(rng: &mut Rng, nrec: usize, style: &str) -> (Vec<usize>, Vec<u8>) {
    let mut lens = Vec::new();
    let mut data = Vec::new();
    let fixed = *rng.pick(&[1usize, 36, 75, 100, 101, 150, 151, 250]);
    let mut prev: Vec<u8> = Vec::new();
    for r in 0..nrec {
        let l = match style {
            "fixed" => fixed,
            "variable" => rng.urange(1, 300),
            "mixed" => {
                if rng.chance(1, 10) {
                    rng.urange(1, 400)
                } else {
                    fixed
                }
            }
            _ => fixed,
        };
        let rec: Vec<u8> = if r > 0 && rng.chance(1, 6) && (style != "fixed" || prev.len() == l) {
            prev.clone() // duplicate of the previous record
        } else {
            match rng.below(4) {
                0 => payload::make("qualities", l, rng),
                1 => {
                    // binned qualities (NovaSeq-like)
                    (0..l).map(|_| *rng.pick(&[2u8, 12, 23, 37])).collect()
                }
                2 => {
                    // high, then decaying
                    let mut q = 40i64;
                    (0..l)
                        .map(|_| {
                            if rng.chance(1, 8) {
                                q = (q - rng.range(0, 6)).max(2)
                            }
                            q as u8
                        })
                        .collect()
                }
                _ => vec![rng.below(94) as u8; l],
            }
        };
        lens.push(rec.len());
        data.extend_from_slice(&rec);
        prev = rec;
    }
    (lens, data)
}

// ------------------------------------------------------------------------------------------------
// read-name families
// ------------------------------------------------------------------------------------------------

pub const NAME_FAMILIES: &[&str] = &[
    "illumina", "illumina_pairs", "srr", "padded", "pad_then_unpadded", "unpadded_then_pad", "width_change",
    "delta_edges", "negative_delta", "dups_near", "dups_far", "dup_of_first", "token_counts", "single",
    "single_char", "long_digits", "u32_edge", "zeros", "punct", "random_printable", "mixed", "digits_only",
    "alnum_glued", "many_tokens",
];

const NAME_CHARS: &[u8] = b"!\"#$%&'()*+,-./0123456789:;<=>?ABCDEFGHIJKLMNOPQRSTUVWXYZ[\\]^_`abcdefghijklmnopqrstuvwxyz{|}~";

fn rand_name(rng: &mut Rng, max: usize) -> Vec<u8> {
    let n = rng.urange(1, max);
    (0..n).map(|_| *rng.pick(NAME_CHARS)).collect()
}

/// A list of non-empty read names over `[!-?A-~]`, each at most 254 bytes.
pub fn names(family: &str, count: usize, rng: &mut Rng) -> Vec<Vec<u8>> {
    let count = count.max(1);
    let mut out: Vec<Vec<u8>> = Vec::with_capacity(count);
    let s = |x: String| x.into_bytes();
    match family {
        "illumina" | "illumina_pairs" => {
            let inst = format!("A{:05}", rng.below(100000));
            let run = rng.below(500);
            let fc = "HXXYZCCXY";
            let mut lane = 1 + rng.below(8);
            let mut tile = 1101 + rng.below(50);
            let mut x = rng.below(30000);
            let mut y = rng.below(3000);
            while out.len() < count {
                match rng.below(20) {
                    0 => {
                        tile += 1;
                        x = rng.below(2000);
                    }
                    1 => lane = 1 + rng.below(8),
                    _ => {}
                }
                x += rng.skewed(400);
                y = if rng.chance(1, 3) { y + rng.below(300) } else { rng.below(100000) };
                let n = format!("{inst}:{run}:{fc}:{lane}:{tile}:{x}:{y}");
                if family == "illumina_pairs" {
                    out.push(s(n.clone()));
                    if out.len() < count {
                        out.push(s(n));
                    }
                } else {
                    out.push(s(n));
                }
            }
        }
        "srr" => {
            let acc = 100000 + rng.below(900000);
            let mut i = rng.below(1000);
            while out.len() < count {
                i += 1 + rng.skewed(300);
                out.push(s(format!("SRR{acc}.{i}")));
            }
        }
        "padded" => {
            let w = rng.urange(2, 12);
            let mut i = rng.below(50);
            while out.len() < count {
                i += rng.skewed(300);
                out.push(s(format!("read_{:0w$}/1", i, w = w)));
            }
        }
        "pad_then_unpadded" => {
            // "r:5" then "r:007": a zero-padded number after a plain one
            let mut i = rng.below(9) + 1;
            while out.len() < count {
                if out.len() % 2 == 0 {
                    out.push(s(format!("r:{i}")));
                } else {
                    out.push(s(format!("r:{:03}", i + rng.below(5))));
                }
                i += rng.below(3);
            }
        }
        "unpadded_then_pad" => {
            let mut i = rng.below(9) + 1;
            while out.len() < count {
                if out.len() % 2 == 0 {
                    out.push(s(format!("q.{:04}.x", i)));
                } else {
                    out.push(s(format!("q.{}.x", i + 10 + rng.below(5))));
                }
                i += rng.below(3);
            }
        }
        "width_change" => {
            // zero padded numbers whose width changes: 08, 09, 010, 0011
            let mut i = 95 + rng.below(10);
            while out.len() < count {
                let w = rng.urange(1, 6);
                out.push(s(format!("w-{:0w$}", i, w = w)));
                i += rng.below(4);
            }
        }
        "delta_edges" => {
            let mut i = rng.below(1000);
            while out.len() < count {
                out.push(s(format!("d:{i}:{:05}", i % 100000)));
                i += *rng.pick(&[0u64, 1, 254, 255, 256, 257, 65535, 65536]);
            }
        }
        "negative_delta" => {
            let mut i = 1_000_000 + rng.below(1000);
            while out.len() < count {
                out.push(s(format!("n_{i}_{:06}", i)));
                i = i.saturating_sub(rng.below(300));
            }
        }
        "dups_near" => {
            while out.len() < count {
                if !out.is_empty() && rng.chance(1, 2) {
                    let k = out.len() - 1 - rng.usize_below(out.len().min(3));
                    out.push(out[k].clone());
                } else {
                    out.push(s(format!("dup:{}:{:03}", rng.below(50), rng.below(20))));
                }
            }
        }
        "dups_far" => {
            let pool: Vec<Vec<u8>> = (0..rng.urange(2, 8)).map(|k| s(format!("pool{k}:{}:x", rng.below(1000)))).collect();
            while out.len() < count {
                out.push(rng.pick(&pool).clone());
            }
        }
        "dup_of_first" => {
            let first = s(format!("first:{:04}:{}", rng.below(100), rng.below(100)));
            out.push(first.clone());
            while out.len() < count {
                if rng.chance(1, 2) {
                    out.push(first.clone());
                } else {
                    out.push(s(format!("first:{:04}:{}", rng.below(100), rng.below(100))));
                }
            }
        }
        "token_counts" => {
            while out.len() < count {
                let k = rng.urange(1, 9);
                let mut n = String::new();
                for t in 0..k {
                    if t > 0 {
                        n.push(*rng.pick(&[':', '.', '_', '/', '-']));
                    }
                    match rng.below(4) {
                        0 => n.push_str(&format!("{}", rng.below(300))),
                        1 => n.push_str(&format!("{:04}", rng.below(300))),
                        2 => n.push_str(*rng.pick(&["a", "bc", "read", "X"])),
                        _ => n.push_str(&format!("{}", 1000 + out.len())),
                    }
                }
                out.push(s(n));
            }
        }
        "single" => {
            out.push(s(format!("only:{}:{:03}:name", rng.below(100000), rng.below(100))));
        }
        "single_char" => {
            out.push(vec![*rng.pick(NAME_CHARS)]);
        }
        "long_digits" => {
            while out.len() < count {
                let k = *rng.pick(&[9usize, 10, 11, 19, 20, 21, 40, 100, 200]);
                let lead = rng.chance(1, 3);
                let mut d: Vec<u8> = (0..k).map(|_| b'0' + rng.below(10) as u8).collect();
                d[0] = if lead { b'0' } else { b'1' + rng.below(9) as u8 };
                let mut n = b"L:".to_vec();
                n.extend_from_slice(&d);
                n.extend_from_slice(b":e");
                out.push(n);
            }
        }
        "u32_edge" => {
            let vals: &[&str] = &[
                "4294967294", "4294967295", "4294967296", "4294967297", "04294967295", "04294967296", "4294967040",
                "2147483647", "2147483648", "0", "00", "000000000000", "9999999999", "4294967295",
            ];
            while out.len() < count {
                out.push(s(format!("u.{}.{}", rng.pick(vals), rng.pick(vals))));
            }
        }
        "zeros" => {
            while out.len() < count {
                let k = rng.urange(1, 12);
                out.push(s(format!("z:{}:{}", "0".repeat(k), rng.below(3))));
            }
        }
        "punct" => {
            while out.len() < count {
                let k = rng.urange(1, 10);
                let n: Vec<u8> = (0..k).map(|_| *rng.pick(b":./_-#")).collect();
                out.push(n);
            }
        }
        "random_printable" => {
            while out.len() < count {
                let m = if rng.chance(1, 10) { 254 } else { 40 };
                out.push(rand_name(rng, m));
            }
        }
        "digits_only" => {
            let mut i = rng.below(100000);
            while out.len() < count {
                i += rng.below(400);
                out.push(s(if rng.chance(1, 4) { format!("{:08}", i) } else { format!("{i}") }));
            }
        }
        "alnum_glued" => {
            // digits glued to letters form one alphanumeric token
            let mut i = rng.below(1000);
            while out.len() < count {
                i += rng.below(5);
                out.push(s(format!("r{i}x{:03}:{}a", i % 1000, i)));
            }
        }
        "many_tokens" => {
            while out.len() < count {
                let k = rng.urange(20, 120);
                let mut n = String::new();
                for t in 0..k {
                    if t > 0 {
                        n.push(':');
                    }
                    n.push_str(&format!("{}", rng.below(10)));
                }
                n.truncate(254);
                out.push(s(n));
            }
        }
        "mixed" => {
            while out.len() < count {
                let fam = *rng.pick(NAME_FAMILIES);
                if fam == "mixed" {
                    continue;
                }
                let k = rng.urange(1, 6);
                let mut sub = rng.fork(out.len() as u64);
                out.extend(names(fam, k, &mut sub));
            }
        }
        _ => panic!("unknown name family {family}"),
    }
    if family != "single" && family != "single_char" {
        out.truncate(count);
    }
    for n in &out {
        debug_assert!(!n.is_empty() && n.len() <= 254 && !n.contains(&0));
    }
    out
}
