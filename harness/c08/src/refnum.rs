//! Reference ITF8 / LTF8 / uint7 codecs written from the CRAM specification (CRAM 3.x §2.3 "ITF-8",
//! "LTF-8"; CRAM codecs §1.x "7-bit variable length integers"). Independent of noodles.
//!
//! ITF8: the 32-bit two's complement pattern `v` is written in 1..5 bytes; the number of leading
//! 1 bits of the first byte says how many bytes follow; the 5-byte form keeps only the low 4 bits
//! of the last byte.
//! LTF8: the same scheme over 64 bits, 1..9 bytes, the 9-byte form is 0xFF + 8 value bytes.
//! uint7: big-endian base 128, most significant group first, bit 7 = "more follows", minimal length.

pub fn itf8_encode(n: i32, out: &mut Vec<u8>) {
    let v = n as u32;
    if v < 1 << 7 {
        out.push(v as u8);
    } else if v < 1 << 14 {
        out.push(0x80 | (v >> 8) as u8);
        out.push(v as u8);
    } else if v < 1 << 21 {
        out.push(0xC0 | (v >> 16) as u8);
        out.push((v >> 8) as u8);
        out.push(v as u8);
    } else if v < 1 << 28 {
        out.push(0xE0 | (v >> 24) as u8);
        out.push((v >> 16) as u8);
        out.push((v >> 8) as u8);
        out.push(v as u8);
    } else {
        out.push(0xF0 | ((v >> 28) & 0x0F) as u8);
        out.push((v >> 20) as u8);
        out.push((v >> 12) as u8);
        out.push((v >> 4) as u8);
        out.push((v & 0x0F) as u8);
    }
}

/// Returns (value, bytes consumed) or None if the input is too short.
pub fn itf8_decode(b: &[u8]) -> Option<(i32, usize)> {
    let b0 = *b.first()? as u32;
    let ones = (b0 as u8).leading_ones().min(4) as usize;
    if b.len() < 1 + ones {
        return None;
    }
    let x = |i: usize| b[i] as u32;
    let v = match ones {
        0 => b0,
        1 => (b0 & 0x3F) << 8 | x(1),
        2 => (b0 & 0x1F) << 16 | x(1) << 8 | x(2),
        3 => (b0 & 0x0F) << 24 | x(1) << 16 | x(2) << 8 | x(3),
        _ => (b0 & 0x0F) << 28 | x(1) << 20 | x(2) << 12 | x(3) << 4 | (x(4) & 0x0F),
    };
    Some((v as i32, 1 + ones))
}

pub fn ltf8_encode(n: i64, out: &mut Vec<u8>) {
    let v = n as u64;
    // number of bytes following the first one
    let extra = if v < 1 << 7 {
        0
    } else if v < 1 << 14 {
        1
    } else if v < 1 << 21 {
        2
    } else if v < 1 << 28 {
        3
    } else if v < 1 << 35 {
        4
    } else if v < 1 << 42 {
        5
    } else if v < 1 << 49 {
        6
    } else if v < 1 << 56 {
        7
    } else {
        8
    };
    if extra == 8 {
        out.push(0xFF);
    } else {
        // `extra` leading ones, then a zero bit, then the top value bits
        let prefix: u8 = if extra == 0 { 0 } else { !(0xFFu8 >> extra) };
        let top = if extra == 7 { 0 } else { (v >> (8 * extra)) as u8 };
        out.push(prefix | top);
    }
    for i in (0..extra).rev() {
        out.push((v >> (8 * i)) as u8);
    }
}

pub fn ltf8_decode(b: &[u8]) -> Option<(i64, usize)> {
    let b0 = *b.first()?;
    let ones = b0.leading_ones() as usize; // 0..=8
    if b.len() < 1 + ones {
        return None;
    }
    let mut v: u64 = if ones >= 7 { 0 } else { (b0 & (0x7F >> ones)) as u64 };
    for i in 0..ones {
        v = (v << 8) | b[1 + i] as u64;
    }
    Some((v as i64, 1 + ones))
}

pub fn uint7_encode(n: u32, out: &mut Vec<u8>) {
    let mut groups = 1;
    while groups < 5 && (n >> (7 * groups)) != 0 {
        groups += 1;
    }
    for g in (0..groups).rev() {
        let d = ((n >> (7 * g)) & 0x7F) as u8;
        out.push(if g > 0 { d | 0x80 } else { d });
    }
}

pub fn uint7_decode(b: &[u8]) -> Option<(u32, usize)> {
    let mut v: u64 = 0;
    for (i, &x) in b.iter().enumerate() {
        v = (v << 7) | (x & 0x7F) as u64;
        if x & 0x80 == 0 {
            return Some((v as u32, i + 1));
        }
        if i >= 9 {
            return None;
        }
    }
    None
}

#[cfg(test)]
mod tests {
    use super::*;

    #[test]
    fn spec_examples() {
        let mut v = Vec::new();
        itf8_encode(-1, &mut v);
        assert_eq!(v, [0xFF, 0xFF, 0xFF, 0xFF, 0x0F]);
        assert_eq!(itf8_decode(&v), Some((-1, 5)));
        v.clear();
        itf8_encode(0x3FFF, &mut v);
        assert_eq!(v, [0xBF, 0xFF]);
        v.clear();
        ltf8_encode(-1, &mut v);
        assert_eq!(v, [0xFF; 9]);
        assert_eq!(ltf8_decode(&v), Some((-1, 9)));
        v.clear();
        ltf8_encode(1 << 55, &mut v);
        assert_eq!(v, [0xFE, 0x80, 0, 0, 0, 0, 0, 0]);
        assert_eq!(ltf8_decode(&v), Some((1 << 55, 8)));
        v.clear();
        uint7_encode(300, &mut v);
        assert_eq!(v, [0x82, 0x2C]);
        assert_eq!(uint7_decode(&v), Some((300, 2)));
    }
}
