#[path = "../refnum.rs"]
mod refnum;
#[path = "../refrans.rs"]
mod refrans;
#[path = "../genc.rs"]
mod genc;
use noodles_cram::verif::codecs;
use std::collections::BTreeMap;

fn outcome(r: Result<std::io::Result<Vec<u8>>, guard::PanicInfo>, data: &[u8]) -> &'static str {
    match r { Err(_) => "PANIC", Ok(Err(_)) => "ERR", Ok(Ok(d)) => if d == data { "ok" } else { "MISMATCH" } }
}

fn scan() {
    let classes = genc::all_classes();
    let mut lens: Vec<usize> = (0..=70).collect();
    lens.extend([96, 127, 128, 129, 255, 256, 257, 1000, 4096, 5000]);
    let mut tab: BTreeMap<String, (u64, usize, String)> = BTreeMap::new();
    let mut add = |k: String, data: &[u8], extra: String| {
        let e = tab.entry(k).or_insert((0, usize::MAX, String::new()));
        e.0 += 1;
        if data.len() < e.1 { e.1 = data.len(); e.2 = format!("{} {}", extra, hex(&data[..data.len().min(80)])); }
    };
    for class in &classes { for &len in &lens { for seed in 0..3u64 {
        let mut rng = vcore::Rng::new(seed * 7919 + len as u64, 8, 0);
        let data = genc::make(class, len, &mut rng);
        for o in 0..2u8 {
            let order = if o == 0 { codecs::rans_4x8::Order::Zero } else { codecs::rans_4x8::Order::One };
            let enc = match guard::catch(|| codecs::rans_4x8::encode(order, &data)) { Ok(Ok(e)) => e, Ok(Err(_)) => continue, Err(_) => { add(format!("r4x8 o{o} ENCODE PANIC"), &data, String::new()); continue } };
            let s = outcome(guard::catch(|| codecs::rans_4x8::decode(&enc)), &data);
            let x = match refrans::decode_4x8(&enc) { Ok(d) => if d == data { "ok".to_string() } else { "MISMATCH".into() }, Err(e) => e };
            let t = match refrans::decode_4x8_dialect(&enc) { Ok((d, n)) if d == data => n.join("+"), _ => "DIALECT-FAILS".into() };
            add(format!("r4x8 o{o} trig={t} self={s} xdec={x}"), &data, format!("{class}"));
        }
        for k in 0..128u32 {
            let mut f = 0u8;
            for (i, b) in [0x01u8, 0x04, 0x08, 0x10, 0x20, 0x40, 0x80].iter().enumerate() { if k >> i & 1 == 1 { f |= b; } }
            let enc = match guard::catch(|| codecs::rans_nx16::encode(codecs::rans_nx16::Flags::from(f), &data)) { Ok(Ok(e)) => e, Ok(Err(_)) => continue, Err(_) => { add(format!("nx16 ENCODE PANIC"), &data, String::new()); continue } };
            let s = outcome(guard::catch(|| codecs::rans_nx16::decode(&enc, data.len())), &data);
            let x = match refrans::decode_nx16(&enc, Some(data.len())) { Ok(d) => if d == data { "ok".to_string() } else { "MISMATCH".into() }, Err(e) => e };
            let t = match refrans::decode_nx16_dialect(&enc, Some(data.len())) { Ok((d, n)) if d == data => n.join("+"), _ => "DIALECT-FAILS".into() };
            let eff = enc[0] & !0x10;
            let stage = format!("{}{}{}{}{}{}", if eff&1!=0 {"O1"} else {"O0"}, if eff&4!=0 {"|N32"} else {""}, if eff&8!=0 {"|STRIPE"} else {""}, if eff&0x20!=0 {"|CAT"} else {""}, if eff&0x40!=0 {"|RLE"} else {""}, if eff&0x80!=0 {"|PACK"} else {""});
            add(format!("nx16 trig={t} self={s} xdec={x} eff={stage}"), &data, format!("{class} req={f:#x}"));
        }
    }}}
    for (k, v) in &tab { println!("{:7} {}   [min len {}: {}]", v.0, k, v.1, v.2); }
}

use vcore::{guard, report::{hex, unhex}};

fn main() {
    let args: Vec<String> = std::env::args().collect();
    if args[1] == "scan" { scan(); return; }
    let codec = args[1].as_str();
    let flags: u8 = args[2].parse().unwrap();
    let data = if args[3].starts_with("s:") { args[3][2..].as_bytes().to_vec() } else { unhex(&args[3]) };
    println!("input  {} ({} bytes)", hex(&data), data.len());
    let enc = guard::catch(|| match codec {
        "r4x8" => codecs::rans_4x8::encode(if flags == 0 { codecs::rans_4x8::Order::Zero } else { codecs::rans_4x8::Order::One }, &data),
        "nx16" => codecs::rans_nx16::encode(codecs::rans_nx16::Flags::from(flags), &data),
        "aac" => codecs::aac::encode(codecs::aac::Flags::from(flags), &data),
        "tok" => codecs::name_tokenizer::encode(&data),
        _ => panic!(),
    });
    let enc = match enc { Ok(Ok(e)) => e, other => { println!("encode: {other:?}"); return; } };
    println!("encoded {} ({} bytes)", hex(&enc), enc.len());
    let dec = guard::catch(|| match codec {
        "r4x8" => codecs::rans_4x8::decode(&enc),
        "nx16" => codecs::rans_nx16::decode(&enc, data.len()),
        "aac" => codecs::aac::decode(&enc, data.len()),
        "tok" => codecs::name_tokenizer::decode(&enc),
        _ => panic!(),
    });
    match &dec { Ok(Ok(d)) => println!("noodles decode: {} {}", if *d == data {"OK"} else {"MISMATCH"}, hex(d)), other => println!("noodles decode: {other:?}") }
    let x = match codec { "r4x8" => Some(refrans::decode_4x8(&enc)), "nx16" => Some(refrans::decode_nx16(&enc, Some(data.len()))), _ => None };
    if let Some(x) = x { match &x { Ok(d) => println!("ref decode: {} {}", if *d == data {"OK"} else {"MISMATCH"}, hex(d)), Err(e) => println!("ref decode: Err({e})") } }
}
