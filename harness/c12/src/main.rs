//! C12 — decoded content does not depend on how the underlying stream chunks its reads.
//!
//! Monitor: for every corpus item of every kind (plus CRLF / no-final-EOL / UTF-8 / malformed derivatives built
//! here) and every reading API ("variant") of that kind, the canonical transcript driver of the `corpus` crate is
//! run once on the plain slice (the oracle) and then once per *delivery schedule* on the same bytes served by
//! `vcore::adv::ChunkedRead`: short reads (1 byte, fixed k, random 1..=k, cut at / around every structural
//! boundary), finite `ErrorKind::Interrupted` injections (at most one per source offset), `std::io::BufReader`s of
//! capacity 1..65536 and the adversary used directly as the `BufRead` (tiny `fill_buf` windows). The transcripts
//! (headers, records, byte digests, virtual positions, index values, `ERR:<kind>` / `END`) must be identical.
//!
//! Readers that sit on top of a `bgzf::io::Reader` (BAM, BCF, SAM.gz, VCF.gz, CSI, tabix) never see the chunking of
//! the file (the BGZF layer reads whole blocks with `read_exact`); what they see is a short read at every block
//! end. For them the inflated payload is additionally re-compressed into members of k payload bytes by the
//! independent encoder and the transcripts are compared without the virtual positions (`reblocked`).
//! `fasta::io::Reader::query` (seek + `read_sequence_limit`) has its own driver here.
//!
//! A difference is diagnosed by re-running the schedule without the interrupts and, for `BufReader` schedules,
//! with a source that never delivers short: the signature is
//! `<kind>:<reading API>:<interrupted|capacity|short-read|reblocked>:<class of the first difference>` — e.g.
//! `record-differs`, `record-became-end`, `body-became-error(Interrupted)` — with the class collapsed to
//! `differs@malformed` on malformed input, so that a finding on malformed input never covers valid input.

use std::{
    collections::BTreeSet,
    io::{self, BufRead, Read},
    sync::Arc,
};

use corpus::{Item, Kind, Side, Variant};
use serde_json::json;
use vcore::{
    CaseOut, Ctx, Report, Rng,
    adv::{ChunkedRead, Sizes},
    guard,
    rng::fnv1a,
    run_cases,
};

// ------------------------------------------------------------------------------------------------
// inputs

#[derive(Clone, Debug)]
struct Input {
    kind: Kind,
    name: String,
    bytes: Arc<Vec<u8>>,
    side: Side,
    /// structural boundaries (sorted, with 0 and len)
    bounds: Vec<usize>,
    /// "valid" (corpus item), "derived" (CRLF / no final EOL / UTF-8 / known-problem item), "malformed"
    class: &'static str,
}

fn to_crlf(b: &[u8]) -> Vec<u8> {
    let mut v = Vec::with_capacity(b.len() + b.len() / 20);
    for (i, &c) in b.iter().enumerate() {
        if c == b'\n' && (i == 0 || b[i - 1] != b'\r') {
            v.push(b'\r');
        }
        v.push(c);
    }
    v
}

fn is_text(kind: Kind) -> bool {
    matches!(kind, Kind::Sam | Kind::Vcf | Kind::Fasta | Kind::Fastq | Kind::Gff | Kind::Gtf | Kind::Bed | Kind::Fai | Kind::FastqFai)
}

fn mk_input(kind: Kind, name: String, bytes: Vec<u8>, side: &Side, class: &'static str) -> Input {
    let item = Item { kind, name, bytes, side: side.clone() };
    let bounds = corpus::boundaries(&item);
    Input { kind, name: item.name, bytes: Arc::new(item.bytes), side: item.side, bounds, class }
}

/// Start of the first chunk record of a BAI file (a position whose corruption cannot change a count).
fn bai_first_chunk(b: &[u8]) -> Option<usize> {
    let u32le = |p: usize| b.get(p..p + 4).map(|s| u32::from_le_bytes([s[0], s[1], s[2], s[3]]));
    if b.get(..4)? != b"BAI\x01" {
        return None;
    }
    let n_ref = u32le(4)?;
    let mut q = 8usize;
    for _ in 0..n_ref {
        let n_bin = u32le(q)?;
        q += 4;
        for _ in 0..n_bin {
            let n_chunk = u32le(q + 4)?;
            if n_chunk > 0 {
                return Some(q + 8);
            }
            q += 8;
        }
        let n_intv = u32le(q)?;
        q += 4 + 8 * n_intv as usize;
    }
    None
}

/// Positions (offset, xor mask) whose corruption cannot turn a length / count field into a huge value: what the
/// reader does with such a file on the plain slice is the oracle, but a multi-gigabyte allocation request or a
/// panic of the plain-slice run is C15's business, not C12's.
fn safe_corruptions(inp: &Input, rng: &mut Rng) -> Vec<(usize, u8, &'static str)> {
    let b = &inp.bytes[..];
    let len = b.len();
    let mut v: Vec<(usize, u8, &'static str)> = Vec::new();
    if len < 8 {
        return v;
    }
    let mid_bound = |v: &[usize]| v.get(v.len() / 2).copied().unwrap_or(0);
    match inp.kind {
        k if k.is_bgzf_wrapped() => {
            // BGZF frames are bounded by 64 KiB whatever the bytes say
            v.push((1, 0xff, "bgzf-magic"));
            v.push((mid_bound(&inp.bounds) + 16, 0x01, "bsize"));
            v.push((rng.urange(18, len - 1), 0x10, "random-byte"));
            v.push((len.saturating_sub(28 + 6).max(18), 0x01, "last-crc"));
        }
        Kind::BamRaw | Kind::BcfRaw => {
            let skip = if inp.kind == Kind::BamRaw { 4 } else { 8 };
            v.push((0, 0x01, "magic"));
            v.push((14.min(len - 1), 0x01, "header-text"));
            // inside record bodies (after the length prefix): parsed from a buffer of the stated size
            let recs: Vec<usize> = inp.bounds.iter().copied().filter(|&o| o > 12).collect();
            for k in [recs.len() / 2, recs.len().saturating_sub(2)] {
                if k + 1 < recs.len() {
                    let (s, e) = (recs[k], recs[k + 1]);
                    if e > s + skip + 1 {
                        v.push((rng.urange(s + skip, e - 1), 0x01, "record-body"));
                    }
                }
            }
        }
        Kind::Cram => {
            v.push((1, 0x01, "magic"));
            v.push((4, 0x01, "major-version"));
            let l = corpus::cram_layout(b);
            // block bytes of a data container (not its header: lengths live there)
            for k in [1usize, l.containers.len().saturating_sub(2)] {
                if k >= 1 && k + 1 < l.containers.len() {
                    let (s, e) = (l.bodies[k], l.containers[k + 1]);
                    if e > s + 40 {
                        v.push((rng.urange(s + 20, e - 5), 0x01, "block-bytes"));
                    }
                }
            }
        }
        Kind::Bai => {
            v.push((1, 0x01, "magic"));
            v.push((len - 1, 0x01, "last-byte"));
            if let Some(p) = bai_first_chunk(b) {
                v.push((p + 2, 0x01, "chunk-offset"));
            }
        }
        Kind::Gzi => {
            v.push((0, 0x01, "count-low-byte"));
            if len > 12 {
                v.push((len - 3, 0x01, "entry"));
            }
        }
        Kind::Crai => {
            v.push((0, 0x01, "gzip-magic"));
            v.push((len / 2, 0x01, "deflate-bytes"));
            v.push((len - 6, 0x01, "gzip-crc"));
        }
        _ => {
            // text kinds: every byte is data
            v.push((0, 0x01, "first-byte"));
            let p = rng.urange(1, len - 1);
            v.push((p, 0x80, "high-bit"));
            // a TAB / LF / digit in the second half
            let from = len / 2;
            if let Some(i) = b[from..].iter().position(|&c| c == b'\t') {
                v.push((from + i, 0x29, "tab-to-space"));
            }
            if let Some(i) = b[from..].iter().position(|&c| c == b'\n') {
                v.push((from + i, 0x2a, "lf-to-space"));
            }
            if let Some(i) = b[from..].iter().position(|c| c.is_ascii_digit()) {
                v.push((from + i, 0x48, "digit-to-letter"));
            }
        }
    }
    v.retain(|e| e.0 < len);
    v
}

fn build_inputs(seed: u64, scale: u8, per_kind_malformed: usize) -> Vec<Input> {
    let items = corpus::items(seed, scale);
    let mut out: Vec<Input> = Vec::new();
    for it in &items {
        out.push(mk_input(it.kind, it.name.clone(), it.bytes.clone(), &it.side, "valid"));
    }
    // valid files noodles has trouble with (the oracle is still the same reader on the plain slice)
    for it in corpus::known_problem_items() {
        out.push(mk_input(it.kind, it.name.clone(), it.bytes.clone(), &it.side, "derived"));
    }

    // derived text inputs: CRLF line ends, no final line terminator, multi-byte UTF-8 characters
    let mut derived = Vec::new();
    for kind in Kind::ALL.iter().copied().filter(|&k| is_text(k)) {
        // every small item that has records (not the header-only / empty ones)
        let limit = if scale >= 2 { 100_000 } else { 8_000 };
        let mut cands: Vec<&Input> = out
            .iter()
            .filter(|i| i.kind == kind && i.class == "valid" && i.bytes.len() > 40 && !i.name.contains("header-only") && !i.name.contains("empty"))
            .collect();
        cands.sort_by_key(|i| i.bytes.len());
        let take = cands.iter().filter(|i| i.bytes.len() <= limit).count().max(1);
        for base in cands.into_iter().take(take) {
            if !base.bytes.windows(2).any(|w| w == b"\r\n") {
                derived.push(mk_input(kind, format!("{}+crlf", base.name), to_crlf(&base.bytes), &base.side, "derived"));
            }
            if base.bytes.ends_with(b"\n") {
                let mut b = base.bytes.to_vec();
                b.pop();
                if b.ends_with(b"\r") {
                    b.pop();
                }
                derived.push(mk_input(kind, format!("{}+no-final-eol", base.name), b, &base.side, "derived"));
            }
            // blank line at the end / in the middle (readers skip or reject it; either way identically)
            let mut b = base.bytes.to_vec();
            b.extend_from_slice(b"\n");
            derived.push(mk_input(kind, format!("{}+trailing-blank-line", base.name), b, &base.side, "derived"));
        }
    }
    // UTF-8: VCF is a UTF-8 format (VCF 4.3 §1: "encoded in UTF-8"); multi-byte characters in a header description,
    // an INFO string and a sample value. SAM / GFF3 / GTF / BED comment and free-text columns likewise.
    let vcf_utf8 = "##fileformat=VCFv4.3\n##contig=<ID=sq0,length=1000>\n##INFO=<ID=NOTE,Number=1,Type=String,Description=\"Gr\u{00fc}\u{00df}e \u{2014} \u{65e5}\u{672c}\u{8a9e} \u{1f9ec}\">\n##FORMAT=<ID=TX,Number=1,Type=String,Description=\"text\">\n#CHROM\tPOS\tID\tREF\tALT\tQUAL\tFILTER\tINFO\tFORMAT\ts\u{00e9}mple\nsq0\t5\trs\u{00e9}\tA\tC\t.\t.\tNOTE=caf\u{00e9}\u{1f9ec}\tTX\tna\u{00ef}ve\nsq0\t9\t.\tG\tT\t10\tPASS\tNOTE=\u{65e5}\u{672c}\tTX\t\u{00fc}\n";
    derived.push(mk_input(Kind::Vcf, "c12/vcf-utf8-multibyte".into(), vcf_utf8.as_bytes().to_vec(), &Side::default(), "derived"));
    derived.push(mk_input(Kind::Vcf, "c12/vcf-utf8-multibyte+crlf".into(), to_crlf(vcf_utf8.as_bytes()), &Side::default(), "derived"));
    let sam_utf8 = "@HD\tVN:1.6\n@SQ\tSN:sq0\tLN:100\n@CO\tGr\u{00fc}\u{00df}e \u{65e5}\u{672c}\u{8a9e}\nr\u{00e9}ad\t0\tsq0\t1\t60\t4M\t*\t0\t0\tACGT\tIIII\tXZ:Z:caf\u{00e9} \u{1f9ec}\n";
    derived.push(mk_input(Kind::Sam, "c12/sam-utf8-multibyte".into(), sam_utf8.as_bytes().to_vec(), &Side::default(), "derived"));
    // lines that end right after the last mandatory column: the lazy SAM / VCF readers strip the CR of these in their
    // field scanner, not in read_line
    let sam_bare = "@HD\tVN:1.6\n@SQ\tSN:sq0\tLN:100\nr0\t0\tsq0\t1\t60\t4M\t*\t0\t0\tACGT\tIIII\nr1\t4\t*\t0\t255\t*\t*\t0\t0\t*\t*\nr2\t16\tsq0\t7\t0\t2M1I1M\t=\t1\t-10\tTTGA\t*\n";
    derived.push(mk_input(Kind::Sam, "c12/sam-no-optional-fields".into(), sam_bare.as_bytes().to_vec(), &Side::default(), "derived"));
    derived.push(mk_input(Kind::Sam, "c12/sam-no-optional-fields+crlf".into(), to_crlf(sam_bare.as_bytes()), &Side::default(), "derived"));
    let vcf_bare = "##fileformat=VCFv4.3\n##contig=<ID=sq0,length=1000>\n##INFO=<ID=DP,Number=1,Type=Integer,Description=\"depth\">\n#CHROM\tPOS\tID\tREF\tALT\tQUAL\tFILTER\tINFO\nsq0\t5\t.\tA\tC\t.\t.\tDP=5\nsq0\t9\trs1\tG\tT,<DEL>\t10.5\tPASS\t.\n";
    derived.push(mk_input(Kind::Vcf, "c12/vcf-no-samples".into(), vcf_bare.as_bytes().to_vec(), &Side::default(), "derived"));
    derived.push(mk_input(Kind::Vcf, "c12/vcf-no-samples+crlf".into(), to_crlf(vcf_bare.as_bytes()), &Side::default(), "derived"));
    let gff_utf8 = "##gff-version 3\n#comment \u{65e5}\u{672c}\u{8a9e}\nsq0\tsrc\u{00e9}\tgene\t1\t100\t.\t+\t.\tID=g\u{00e9}ne0;Name=caf\u{00e9} \u{1f9ec}\n";
    derived.push(mk_input(Kind::Gff, "c12/gff-utf8-multibyte".into(), gff_utf8.as_bytes().to_vec(), &Side::default(), "derived"));
    let gtf_utf8 = "sq0\tsrc\u{00e9}\tgene\t1\t100\t.\t+\t.\tgene_id \"g\u{00e9}ne0\"; note \"caf\u{00e9} \u{1f9ec}\";\n";
    derived.push(mk_input(Kind::Gtf, "c12/gtf-utf8-multibyte".into(), gtf_utf8.as_bytes().to_vec(), &Side::default(), "derived"));
    let bed_utf8 = "#\u{65e5}\u{672c}\u{8a9e}\nsq0\t0\t10\tn\u{00e9}me\t\u{1f9ec}\nsq0\t5\t20\tb\tx\n";
    derived.push(mk_input(Kind::Bed, "c12/bed-utf8-multibyte".into(), bed_utf8.as_bytes().to_vec(), &Side { bed_n: 3, ..Side::default() }, "derived"));
    let fasta_utf8 = ">sq0 d\u{00e9}scription \u{1f9ec}\nACGT\nAC\n>sq1\nGG\n";
    derived.push(mk_input(Kind::Fasta, "c12/fasta-utf8-description".into(), fasta_utf8.as_bytes().to_vec(), &Side::default(), "derived"));
    let fastq_utf8 = "@r0 d\u{00e9}sc \u{1f9ec}\nACGT\n+\nIIII\n@r1\tx\nAC\n+r1\nII\n";
    derived.push(mk_input(Kind::Fastq, "c12/fastq-utf8-description".into(), fastq_utf8.as_bytes().to_vec(), &Side::default(), "derived"));
    // FASTA / FASTQ shapes the line scanners special-case: blank lines, CR CR LF, lone CR before EOF
    let fasta_odd = ">a\r\nAC\r\n\r\nGT\r\n>b x\r\n\r\nA\r\n\n>c\nAAAA\nCC\n\n\n";
    derived.push(mk_input(Kind::Fasta, "c12/fasta-blank-lines-mixed-eol".into(), fasta_odd.as_bytes().to_vec(), &Side::default(), "derived"));
    let fastq_odd = "@a b\r\nAC\r\n+a b\r\nII\r\n@c\r\nG\r\n+\r\nI";
    derived.push(mk_input(Kind::Fastq, "c12/fastq-crlf-no-final-eol".into(), fastq_odd.as_bytes().to_vec(), &Side::default(), "derived"));
    out.extend(derived);
    // deterministic witnesses of known chunking-dependent readings of MALFORMED FASTA (see findings/C12.known)
    for (name, text) in [
        ("c12/fasta-definition-prefix-inside-sequence-line", ">a d\nACGT\nAC>GT x\nAAAA\n>b\nCC\n"),
        ("c12/fasta-stray-cr-inside-sequence-line", ">a d\nACGT\nAC\rGT\nAAAA\n>b\nCC\n"),
        // accepted by the indexer on the plain slice, so the region queries run
        ("c12/fasta-definition-prefix-inside-sequence-line-indexable", ">a d\nACGT\nA >b\nCC\n"),
    ] {
        out.push(mk_input(Kind::Fasta, name.into(), text.as_bytes().to_vec(), &Side::default(), "malformed"));
    }

    // malformed inputs: truncations and single corrupted bytes of the smallest non-trivial items of every kind
    let mut malformed = Vec::new();
    for kind in Kind::ALL.iter().copied() {
        let mut cands: Vec<&Input> = out.iter().filter(|i| i.kind == kind && i.class == "valid" && i.bytes.len() >= 24).collect();
        cands.sort_by_key(|i| i.bytes.len());
        for (bi, base) in cands.into_iter().take(per_kind_malformed).enumerate() {
            let len = base.bytes.len();
            let mut rng = Rng::new(seed, 0xC12A, fnv1a(base.name.as_bytes()) ^ bi as u64);
            let mut cuts = BTreeSet::new();
            cuts.insert(len / 2);
            cuts.insert(len - 1);
            cuts.insert((base.bounds[base.bounds.len() / 2] + 1).min(len - 1));
            cuts.insert((base.bounds[base.bounds.len() / 2]).min(len - 1));
            cuts.insert(rng.urange(1, len - 1));
            for c in cuts {
                if c == 0 {
                    continue;
                }
                malformed.push(mk_input(kind, format!("{}+truncated@{c}", base.name), base.bytes[..c].to_vec(), &base.side, "malformed"));
            }
            // BGZF-wrapped kinds: the same behind the checksums (inflated payload truncated, re-compressed)
            if let Some(n) = reblockable(base).filter(|&n| n > 8) {
                let payload = vcore::bgzf::walk(&base.bytes).map(|w| w.concat()).unwrap_or_default();
                for c in [n / 2, n - 1, rng.urange(1, n - 1)] {
                    malformed.push(mk_input(kind, format!("{}+payload-truncated@{c}", base.name), vcore::bgzf::reseal(&payload[..c], 65280), &base.side, "malformed"));
                }
            }
            for (p, mask, what) in safe_corruptions(base, &mut rng) {
                let mut b = base.bytes.to_vec();
                b[p] ^= mask;
                malformed.push(mk_input(kind, format!("{}+corrupt-{what}@{p}", base.name), b, &base.side, "malformed"));
            }
        }
    }
    out.extend(malformed);
    out
}

/// A reading API: one of the corpus transcript drivers, or a driver defined here.
#[derive(Clone, Copy, Debug, PartialEq, Eq)]
enum Api {
    Corpus(Variant),
    /// `fasta::io::Reader::query(&fai::Index, &Region)` (seek + `read_sequence_limit`) for a fixed list of regions
    /// derived from the index the FASTA indexer computes on the plain slice
    FastaQuery,
}

fn variants_of(kind: Kind) -> Vec<Api> {
    let mut v: Vec<Api> = kind.variants().iter().map(|&v| Api::Corpus(v)).collect();
    if kind == Kind::Crai {
        // `read_index()` next to the record-wise reading
        v.push(Api::Corpus(Variant::Eager));
    }
    if kind == Kind::Fasta {
        v.push(Api::FastaQuery);
    }
    v
}

fn variant_name(v: Api) -> &'static str {
    match v {
        Api::Corpus(Variant::Primary) => "primary",
        Api::Corpus(Variant::Eager) => "eager",
        Api::Corpus(Variant::Indexer) => "indexer",
        Api::FastaQuery => "query",
    }
}

// ------------------------------------------------------------------------------------------------
// FASTA region queries (not part of the corpus drivers)

struct FastaQueries {
    index: noodles_fasta::fai::Index,
    regions: Vec<noodles_core::Region>,
}

/// Index from the indexer on the plain slice (`None` if the file cannot be indexed) and a deterministic list of
/// in-range regions: whole sequence, first base, last base, a slice that crosses line ends.
fn fasta_queries(bytes: &[u8]) -> Option<FastaQueries> {
    use noodles_core::{Position, Region};
    let mut ix = noodles_fasta::io::Indexer::new(bytes);
    let mut records = Vec::new();
    loop {
        match ix.index_record() {
            Ok(Some(r)) => records.push(r),
            Ok(None) => break,
            Err(_) => return None,
        }
    }
    let mut regions = Vec::new();
    let step = (records.len() / 6).max(1);
    for rec in records.iter().step_by(step) {
        let name: &[u8] = rec.name().as_ref();
        let n = rec.length() as usize;
        let p = |i: usize| Position::new(i.max(1)).unwrap();
        regions.push(Region::new(name, ..));
        regions.push(Region::new(name, p(1)..=p(1)));
        regions.push(Region::new(name, p(n)..=p(n)));
        let lb = u64::from(rec.line_base_count()) as usize;
        if n > 2 {
            regions.push(Region::new(name, p(n / 3)..=p(n - n / 4)));
            regions.push(Region::new(name, p(lb.min(n))..=p((lb + 1).min(n))));
            regions.push(Region::new(name, p(2)..=p((2 * lb + 1).min(n))));
        }
    }
    Some(FastaQueries { index: noodles_fasta::fai::Index::from(records), regions })
}

fn fasta_query_transcript<R: BufRead + io::Seek>(src: R, q: &FastaQueries) -> Vec<String> {
    let mut out = Vec::new();
    let mut r = noodles_fasta::io::Reader::new(src);
    for region in &q.regions {
        match r.query(&q.index, region) {
            Ok(rec) => out.push(format!("R:{}\t{}", region, String::from_utf8_lossy(rec.sequence().as_ref()))),
            Err(e) => {
                out.push(format!("ERR:{:?}", e.kind()));
                return out;
            }
        }
    }
    out.push("END".into());
    out
}

// ------------------------------------------------------------------------------------------------
// schedules

#[derive(Clone, Debug, PartialEq, Eq)]
enum Mode {
    /// the adversary is a plain `Read`; BufRead-based readers get `BufReader::with_capacity(cap, adversary)`
    Read(usize),
    /// the adversary itself is the `BufRead` (its `fill_buf` windows follow the size pattern)
    Direct,
}

#[derive(Clone, Debug)]
enum SizePat {
    Full,
    Fixed(usize),
    Random(usize, u64),
    /// cut at `boundary + d` for every structural boundary and every `d` in the list
    Bounds(Vec<i32>),
    /// cut at the given number of seeded random offsets
    RandomCuts(usize, u64),
    Script(Vec<usize>),
    /// not a delivery of the same bytes: the inflated payload of a BGZF-wrapped file re-compressed into blocks of
    /// `k` payload bytes, read from a plain slice. `bgzf::io::Reader::read` never crosses a block end, so the
    /// reader stacked on top of it (BAM / BCF / SAM / VCF / CSI / tabix) sees a short read every `k` bytes.
    /// Compared without the `V:` elements.
    Reblock(usize),
}

#[derive(Clone, Debug)]
enum IntrPat {
    None,
    First,
    Eof,
    FirstAndEof,
    /// one `Interrupted` at every cut offset of the size pattern (boundaries ± d / random cuts)
    AtCuts,
    /// at `n` seeded random offsets (fires where a read starts: combine with Fixed(1) or RandomCuts)
    Random(usize, u64),
    /// at every k-th offset (combine with Fixed(k))
    Every(usize, usize),
}

#[derive(Clone, Debug)]
struct Sched {
    sizes: SizePat,
    intr: IntrPat,
    mode: Mode,
}

impl Sched {
    fn size_label(&self) -> String {
        match &self.sizes {
            SizePat::Full => "full".into(),
            SizePat::Fixed(k) => format!("fixed{k}"),
            SizePat::Random(k, _) => format!("random1..{k}"),
            SizePat::Bounds(d) => format!("bounds{d:?}"),
            SizePat::RandomCuts(n, _) => format!("randomcuts{n}"),
            SizePat::Script(s) => format!("script{s:?}"),
            SizePat::Reblock(k) => format!("reblock{k}"),
        }
    }
    fn intr_label(&self) -> String {
        match &self.intr {
            IntrPat::None => "none".into(),
            IntrPat::First => "first".into(),
            IntrPat::Eof => "eof".into(),
            IntrPat::FirstAndEof => "first+eof".into(),
            IntrPat::AtCuts => "at-cuts".into(),
            IntrPat::Random(n, _) => format!("random{n}"),
            IntrPat::Every(k, n) => format!("every{k}x{n}"),
        }
    }
    fn mode_label(&self) -> String {
        match self.mode {
            Mode::Read(c) => format!("bufreader{c}"),
            Mode::Direct => "direct".into(),
        }
    }
    fn label(&self, bufread_kind: bool) -> String {
        if bufread_kind {
            format!("{}|{}|{}", self.size_label(), self.intr_label(), self.mode_label())
        } else {
            format!("{}|{}|read", self.size_label(), self.intr_label())
        }
    }

    fn cuts(&self, inp: &Input) -> Vec<usize> {
        let len = inp.bytes.len();
        let mut v: Vec<usize> = match &self.sizes {
            SizePat::Bounds(ds) => inp
                .bounds
                .iter()
                .flat_map(|&b| ds.iter().map(move |&d| b as i64 + d as i64))
                .filter(|&o| o > 0 && (o as usize) < len)
                .map(|o| o as usize)
                .collect(),
            SizePat::RandomCuts(n, s) => {
                let mut rng = Rng::new(*s, 0xC12C, len as u64);
                (0..*n).filter(|_| len > 1).map(|_| rng.urange(1, len - 1)).collect()
            }
            _ => vec![],
        };
        v.sort_unstable();
        v.dedup();
        v
    }

    fn build(&self, inp: &Input) -> ChunkedRead {
        let len = inp.bytes.len();
        let cuts = self.cuts(inp);
        let sizes = match &self.sizes {
            SizePat::Full | SizePat::Reblock(_) => Sizes::Full,
            SizePat::Fixed(k) => Sizes::Fixed(*k),
            SizePat::Random(k, s) => Sizes::Random(*k, *s),
            SizePat::Bounds(_) | SizePat::RandomCuts(..) => Sizes::Cuts(cuts.clone()),
            SizePat::Script(s) => Sizes::Script(s.clone()),
        };
        let intr: Vec<usize> = match &self.intr {
            IntrPat::None => vec![],
            IntrPat::First => vec![0],
            IntrPat::Eof => vec![len],
            IntrPat::FirstAndEof => vec![0, len],
            IntrPat::AtCuts => {
                let mut v = cuts;
                v.push(0);
                v.push(len);
                v
            }
            IntrPat::Random(n, s) => {
                let mut rng = Rng::new(*s, 0xC121, len as u64);
                (0..*n).map(|_| rng.urange(0, len)).collect()
            }
            IntrPat::Every(k, n) => (0..*n).map(|i| i * k).filter(|&o| o <= len).collect(),
        };
        ChunkedRead::new(inp.bytes.clone(), sizes).with_interrupts(intr)
    }
}

/// Payload length if the upper-layer reader of this input can be exercised by re-blocking: a BGZF-wrapped record
/// or index kind whose file the strict independent walker accepts.
fn reblockable(inp: &Input) -> Option<usize> {
    if !matches!(inp.kind, Kind::Bam | Kind::Bcf | Kind::SamGz | Kind::VcfGz | Kind::Csi | Kind::Tbi) {
        return None;
    }
    vcore::bgzf::walk(&inp.bytes).ok().map(|w| w.total as usize)
}

const CAPS: &[usize] = &[1, 2, 3, 5, 8, 16, 64, 4096, 65536];

fn schedules(ctx: &Ctx, inp: &Input, key: u64) -> Vec<Sched> {
    let bufread = inp.kind.reader_takes_bufread();
    let thorough = !ctx.quick();
    let mut rng = Rng::new(ctx.seed, 0xC125, key);
    let default = Mode::Read(corpus::DEFAULT_CAP);
    let mut v: Vec<Sched> = Vec::new();
    let mut add = |sizes: SizePat, intr: IntrPat, mode: Mode| v.push(Sched { sizes, intr, mode });

    // --- size patterns, no interrupts
    let fixed: &[usize] = if thorough { &[1, 2, 3, 4, 5, 7, 8, 13, 16, 17, 18, 19, 27, 28, 29, 64, 100, 4096, 65535, 65536, 65537] } else { &[1, 2, 3, 7] };
    for &k in fixed {
        add(SizePat::Fixed(k), IntrPat::None, default.clone());
    }
    let rand_k: &[usize] = if thorough { &[2, 3, 5, 8, 13, 64, 300, 1000, 5000, 70000] } else { &[5, 64, 1000, 70000] };
    let rand_seeds = if thorough { 8 } else { 1 };
    for &k in rand_k {
        for _ in 0..rand_seeds {
            add(SizePat::Random(k, rng.next_u64()), IntrPat::None, default.clone());
        }
    }
    let shifts: Vec<Vec<i32>> = if thorough {
        vec![
            vec![0], vec![-1], vec![1], vec![-2], vec![2], vec![-3], vec![3], vec![-4], vec![4], vec![-1, 1], vec![-2, 2],
            vec![-1, 0, 1], vec![-2, -1, 0, 1, 2], vec![0, 1], vec![-1, 0], vec![0, 4], vec![0, 18], vec![-8, 0],
        ]
    } else {
        vec![vec![0], vec![-1], vec![1], vec![-2], vec![2], vec![-1, 0, 1], vec![-2, 2]]
    };
    for s in &shifts {
        add(SizePat::Bounds(s.clone()), IntrPat::None, default.clone());
    }
    if thorough {
        for s in [vec![1, 100000], vec![100000, 1], vec![1, 2, 3, 4, 5, 6, 7, 8, 9], vec![17, 1, 1, 65536], vec![4, 32, 1]] {
            add(SizePat::Script(s), IntrPat::None, default.clone());
        }
        for _ in 0..4 {
            add(SizePat::RandomCuts(50, rng.next_u64()), IntrPat::None, default.clone());
        }
    }

    // --- interrupts
    add(SizePat::Full, IntrPat::First, default.clone());
    add(SizePat::Full, IntrPat::Eof, default.clone());
    add(SizePat::Bounds(vec![0]), IntrPat::AtCuts, default.clone());
    add(SizePat::Bounds(vec![1]), IntrPat::AtCuts, default.clone());
    add(SizePat::Bounds(vec![-1]), IntrPat::AtCuts, default.clone());
    add(SizePat::Fixed(1), IntrPat::Random(50, rng.next_u64()), default.clone());
    add(SizePat::RandomCuts(50, rng.next_u64()), IntrPat::AtCuts, default.clone());
    add(SizePat::Fixed(3), IntrPat::Every(3, 50), default.clone());
    if thorough {
        add(SizePat::Full, IntrPat::FirstAndEof, default.clone());
        add(SizePat::Fixed(1), IntrPat::FirstAndEof, default.clone());
        for s in [vec![-2], vec![2], vec![-1, 0, 1], vec![-2, -1, 0, 1, 2], vec![0, 4], vec![0, 18]] {
            add(SizePat::Bounds(s), IntrPat::AtCuts, default.clone());
        }
        for _ in 0..5 {
            add(SizePat::Fixed(1), IntrPat::Random(50, rng.next_u64()), default.clone());
            add(SizePat::RandomCuts(50, rng.next_u64()), IntrPat::AtCuts, default.clone());
        }
        add(SizePat::Fixed(1), IntrPat::Every(1, 50), default.clone());
        add(SizePat::Fixed(2), IntrPat::Every(2, 50), default.clone());
        add(SizePat::Fixed(7), IntrPat::Every(7, 50), default.clone());
        add(SizePat::Fixed(18), IntrPat::Every(18, 50), default.clone());
    }

    // --- readers stacked on a BGZF reader: short reads at every k-th payload byte through re-blocking
    if let Some(n) = reblockable(inp) {
        let ks: &[usize] = if thorough { &[1, 2, 3, 4, 5, 7, 8, 13, 17, 31, 64, 100, 1000, 4096, 65280] } else { &[1, 2, 3, 7, 64, 1000] };
        for &k in ks {
            // one member per payload byte costs 28+ file bytes per byte
            if n / k <= if thorough { 40_000 } else { 12_000 } {
                add(SizePat::Reblock(k), IntrPat::None, default.clone());
            }
        }
    }

    // --- BufRead-based readers: BufReader capacities and the adversary as the BufRead itself
    if bufread {
        for &c in CAPS {
            add(SizePat::Full, IntrPat::None, Mode::Read(c));
        }
        add(SizePat::Random(5, rng.next_u64()), IntrPat::None, Mode::Read(3));
        add(SizePat::Bounds(vec![0]), IntrPat::AtCuts, Mode::Read(16));
        add(SizePat::Full, IntrPat::Every(64, 50), Mode::Read(64));
        for k in [1usize, 2, 3, 7] {
            add(SizePat::Fixed(k), IntrPat::None, Mode::Direct);
        }
        add(SizePat::Random(5, rng.next_u64()), IntrPat::None, Mode::Direct);
        add(SizePat::Random(64, rng.next_u64()), IntrPat::None, Mode::Direct);
        for s in [vec![0], vec![-1], vec![1], vec![-1, 0, 1]] {
            add(SizePat::Bounds(s), IntrPat::None, Mode::Direct);
        }
        add(SizePat::Bounds(vec![0]), IntrPat::AtCuts, Mode::Direct);
        add(SizePat::Fixed(1), IntrPat::Random(50, rng.next_u64()), Mode::Direct);
        if thorough {
            for &c in CAPS {
                add(SizePat::Fixed(1), IntrPat::None, Mode::Read(c));
                add(SizePat::Random(7, rng.next_u64()), IntrPat::None, Mode::Read(c));
                add(SizePat::Bounds(vec![0]), IntrPat::None, Mode::Read(c));
                add(SizePat::Bounds(vec![-1, 0, 1]), IntrPat::AtCuts, Mode::Read(c));
                add(SizePat::Full, IntrPat::Every(c, 50), Mode::Read(c));
            }
            for &k in &[4usize, 5, 8, 13, 16, 64, 100, 4096] {
                add(SizePat::Fixed(k), IntrPat::None, Mode::Direct);
            }
            for &k in &[2usize, 3, 8, 13, 300, 5000] {
                for _ in 0..2 {
                    add(SizePat::Random(k, rng.next_u64()), IntrPat::None, Mode::Direct);
                }
            }
            for s in [vec![-2], vec![2], vec![-2, 2], vec![-1, 1], vec![-2, -1, 0, 1, 2]] {
                add(SizePat::Bounds(s.clone()), IntrPat::None, Mode::Direct);
                add(SizePat::Bounds(s), IntrPat::AtCuts, Mode::Direct);
            }
            for _ in 0..4 {
                add(SizePat::Fixed(1), IntrPat::Random(50, rng.next_u64()), Mode::Direct);
                add(SizePat::RandomCuts(50, rng.next_u64()), IntrPat::AtCuts, Mode::Direct);
            }
            add(SizePat::Full, IntrPat::First, Mode::Direct);
            add(SizePat::Full, IntrPat::Eof, Mode::Direct);
            add(SizePat::Script(vec![1, 100000]), IntrPat::None, Mode::Direct);
            add(SizePat::Script(vec![100000, 1]), IntrPat::None, Mode::Direct);
        }
    }
    v
}

// ------------------------------------------------------------------------------------------------
// the tap: counts what the adversary really delivered

struct Tap {
    inner: ChunkedRead,
    /// distinct end offsets of non-empty deliveries, in order
    ends: Vec<usize>,
    last_end: usize,
}

impl Tap {
    fn new(inner: ChunkedRead) -> Self {
        Tap { inner, ends: Vec::new(), last_end: usize::MAX }
    }
    fn note(&mut self, end: usize) {
        if end != self.last_end {
            self.ends.push(end);
            self.last_end = end;
        }
    }
}

impl Read for Tap {
    fn read(&mut self, buf: &mut [u8]) -> io::Result<usize> {
        let n = self.inner.read(buf)?;
        if n > 0 {
            let e = self.inner.position();
            self.note(e);
        }
        Ok(n)
    }
}

impl io::Seek for Tap {
    fn seek(&mut self, pos: io::SeekFrom) -> io::Result<u64> {
        self.last_end = usize::MAX;
        self.inner.seek(pos)
    }
}

impl BufRead for Tap {
    fn fill_buf(&mut self) -> io::Result<&[u8]> {
        let p = self.inner.position();
        let n = self.inner.fill_buf()?.len();
        if n > 0 {
            self.note(p + n);
        }
        self.inner.fill_buf()
    }
    fn consume(&mut self, amt: usize) {
        self.inner.consume(amt)
    }
}

#[derive(Default, Debug)]
struct Delivered {
    calls: u64,
    short: u64,
    interrupts: u64,
    /// deliveries that ended exactly on a structural boundary (not the end of the input)
    aligned: u64,
    /// deliveries that ended 1 or 2 bytes before / after a structural boundary (a length prefix, a BGZF header, a
    /// CR LF pair or a line terminator was split across two reads)
    straddling: u64,
    /// deliveries that ended anywhere else inside the input
    inside: u64,
    /// BGZF members of re-blocked files (= short reads seen by the stacked reader)
    reblocked_members: u64,
}

fn classify_ends(ends: &[usize], bounds: &[usize], len: usize, d: &mut Delivered) {
    for &e in ends {
        if e == 0 || e >= len {
            continue;
        }
        let i = bounds.partition_point(|&b| b < e);
        // bounds[i] >= e, bounds[i-1] < e
        let next = bounds.get(i).copied();
        let prev = if i > 0 { Some(bounds[i - 1]) } else { None };
        if next == Some(e) {
            d.aligned += 1;
        } else if next.map(|b| b - e <= 2).unwrap_or(false) || prev.map(|b| e - b <= 2).unwrap_or(false) {
            d.straddling += 1;
        } else {
            d.inside += 1;
        }
    }
}

type Outcome = Result<Vec<String>, guard::PanicInfo>;

/// What a run needs besides the input (computed once per case).
struct Aux {
    fasta: Option<FastaQueries>,
    /// inflated payload (for the re-blocking schedules)
    payload: Option<Vec<u8>>,
}

fn aux_for(inp: &Input, api: Api) -> Aux {
    Aux {
        fasta: if api == Api::FastaQuery { guard::catch(|| fasta_queries(&inp.bytes)).ok().flatten() } else { None },
        payload: if reblockable(inp).is_some() { vcore::bgzf::walk(&inp.bytes).ok().map(|w| w.concat()) } else { None },
    }
}

fn strip_vpos(o: Outcome) -> Outcome {
    o.map(|t| t.into_iter().filter(|e| !e.starts_with("V:")).collect())
}

fn run_plain(inp: &Input, api: Api, deep: bool, aux: &Aux) -> Outcome {
    guard::catch(|| match api {
        Api::Corpus(variant) => corpus::transcript_read_variant(inp.kind, variant, &inp.bytes[..], &inp.side, deep, corpus::DEFAULT_CAP),
        Api::FastaQuery => match &aux.fasta {
            Some(q) => fasta_query_transcript(io::Cursor::new(&inp.bytes[..]), q),
            None => vec!["END".into()],
        },
    })
}

fn run_sched(inp: &Input, api: Api, deep: bool, aux: &Aux, s: &Sched, d: Option<&mut Delivered>) -> Outcome {
    if let (SizePat::Reblock(k), Api::Corpus(variant)) = (&s.sizes, api) {
        let file = vcore::bgzf::reseal(aux.payload.as_deref().unwrap_or(&[]), *k);
        if let Some(d) = d {
            d.reblocked_members += aux.payload.as_ref().map(|p| p.len().div_ceil((*k).min(65280)) as u64).unwrap_or(0);
        }
        return strip_vpos(guard::catch(|| corpus::transcript_read_variant(inp.kind, variant, &file[..], &inp.side, deep, corpus::DEFAULT_CAP)));
    }
    let mut tap = Tap::new(s.build(inp));
    let r = guard::catch(|| match (api, &s.mode) {
        (Api::Corpus(variant), Mode::Read(cap)) => corpus::transcript_read_variant(inp.kind, variant, &mut tap, &inp.side, deep, *cap),
        (Api::Corpus(variant), Mode::Direct) => corpus::transcript_bufread_variant(inp.kind, variant, &mut tap, &inp.side, deep),
        (Api::FastaQuery, mode) => match (&aux.fasta, mode) {
            (None, _) => vec!["END".into()],
            (Some(q), Mode::Read(cap)) => fasta_query_transcript(io::BufReader::with_capacity((*cap).max(1), &mut tap), q),
            (Some(q), Mode::Direct) => fasta_query_transcript(&mut tap, q),
        },
    });
    if let Some(d) = d {
        d.calls += tap.inner.calls as u64;
        d.short += tap.inner.short_deliveries as u64;
        d.interrupts += tap.inner.interrupts_delivered as u64;
        classify_ends(&tap.ends, &inp.bounds, inp.bytes.len(), d);
    }
    r
}

// ------------------------------------------------------------------------------------------------
// diagnosis

fn element_class(e: &str) -> String {
    if e == "END" {
        return "end".into();
    }
    if let Some(k) = e.strip_prefix("ERR:") {
        return format!("error({k})");
    }
    if e.starts_with("A-ERR:") {
        return "deep-error".into();
    }
    match e.split(':').next().unwrap_or("") {
        "H" => "header",
        "R" => "record",
        "V" => "vpos",
        "D" => "bytes",
        "C" => "container",
        "I" => "index",
        "A" => "deep",
        _ => "other",
    }
    .into()
}

fn clip(s: &str) -> String {
    let mut t: String = s.chars().take(400).collect();
    if t.len() < s.len() {
        t.push('…');
    }
    t
}

/// `None` if equal; otherwise (diff class, description).
fn diff(reference: &Outcome, got: &Outcome, with_msg: bool) -> Option<(String, String)> {
    match (reference, got) {
        (Ok(a), Ok(b)) => {
            if a == b {
                return None;
            }
            let i = a.iter().zip(b).position(|(x, y)| x != y).unwrap_or(a.len().min(b.len()));
            let (x, y) = (a.get(i), b.get(i));
            let (cx, cy) = (x.map(|e| element_class(e)).unwrap_or("nothing".into()), y.map(|e| element_class(e)).unwrap_or("nothing".into()));
            let class = if cy == "error(Interrupted)" {
                // the call site class: header reader vs everything after it
                format!("{}-became-error(Interrupted)", if cx == "header" { "header" } else { "body" })
            } else if cx == cy {
                format!("{cx}-differs")
            } else {
                format!("{cx}-became-{cy}")
            };
            let msg = if y.map(|e| e.starts_with("ERR:")).unwrap_or(false) && with_msg {
                corpus::last_error_message().map(|m| format!(" (error text: {m})")).unwrap_or_default()
            } else {
                String::new()
            };
            Some((
                class,
                format!(
                    "first difference at element #{i} of {} (plain slice) / {} (adversary): plain slice gives «{}», adversary delivery gives «{}»{msg}",
                    a.len(),
                    b.len(),
                    x.map(|e| clip(e)).unwrap_or("<nothing>".into()),
                    y.map(|e| clip(e)).unwrap_or("<nothing>".into())
                ),
            ))
        }
        (Ok(a), Err(p)) => Some((
            format!("panic:{}", p.sig),
            format!("plain slice gives {} elements ending with «{}», adversary delivery panics: {} at {}:{}", a.len(), a.last().map(|e| clip(e)).unwrap_or_default(), p.message, p.file, p.line),
        )),
        (Err(p), Ok(b)) => Some((
            "plain-slice-panics-adversary-does-not".into(),
            format!("plain slice run panics ({} at {}:{}), adversary delivery gives {} elements ending with «{}»", p.message, p.file, p.line, b.len(), b.last().map(|e| clip(e)).unwrap_or_default()),
        )),
        (Err(p), Err(q)) => {
            if p.sig == q.sig {
                None
            } else {
                Some(("different-panics".into(), format!("plain slice panics with {}, adversary delivery with {}", p.sig, q.sig)))
            }
        }
    }
}

// ------------------------------------------------------------------------------------------------
// cases

#[derive(Clone, Debug)]
struct Case {
    input: usize,
    variant: Api,
    /// schedule index range of this (input, variant)
    from: usize,
    to: usize,
}

struct World {
    inputs: Vec<Input>,
    cases: Vec<Case>,
}

fn sched_key(inp: &Input, variant: Api) -> u64 {
    fnv1a(format!("{}|{}", inp.name, variant_name(variant)).as_bytes())
}

fn gen_world(ctx: &Ctx) -> World {
    let scale = ctx.budget("scale", 1, 2) as u8;
    let per_kind_malformed = ctx.budget("malformed", 2, 3) as usize;
    let inputs = build_inputs(ctx.seed, scale, per_kind_malformed);
    let only_kind = ctx.param("kind").and_then(Kind::from_name);
    let only_input = ctx.param("input");
    // bytes * schedules per case
    let chunk_budget = ctx.budget("chunk", 4_000_000, 4_000_000) as usize;
    let mut cases = Vec::new();
    for (ii, inp) in inputs.iter().enumerate() {
        if only_kind.map(|k| k != inp.kind).unwrap_or(false) {
            continue;
        }
        if only_input.map(|n| !inp.name.contains(n)).unwrap_or(false) {
            continue;
        }
        for variant in variants_of(inp.kind) {
            let n = schedules(ctx, inp, sched_key(inp, variant)).len();
            let per = (chunk_budget / inp.bytes.len().max(1)).clamp(1, n.max(1));
            let mut from = 0;
            while from < n {
                let to = (from + per).min(n);
                cases.push(Case { input: ii, variant, from, to });
                from = to;
            }
        }
    }
    World { inputs, cases }
}

fn case_json(w: &World, c: &Case) -> serde_json::Value {
    let inp = &w.inputs[c.input];
    json!({"input": inp.name, "kind": inp.kind.name(), "class": inp.class, "len": inp.bytes.len(),
           "variant": variant_name(c.variant), "schedules": [c.from, c.to]})
}

/// Which ingredient of the schedule the difference `class` is due to.
fn cause_of(inp: &Input, api: Api, deep: bool, aux: &Aux, s: &Sched, reference: &Outcome, class: &str) -> &'static str {
    if matches!(s.sizes, SizePat::Reblock(_)) {
        return "reblocked";
    }
    // an Interrupted error can only come from an injection
    if class.ends_with("error(Interrupted)") {
        return "interrupted";
    }
    let same = |s2: &Sched| diff(reference, &run_sched(inp, api, deep, aux, s2, None), false).map(|d| d.0 == class).unwrap_or(false);
    // 1. the same difference without the interrupts?
    if !matches!(s.intr, IntrPat::None) {
        let s2 = Sched { sizes: s.sizes.clone(), intr: IntrPat::None, mode: s.mode.clone() };
        if !same(&s2) {
            return "interrupted";
        }
    }
    // 2. the same difference with a BufReader of that capacity over a source that never delivers short?
    if let Mode::Read(cap) = s.mode {
        if inp.kind.reader_takes_bufread() && cap != corpus::DEFAULT_CAP {
            let s2 = Sched { sizes: SizePat::Full, intr: IntrPat::None, mode: s.mode.clone() };
            if same(&s2) {
                return "capacity";
            }
        }
    }
    "short-read"
}

fn run_case(ctx: &Ctx, w: &World, c: &Case) -> CaseOut {
    let inp = &w.inputs[c.input];
    let kind = inp.kind.name();
    let vname = variant_name(c.variant);
    let bufread = inp.kind.reader_takes_bufread();
    // the deep accessor walk is only meaningful (and only known to terminate) on valid input
    let deep = inp.class != "malformed" && ctx.param("deep") != Some("0");
    let mut o = CaseOut::new();
    o.evaluations = 0;
    let t0 = guard::thread_cpu_s();
    let aux = aux_for(inp, c.variant);
    if c.variant == Api::FastaQuery {
        match &aux.fasta {
            Some(q) if c.from == 0 => o.count("fasta_query_regions", q.regions.len() as u64),
            None if c.from == 0 => o.count("fasta_query_inputs_not_indexable", 1),
            _ => {}
        }
    }
    let reference = run_plain(inp, c.variant, deep, &aux);
    if c.from == 0 {
        o.count(&format!("inputs[{kind}:{vname}]"), 1);
        o.count(&format!("inputs_{}[{kind}]", inp.class), 1);
        match &reference {
            Ok(t) => {
                o.count(&format!("reference_elements[{kind}:{vname}]"), t.len() as u64);
                let last = t.last().map(|e| element_class(e)).unwrap_or_default();
                o.count(&format!("reference_outcome[{kind}:{}]", if last == "end" { "end" } else { "error" }), 1);
            }
            Err(_) => o.count(&format!("reference_outcome[{kind}:panic]"), 1),
        }
    }
    if ctx.param("dump").is_some() && c.from == 0 {
        match &reference {
            Ok(t) => {
                eprintln!("### {} [{}] {vname}: {} elements", inp.name, inp.class, t.len());
                for e in t.iter().take(3).chain(t.iter().skip(3).rev().take(2).rev()) {
                    eprintln!("    {}", clip(e).replace('\r', "\\r"));
                }
            }
            Err(p) => eprintln!("### {} [{}] {vname}: panic {}", inp.name, inp.class, p.sig),
        }
    }
    if let Err(p) = &reference {
        // not C12's business (C15): nothing to compare against
        o.count("plain_slice_run_panicked_inputs_skipped", 1);
        if inp.class != "malformed" {
            o.inconclusive.push(format!("plain-slice run of {} ({vname}) panics: {} — input skipped", inp.name, p.sig));
        }
        return o;
    }
    let scheds = schedules(ctx, inp, sched_key(inp, c.variant));
    let mut d = Delivered::default();
    let mut reported = BTreeSet::new();
    let mut reference_nov: Option<Outcome> = None;
    for s in &scheds[c.from..c.to] {
        let got = run_sched(inp, c.variant, deep, &aux, s, Some(&mut d));
        o.evaluations += 1;
        o.fps.push(fnv1a(format!("{kind}|{vname}|{}", s.label(bufread)).as_bytes()));
        let d0 = if matches!(s.sizes, SizePat::Reblock(_)) {
            let r = reference_nov.get_or_insert_with(|| strip_vpos(reference.clone()));
            diff(r, &got, true)
        } else {
            diff(&reference, &got, c.variant != Api::FastaQuery)
        };
        if let Some((class, desc)) = d0 {
            let cause = cause_of(inp, c.variant, deep, &aux, s, &reference, &class);
            // malformed input: what exactly differs depends on where the damage is; the signature keeps kind, API and
            // cause and is marked, so that a finding on malformed input never covers a difference on valid input
            let sig = if inp.class == "malformed" && !class.ends_with("error(Interrupted)") {
                let c = if class.starts_with("panic:") { class.as_str() } else { "differs" };
                format!("{kind}:{vname}:{cause}:{c}@malformed")
            } else {
                format!("{kind}:{vname}:{cause}:{class}")
            };
            if reported.insert(sig.clone()) {
                o.violation_with(
                    sig,
                    format!("{} [{}] read through {vname} API under delivery {}: {desc}", inp.name, inp.class, s.label(bufread)),
                    json!({"input": inp.name, "input_len": inp.bytes.len(), "variant": vname, "schedule": format!("{s:?}"),
                           "input_head_hex": vcore::report::hex(&inp.bytes[..inp.bytes.len().min(96)])}),
                );
            }
            o.count(&format!("differing_deliveries[{kind}]"), 1);
        }
    }
    o.count(&format!("deliveries[{kind}:{vname}]"), (c.to - c.from) as u64);
    let tuples: BTreeSet<String> = scheds[c.from..c.to].iter().map(|s| s.label(bufread)).collect();
    o.max(&format!("max_distinct_tuples_on_one_input_batch[{kind}:{vname}]"), tuples.len() as u64);
    o.max("max_case_cpu_ms", ((guard::thread_cpu_s() - t0) * 1000.0) as u64);
    o.count(&format!("source_calls[{kind}]"), d.calls);
    o.count(&format!("short_deliveries[{kind}]"), d.short);
    o.count(&format!("interrupts_delivered[{kind}]"), d.interrupts);
    o.count(&format!("deliveries_ending_on_a_boundary[{kind}]"), d.aligned);
    o.count(&format!("deliveries_straddling_a_boundary_by_1_or_2_bytes[{kind}]"), d.straddling);
    o.count(&format!("deliveries_ending_elsewhere_inside[{kind}]"), d.inside);
    if d.reblocked_members > 0 {
        o.count(&format!("reblocked_members_read[{kind}]"), d.reblocked_members);
    }
    o
}

fn main() {
    let ctx = Ctx::from_args();
    let ctx = vcore::cases::replay_request(&ctx).map(|r| r.1).unwrap_or(ctx);
    let mut rep = Report::new(
        "case = (input, reading API, batch of delivery schedules); input = every corpus item of every kind (scale 1 quick / 2 thorough) \
         + CRLF / no-final-EOL / trailing-blank-line derivatives of every small text item + hand-written multi-byte UTF-8, bare-line and \
         blank-line files + truncated and single-corrupted-byte derivatives (file level, and behind the BGZF checksums) of the smallest items \
         of every kind; reading API = every corpus transcript variant (lazy / eager / indexer), crai read_index, fasta Reader::query; \
         schedule = (size pattern, Interrupted pattern, BufReader capacity | adversary used directly as BufRead), plus, for readers stacked \
         on a BGZF reader, the same payload re-blocked into k-byte BGZF members; evaluations = adversary deliveries compared with the \
         plain-slice transcript; distinct = distinct (kind, reading API, size pattern, interrupt pattern, capacity/mode) tuples; non-trivial = all",
    );
    rep.assumptions.push("oracle = the same noodles reader driven by the same corpus transcript driver on the plain slice (differential in the delivery schedule only)".into());
    rep.assumptions.push("Interrupted is injected at most once per source offset (finite); std::io::BufReader passes it through fill_buf, read_until / read_exact / read_to_end retry it".into());
    rep.assumptions.push("the Bgzf driver retries Interrupted itself (std::io::Read contract of bgzf::io::Reader::read); every other driver treats any error as final".into());
    rep.assumptions.push("inputs whose plain-slice run panics are skipped (C15)".into());
    rep.assumptions.push("re-blocked deliveries are compared without the V: (virtual position) elements; the re-blocked file comes from the independent BGZF encoder (vcore::bgzf::reseal)".into());
    rep.assumptions.push("format autodetection from a fill_buf window (noodles-util readers) is left to C20, which lists its short-first-read findings".into());
    let w = gen_world(&ctx);
    let f = |i: u64| -> CaseOut { run_case(&ctx, &w, &w.cases[i as usize]) };
    run_cases(&ctx, &mut rep, w.cases.len() as u64, 240.0, &f, &|i| case_json(&w, &w.cases[i as usize]));
    if ctx.replay.is_none() && ctx.param("kind").is_none() && ctx.param("input").is_none() {
        // every reader kind must have been driven, must have seen short deliveries, boundary-straddling deliveries
        // and delivered interrupts
        let counters = rep.counters.clone();
        for kind in Kind::ALL {
            let k = kind.name();
            let get = |name: &str| counters.get(&format!("{name}[{k}]")).copied().unwrap_or(0);
            let inputs: u64 = variants_of(*kind).iter().map(|v| counters.get(&format!("inputs[{k}:{}]", variant_name(*v))).copied().unwrap_or(0)).min().unwrap_or(0);
            rep.floor(&format!("inputs[{k}] (every reading API)"), inputs, 3);
            rep.floor(&format!("short_deliveries[{k}]"), get("short_deliveries"), 1000);
            rep.floor(&format!("interrupts_delivered[{k}]"), get("interrupts_delivered"), 50);
            rep.floor(&format!("deliveries_straddling_a_boundary_by_1_or_2_bytes[{k}]"), get("deliveries_straddling_a_boundary_by_1_or_2_bytes"), 20);
            rep.floor(&format!("reference_outcome[{k}:end]"), counters.get(&format!("reference_outcome[{k}:end]")).copied().unwrap_or(0), 1);
            rep.floor(&format!("reference_outcome[{k}:error]"), counters.get(&format!("reference_outcome[{k}:error]")).copied().unwrap_or(0), 1);
        }
    }
    rep.finish(&ctx);
}
