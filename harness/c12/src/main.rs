//! C12 — stub (to be implemented).

fn main() {
    eprintln!("c12: not implemented");
    std::process::exit(2);
}
