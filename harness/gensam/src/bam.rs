//! BAM decoded from the specification (SAMv1 4.2, 5.3), independently of noodles: the uncompressed
//! stream splitter, the record splitter (fixed core + offsets of the variable part), a dumb record
//! decoder, and `reg2bin`.

use std::ops::Range;

use crate::desc::*;

/// SAMv1 5.3, transliterated: bin of the 0-based half-open interval `[beg, end)`.
pub fn reg2bin(beg: i64, end: i64) -> u32 {
    let end = end - 1;
    if beg >> 14 == end >> 14 {
        return (((1 << 15) - 1) / 7 + (beg >> 14)) as u32;
    }
    if beg >> 17 == end >> 17 {
        return (((1 << 12) - 1) / 7 + (beg >> 17)) as u32;
    }
    if beg >> 20 == end >> 20 {
        return (((1 << 9) - 1) / 7 + (beg >> 20)) as u32;
    }
    if beg >> 23 == end >> 23 {
        return (((1 << 6) - 1) / 7 + (beg >> 23)) as u32;
    }
    if beg >> 26 == end >> 26 {
        return (((1 << 3) - 1) / 7 + (beg >> 26)) as u32;
    }
    0
}

/// The bin SAMv1 4.2.1 prescribes for a record: `reg2bin(pos, end)` over its span (length 1 without
/// CIGAR span), `reg2bin(-1, 0)` = 4680 without POS. `None` when a coordinate is >= 2^29 (the
/// binning scheme does not cover it).
pub fn expected_bin(r: &RecDesc) -> Option<u32> {
    match span(r) {
        None => Some(reg2bin(-1, 0)),
        Some((s, e)) => {
            if e > (1 << 29) {
                None
            } else {
                Some(reg2bin(s as i64 - 1, e as i64))
            }
        }
    }
}

#[derive(Clone, Debug, PartialEq, Eq)]
pub struct BamCore {
    pub ref_id: i32,
    /// 0-based
    pub pos: i32,
    pub l_read_name: u8,
    pub mapq: u8,
    pub bin: u16,
    pub n_cigar_op: u16,
    pub flag: u16,
    pub l_seq: u32,
    pub next_ref_id: i32,
    pub next_pos: i32,
    pub tlen: i32,
}

/// Byte ranges of the variable-length part, relative to the record body (after `block_size`).
#[derive(Clone, Debug)]
pub struct BamParts {
    pub core: BamCore,
    /// including the NUL
    pub name: Range<usize>,
    pub cigar: Range<usize>,
    pub seq: Range<usize>,
    pub qual: Range<usize>,
    pub aux: Range<usize>,
}

fn le32(b: &[u8], at: usize) -> u32 {
    u32::from_le_bytes([b[at], b[at + 1], b[at + 2], b[at + 3]])
}

fn le16(b: &[u8], at: usize) -> u16 {
    u16::from_le_bytes([b[at], b[at + 1]])
}

/// Splits one record body (the `block_size` bytes after the length word).
pub fn split_bam_record(b: &[u8]) -> Result<BamParts, String> {
    if b.len() < 32 {
        return Err(format!("record body of {} bytes is shorter than the fixed 32-byte core", b.len()));
    }
    let core = BamCore {
        ref_id: le32(b, 0) as i32,
        pos: le32(b, 4) as i32,
        l_read_name: b[8],
        mapq: b[9],
        bin: le16(b, 10),
        n_cigar_op: le16(b, 12),
        flag: le16(b, 14),
        l_seq: le32(b, 16),
        next_ref_id: le32(b, 20) as i32,
        next_pos: le32(b, 24) as i32,
        tlen: le32(b, 28) as i32,
    };
    let mut at = 32usize;
    let mut take = |n: usize, what: &str| -> Result<Range<usize>, String> {
        if at + n > b.len() {
            return Err(format!("{what} ({n} bytes at {at}) runs past the end of the {}-byte record", b.len()));
        }
        let r = at..at + n;
        at += n;
        Ok(r)
    };
    let name = take(core.l_read_name as usize, "read_name")?;
    let cigar = take(core.n_cigar_op as usize * 4, "cigar")?;
    let seq = take((core.l_seq as usize).div_ceil(2), "seq")?;
    let qual = take(core.l_seq as usize, "qual")?;
    let aux = at..b.len();
    Ok(BamParts { core, name, cigar, seq, qual, aux })
}

fn decode_aux(mut b: &[u8]) -> Result<Vec<(Tag2, AuxDesc)>, String> {
    let mut out = Vec::new();
    fn take<'a>(b: &mut &'a [u8], n: usize) -> Result<&'a [u8], String> {
        if b.len() < n {
            return Err(format!("aux: {n} bytes wanted, {} left", b.len()));
        }
        let (a, r) = b.split_at(n);
        *b = r;
        Ok(a)
    }
    fn cstr(b: &mut &[u8]) -> Result<Vec<u8>, String> {
        let n = b.iter().position(|x| *x == 0).ok_or("aux: string without NUL")?;
        let s = b[..n].to_vec();
        *b = &b[n + 1..];
        Ok(s)
    }
    while !b.is_empty() {
        let t = take(&mut b, 3)?;
        let tag = [t[0], t[1]];
        let v = match t[2] {
            b'A' => AuxDesc::A(take(&mut b, 1)?[0]),
            b'c' => AuxDesc::I8(take(&mut b, 1)?[0] as i8),
            b'C' => AuxDesc::U8(take(&mut b, 1)?[0]),
            b's' => AuxDesc::I16(i16::from_le_bytes(take(&mut b, 2)?.try_into().unwrap())),
            b'S' => AuxDesc::U16(u16::from_le_bytes(take(&mut b, 2)?.try_into().unwrap())),
            b'i' => AuxDesc::I32(i32::from_le_bytes(take(&mut b, 4)?.try_into().unwrap())),
            b'I' => AuxDesc::U32(u32::from_le_bytes(take(&mut b, 4)?.try_into().unwrap())),
            b'f' => AuxDesc::F(f32::from_le_bytes(take(&mut b, 4)?.try_into().unwrap())),
            b'Z' => AuxDesc::Z(cstr(&mut b)?),
            b'H' => AuxDesc::H(cstr(&mut b)?),
            b'B' => {
                let h = take(&mut b, 5)?;
                let n = u32::from_le_bytes([h[1], h[2], h[3], h[4]]) as usize;
                macro_rules! arr {
                    ($t:ty, $w:expr, $ctor:expr) => {{
                        let raw = take(&mut b, n.checked_mul($w).ok_or("aux: array size overflow")?)?;
                        $ctor(raw.chunks_exact($w).map(|c| <$t>::from_le_bytes(c.try_into().unwrap())).collect())
                    }};
                }
                match h[0] {
                    b'c' => arr!(i8, 1, AuxDesc::BI8),
                    b'C' => arr!(u8, 1, AuxDesc::BU8),
                    b's' => arr!(i16, 2, AuxDesc::BI16),
                    b'S' => arr!(u16, 2, AuxDesc::BU16),
                    b'i' => arr!(i32, 4, AuxDesc::BI32),
                    b'I' => arr!(u32, 4, AuxDesc::BU32),
                    b'f' => arr!(f32, 4, AuxDesc::BF),
                    x => return Err(format!("aux: array subtype {x:#x}")),
                }
            }
            x => return Err(format!("aux: type {x:#x}")),
        };
        out.push((tag, v));
    }
    Ok(out)
}

/// Decodes one record body *as stored*: the CIGAR is the one in the CIGAR field (a `kSmN`
/// placeholder stays a placeholder), the `CG` tag stays among the auxiliary fields, MAPQ 255 is
/// `Some(255)`, QUAL is `None` when `l_seq` = 0 or all bytes are 0xFF. For odd `l_seq` the unused
/// low nibble is returned separately (the specification leaves it undefined, recommends 0).
pub fn decode_bam_record(b: &[u8]) -> Result<(BamParts, RecDesc, Option<u8>), String> {
    let p = split_bam_record(b)?;
    let c = &p.core;
    let id = |n: i32, what: &str| -> Result<Option<usize>, String> {
        match n {
            -1 => Ok(None),
            n if n < -1 => Err(format!("{what} = {n}")),
            n => Ok(Some(n as usize)),
        }
    };
    let pos = |n: i32, what: &str| -> Result<Option<u64>, String> {
        match n {
            -1 => Ok(None),
            n if n < -1 => Err(format!("{what} = {n}")),
            n => Ok(Some(n as u64 + 1)),
        }
    };
    let nm = &b[p.name.clone()];
    if nm.is_empty() || *nm.last().unwrap() != 0 {
        return Err("read_name is not NUL-terminated".into());
    }
    let nm = &nm[..nm.len() - 1];
    if nm.contains(&0) {
        return Err("read_name contains an inner NUL".into());
    }
    let mut r = RecDesc {
        name: if nm == b"*" { None } else { Some(nm.to_vec()) },
        flags: c.flag,
        ref_id: id(c.ref_id, "refID")?,
        pos: pos(c.pos, "pos")?,
        mapq: Some(c.mapq),
        mate_ref_id: id(c.next_ref_id, "next_refID")?,
        mate_pos: pos(c.next_pos, "next_pos")?,
        tlen: c.tlen,
        ..Default::default()
    };
    for ch in b[p.cigar.clone()].chunks_exact(4) {
        let v = u32::from_le_bytes(ch.try_into().unwrap());
        let k = (v & 0xf) as usize;
        if k > 8 {
            return Err(format!("cigar operation code {k}"));
        }
        r.cigar.push((CIGAR_OPS[k], v >> 4));
    }
    let n = c.l_seq as usize;
    let sb = &b[p.seq.clone()];
    r.seq = (0..n).map(|i| BAM_BASES[(if i % 2 == 0 { sb[i / 2] >> 4 } else { sb[i / 2] & 0xf }) as usize]).collect();
    let spare = if n % 2 == 1 { Some(sb[n / 2] & 0xf) } else { None };
    let q = &b[p.qual.clone()];
    r.qual = if n == 0 || q.iter().all(|x| *x == 0xff) { None } else { Some(q.to_vec()) };
    r.aux = decode_aux(&b[p.aux.clone()])?;
    Ok((p, r, spare))
}

#[derive(Clone, Debug, Default)]
pub struct BamStream {
    /// header text (`l_text` bytes, as stored)
    pub text: Vec<u8>,
    /// binary reference list: (name without NUL, l_ref)
    pub refs: Vec<(Vec<u8>, i32)>,
    /// byte range of every record body in the stream
    pub records: Vec<Range<usize>>,
}

/// Splits an *uncompressed* BAM stream (inflate BGZF first, e.g. with `vcore::bgzf::walk`).
pub fn split_bam_stream(b: &[u8]) -> Result<BamStream, String> {
    if b.len() < 12 || &b[..4] != b"BAM\x01" {
        return Err("no BAM magic".into());
    }
    let l_text = le32(b, 4) as usize;
    let mut at = 8usize;
    if at + l_text + 4 > b.len() {
        return Err("header text runs past the end".into());
    }
    let mut s = BamStream { text: b[at..at + l_text].to_vec(), ..Default::default() };
    at += l_text;
    let n_ref = le32(b, at) as usize;
    at += 4;
    for i in 0..n_ref {
        if at + 4 > b.len() {
            return Err(format!("reference {i}: truncated"));
        }
        let l_name = le32(b, at) as usize;
        at += 4;
        if l_name == 0 || at + l_name + 4 > b.len() {
            return Err(format!("reference {i}: name of {l_name} bytes runs past the end"));
        }
        let name = &b[at..at + l_name];
        if *name.last().unwrap() != 0 {
            return Err(format!("reference {i}: name not NUL-terminated"));
        }
        at += l_name;
        s.refs.push((name[..l_name - 1].to_vec(), le32(b, at) as i32));
        at += 4;
    }
    while at < b.len() {
        if at + 4 > b.len() {
            return Err(format!("record {}: truncated block_size", s.records.len()));
        }
        let n = le32(b, at) as usize;
        at += 4;
        if at + n > b.len() {
            return Err(format!("record {}: block of {n} bytes runs past the end", s.records.len()));
        }
        s.records.push(at..at + n);
        at += n;
    }
    Ok(s)
}
