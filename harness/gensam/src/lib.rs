//! gensam — stub (to be implemented).
