//! gensam — the shared SAM data-model generator of the monitoring harness.
//!
//! Everything is built around *plain descriptions* owned by the harness (`RecDesc`, `AuxDesc`,
//! `HeaderDesc`: byte strings, integers, op lists — no noodles type inside). Generators emit
//! descriptions; conversions turn a description into the noodles value handed to the code under
//! observation; oracles (expected normal forms, independent SAM text, independent BAM decoding,
//! spans, bins) are computed from the description, never by asking noodles.
//!
//! # API (keep stable; other monitors depend on it)
//!
//! Descriptions (`desc`): `RecDesc { name, flags, ref_id, pos (1-based), mapq, cigar: Vec<(op char,
//! len)>, mate_ref_id, mate_pos, tlen, seq, qual (raw scores), aux: Vec<([u8;2], AuxDesc)> }`,
//! `AuxDesc::{A,I8,U8,I16,U16,I32,U32,F,Z,H,BI8,BU8,BI16,BU16,BI32,BU32,BF}`,
//! `HeaderDesc { hd: Option<HdDesc{version,tags}>, sq: Vec<SqDesc{name,len,tags}>, rg/pg:
//! Vec<MapDesc{id,tags}>, co }`, `span(&RecDesc) -> Option<(start,end)>` (1-based inclusive, end =
//! POS + max(Σ M/D/N/=/X, 1) − 1), `bam_bases(seq)` (BAM 4-bit alphabet normal form),
//! `RecDesc::{read_len, ref_len}`.
//!
//! Generators (`generate`), pure functions of the `vcore::Rng` state:
//! * `gen_header(&mut Rng, &HeaderOpts) -> HeaderDesc` (`HeaderOpts::full()`, `::plain(n)`);
//! * `gen_record(&mut Rng, &HeaderDesc, &RecOpts) -> RecDesc` with `RecOpts::full()` (the whole C05
//!   quantifier), `::sam_text()` (what SAM text can carry and BAM accepts), `::common()` (the
//!   safe/common sub-model: consistent flags, alignments inside the reference, ACGTN); fields
//!   `max_seq_len`, `huge_cigar_permille` (CIGARs of 65535/65536/65537/70000 ops), `max_aux`,
//!   `max_array_len`, `nonfinite_floats`;
//! * `gen_invalid_record(&mut Rng, &HeaderDesc, &RecOpts, Invalid) -> RecDesc`: a valid record with
//!   one out-of-range aspect (`INVALID_KINDS`, `Invalid::cannot_fit_bam`);
//! * `boundary_records(&HeaderDesc, Level, huge) -> Vec<RecDesc>`: deterministic boundary corpus;
//! * history-dependent reader state (reused buffers): `adjacency_corpus(&HeaderDesc)` (deterministic
//!   rich -> missing -> rich and long -> short -> long neighbours for every optional / variable-length
//!   part), `gen_record_batch(&mut Rng, &HeaderDesc, &RecOpts, n)` (like `gen_record`, with stripped
//!   followers), `rich_record`, `minimal_record`, `strip(&RecDesc, field)`, `OPTIONAL_FIELDS`. Read
//!   such batches back through ONE reader with ONE reused buffer, not a fresh buffer per record;
//! * `coordinate_sorted_set(&mut Rng, &HeaderDesc, n, &RecOpts) -> Vec<RecDesc>`: records in
//!   coordinate order straddling bin edges, long-before-short, dense runs, placed/unplaced unmapped;
//! * `rec_class(&RecDesc) -> String`, `aux_classes(&RecDesc) -> Vec<String>`: coarse classes for
//!   distinct-case fingerprints; `summary(&RecDesc)`: short SAM-like rendering for diagnostics.
//!
//! Conversions (`conv`): `to_record_buf(&RecDesc, &HeaderDesc) -> RecordBuf`, `to_header(&HeaderDesc)
//! -> sam::Header` (through noodles' builders/setters), and the inverses `describe_record(&RecordBuf)`,
//! `describe_header(&sam::Header)`; `describe_alignment_record(&impl sam::alignment::Record, &Header)
//! -> Result<RecDesc, String>` (every accessor of the trait, for lazy records), `describe_lazy_value`;
//! `to_value`/`describe_value`, `kind_of`/`char_of`.
//!
//! Independent SAM text (`text`): `to_sam_line`, `sam_columns`, `aux_text`,
//! `aux_text_is_canonical`, `header_text`, `parse_sam_line` and `parse_header_text` (dumb TAB-splitting
//! readers).
//!
//! Independent BAM (`bam`): `reg2bin(beg,end)` (SAMv1 5.3), `expected_bin(&RecDesc)`,
//! `split_bam_stream(uncompressed) -> BamStream{text, refs, records}`, `split_bam_record(body) ->
//! BamParts{core: BamCore, name/cigar/seq/qual/aux ranges}`, `decode_bam_record(body) -> (BamParts,
//! RecDesc as stored, spare nibble)`.
//!
//! Comparison (`cmp`): `bam_normal_form`, `sam_normal_form`, `diff_records(exp, got, &Cmp) ->
//! Option<Diff{field, detail}>` with `Cmp::EXACT` (declared aux types, float bits) and `Cmp::TEXT`
//! (integers by value). `HeaderDesc` is `Eq`.

pub mod bam;
pub mod cmp;
pub mod conv;
pub mod desc;
pub mod generate;
pub mod text;

pub use bam::{BamCore, BamParts, BamStream, decode_bam_record, expected_bin, reg2bin, split_bam_record, split_bam_stream};
pub use cmp::{Cmp, Diff, bam_normal_form, diff_records, sam_normal_form};
pub use conv::{describe_alignment_record, describe_header, describe_lazy_value, describe_record, to_header, to_record_buf};
pub use desc::{AuxDesc, BAM_BASES, CIGAR_OPS, HdDesc, HeaderDesc, MapDesc, RecDesc, SqDesc, Tag2, bam_bases, span, summary};
pub use generate::{
    AUX_KINDS, HeaderOpts, INVALID_KINDS, Invalid, Level, RecOpts, boundary_records, coordinate_sorted_set, gen_header, gen_invalid_record,
    gen_record, rec_class,
};
pub use generate::{OPTIONAL_FIELDS, adjacency_corpus, aux_classes, gen_record_batch, minimal_record, rich_record, strip};
pub use text::{aux_text, aux_text_is_canonical, header_text, parse_header_text, parse_sam_line, sam_columns, to_sam_line};

#[cfg(test)]
mod tests {
    use super::*;
    use vcore::Rng;

    #[test]
    fn reg2bin_examples() {
        assert_eq!(reg2bin(-1, 0), 4680);
        assert_eq!(reg2bin(0, 1), 4681);
        assert_eq!(reg2bin(0, 1 << 14), 4681);
        assert_eq!(reg2bin(0, (1 << 14) + 1), 585);
        assert_eq!(reg2bin((1 << 29) - 1, 1 << 29), 4681 + 32767);
        assert_eq!(reg2bin(0, 1 << 29), 0);
    }

    #[test]
    fn description_roundtrips_through_own_text_and_model() {
        let mut rng = Rng::new(1, 2, 3);
        for i in 0..300 {
            let h = gen_header(&mut rng, &HeaderOpts::full());
            let nh = to_header(&h);
            assert_eq!(describe_header(&nh), h, "header {i}");
            for o in [RecOpts::full(), RecOpts::sam_text(), RecOpts::common()] {
                let r = gen_record(&mut rng, &h, &o);
                let rb = to_record_buf(&r, &h);
                let back = describe_record(&rb);
                let exp = RecDesc { mapq: r.mapq.filter(|q| *q != 255), ..r.clone() };
                assert!(diff_records(&exp, &back, &Cmp::EXACT).is_none(), "{:?}", diff_records(&exp, &back, &Cmp::EXACT));
                if o.level != Level::Full {
                    let line = to_sam_line(&r, &h);
                    let p = parse_sam_line(&line, &h).unwrap();
                    let d = diff_records(&sam_normal_form(&r), &p, &Cmp::TEXT);
                    assert!(d.is_none(), "{d:?}\n{}", String::from_utf8_lossy(&line));
                }
            }
        }
    }

    #[test]
    fn sorted_sets_are_sorted_and_inside() {
        let mut rng = Rng::new(5, 5, 5);
        for _ in 0..20 {
            let h = gen_header(&mut rng, &HeaderOpts { min_refs: 1, max_refs: 6, big_refs: true, rich: false, hd: Some(true) });
            let v = coordinate_sorted_set(&mut rng, &h, 300, &RecOpts::common());
            assert!(v.len() >= 300);
            let key = |r: &RecDesc| (r.ref_id.map(|x| x as i64).unwrap_or(i64::MAX), r.pos.unwrap_or(0));
            for w in v.windows(2) {
                assert!(key(&w[0]) <= key(&w[1]));
            }
            for r in &v {
                if let (Some(id), Some((_, e))) = (r.ref_id, span(r)) {
                    assert!(e <= h.sq[id].len, "{r:?}");
                }
                if !r.seq.is_empty() && !r.cigar.is_empty() {
                    assert_eq!(r.read_len() as usize, r.seq.len());
                }
            }
        }
    }
}
