//! SAM text written and read from the specification (SAMv1 1.3–1.5), independently of noodles: a
//! third opinion between noodles' writer and noodles' parser.

use crate::desc::*;

fn push_num(out: &mut Vec<u8>, n: impl std::fmt::Display) {
    out.extend_from_slice(n.to_string().as_bytes());
}

/// Text of one auxiliary field, `TAG:TYPE:VALUE`. Integers of every width print as `i`; floats
/// print in Rust's shortest round-trip form (one of many valid spellings: see
/// `aux_text_is_canonical`).
pub fn aux_text(tag: Tag2, v: &AuxDesc) -> Vec<u8> {
    let mut o = Vec::new();
    o.extend_from_slice(&tag);
    o.push(b':');
    macro_rules! arr {
        ($c:expr, $v:expr) => {{
            o.extend_from_slice(b"B:");
            o.push($c);
            for x in $v {
                o.push(b',');
                push_num(&mut o, x);
            }
        }};
    }
    match v {
        AuxDesc::A(c) => {
            o.extend_from_slice(b"A:");
            o.push(*c);
        }
        AuxDesc::F(f) => {
            o.extend_from_slice(b"f:");
            push_num(&mut o, f);
        }
        AuxDesc::Z(s) => {
            o.extend_from_slice(b"Z:");
            o.extend_from_slice(s);
        }
        AuxDesc::H(s) => {
            o.extend_from_slice(b"H:");
            o.extend_from_slice(s);
        }
        AuxDesc::BI8(v) => arr!(b'c', v),
        AuxDesc::BU8(v) => arr!(b'C', v),
        AuxDesc::BI16(v) => arr!(b's', v),
        AuxDesc::BU16(v) => arr!(b'S', v),
        AuxDesc::BI32(v) => arr!(b'i', v),
        AuxDesc::BU32(v) => arr!(b'I', v),
        AuxDesc::BF(v) => arr!(b'f', v),
        int => {
            o.extend_from_slice(b"i:");
            push_num(&mut o, int.as_int().expect("integer"));
        }
    }
    o
}

/// False for values whose text has several valid spellings (floats: `1`, `1.0`, `1e0`, ...).
pub fn aux_text_is_canonical(v: &AuxDesc) -> bool {
    !matches!(v, AuxDesc::F(_) | AuxDesc::BF(_))
}

/// The columns of the SAM line of `r`: 11 mandatory ones, then one per auxiliary field. RNEXT is
/// `=` when the mate reference equals the (present) reference. Reference ids outside the dictionary
/// print as `?<id>` (not valid SAM; such records are rejection cases).
pub fn sam_columns(r: &RecDesc, hdr: &HeaderDesc) -> Vec<Vec<u8>> {
    let rname = |id: Option<usize>| match id {
        None => b"*".to_vec(),
        Some(i) => hdr.sq.get(i).map(|s| s.name.clone()).unwrap_or_else(|| format!("?{i}").into_bytes()),
    };
    let mut c: Vec<Vec<u8>> = Vec::with_capacity(11 + r.aux.len());
    c.push(r.name.clone().unwrap_or_else(|| b"*".to_vec()));
    c.push(r.flags.to_string().into_bytes());
    c.push(rname(r.ref_id));
    c.push(r.pos.unwrap_or(0).to_string().into_bytes());
    c.push(r.mapq.unwrap_or(255).to_string().into_bytes());
    if r.cigar.is_empty() {
        c.push(b"*".to_vec());
    } else {
        let mut s = Vec::new();
        for (k, n) in &r.cigar {
            push_num(&mut s, n);
            s.push(*k);
        }
        c.push(s);
    }
    c.push(if r.mate_ref_id.is_some() && r.mate_ref_id == r.ref_id { b"=".to_vec() } else { rname(r.mate_ref_id) });
    c.push(r.mate_pos.unwrap_or(0).to_string().into_bytes());
    c.push(r.tlen.to_string().into_bytes());
    c.push(if r.seq.is_empty() { b"*".to_vec() } else { r.seq.clone() });
    c.push(match &r.qual {
        Some(q) if !q.is_empty() => q.iter().map(|s| s.wrapping_add(33)).collect(),
        _ => b"*".to_vec(),
    });
    for (t, v) in &r.aux {
        c.push(aux_text(*t, v));
    }
    c
}

/// The SAM line of `r` without the trailing newline (`sam_columns` joined by TAB).
pub fn to_sam_line(r: &RecDesc, hdr: &HeaderDesc) -> Vec<u8> {
    sam_columns(r, hdr).join(&b'\t')
}

/// Header text: `@HD` first, then all `@SQ`, `@RG`, `@PG`, `@CO` lines, each group in the order of
/// the description; structural tags first on a line (VN; SN, LN; ID), the others in order. This is
/// the only order a writer of a typed header (one @HD, then maps per line kind) can produce, and
/// the first line must be @HD by SAMv1 1.3.
pub fn header_text(h: &HeaderDesc) -> Vec<u8> {
    let mut o = Vec::new();
    let tags = |o: &mut Vec<u8>, tags: &[(Tag2, Vec<u8>)]| {
        for (t, v) in tags {
            o.push(b'\t');
            o.extend_from_slice(t);
            o.push(b':');
            o.extend_from_slice(v);
        }
        o.push(b'\n');
    };
    if let Some(hd) = &h.hd {
        o.extend_from_slice(format!("@HD\tVN:{}.{}", hd.version.0, hd.version.1).as_bytes());
        tags(&mut o, &hd.tags);
    }
    for sq in &h.sq {
        o.extend_from_slice(b"@SQ\tSN:");
        o.extend_from_slice(&sq.name);
        o.extend_from_slice(format!("\tLN:{}", sq.len).as_bytes());
        tags(&mut o, &sq.tags);
    }
    for (kind, list) in [("@RG", &h.rg), ("@PG", &h.pg)] {
        for m in list {
            o.extend_from_slice(kind.as_bytes());
            o.extend_from_slice(b"\tID:");
            o.extend_from_slice(&m.id);
            tags(&mut o, &m.tags);
        }
    }
    for c in &h.co {
        o.extend_from_slice(b"@CO\t");
        o.extend_from_slice(c);
        o.push(b'\n');
    }
    o
}

fn num<T: std::str::FromStr>(s: &[u8], what: &str) -> Result<T, String> {
    std::str::from_utf8(s).ok().and_then(|t| t.parse::<T>().ok()).ok_or_else(|| format!("{what}: bad number {:?}", String::from_utf8_lossy(s)))
}

fn parse_array<T: std::str::FromStr>(rest: &[u8], what: &str) -> Result<Vec<T>, String> {
    if rest.is_empty() {
        return Ok(Vec::new());
    }
    if rest[0] != b',' {
        return Err(format!("{what}: array without comma after the subtype"));
    }
    rest[1..].split(|b| *b == b',').map(|x| num::<T>(x, what)).collect()
}

/// A deliberately dumb SAM line reader (split at TAB, decimal numbers through Rust's std parsers).
/// Integer fields come back as `I32` when they fit and `U32` otherwise (SAM has one integer type);
/// `=` in RNEXT is resolved to the RNAME id; QUAL `*` is "missing" whatever SEQ is.
pub fn parse_sam_line(line: &[u8], hdr: &HeaderDesc) -> Result<RecDesc, String> {
    let line = line.strip_suffix(b"\n").unwrap_or(line);
    let c: Vec<&[u8]> = line.split(|b| *b == b'\t').collect();
    if c.len() < 11 {
        return Err(format!("{} columns", c.len()));
    }
    let rid = |s: &[u8], what: &str| -> Result<Option<usize>, String> {
        if s == b"*" {
            return Ok(None);
        }
        hdr.sq.iter().position(|q| q.name == s).map(Some).ok_or_else(|| format!("{what}: unknown reference {:?}", String::from_utf8_lossy(s)))
    };
    let pos = |s: &[u8], what: &str| -> Result<Option<u64>, String> { Ok(Some(num::<u64>(s, what)?).filter(|p| *p != 0)) };
    let mut r = RecDesc { name: if c[0] == b"*" { None } else { Some(c[0].to_vec()) }, flags: num(c[1], "FLAG")?, ..Default::default() };
    r.ref_id = rid(c[2], "RNAME")?;
    r.pos = pos(c[3], "POS")?;
    r.mapq = Some(num::<u8>(c[4], "MAPQ")?);
    if c[5] != b"*" {
        let mut n = 0u64;
        let mut digits = 0;
        for &b in c[5] {
            if b.is_ascii_digit() {
                n = n * 10 + (b - b'0') as u64;
                digits += 1;
                if n > u32::MAX as u64 {
                    return Err("CIGAR: length overflow".into());
                }
            } else {
                if digits == 0 || !CIGAR_OPS.contains(&b) {
                    return Err(format!("CIGAR: bad operation {:?}", b as char));
                }
                r.cigar.push((b, n as u32));
                n = 0;
                digits = 0;
            }
        }
        if digits != 0 {
            return Err("CIGAR: trailing digits".into());
        }
    }
    r.mate_ref_id = if c[6] == b"=" { r.ref_id } else { rid(c[6], "RNEXT")? };
    r.mate_pos = pos(c[7], "PNEXT")?;
    r.tlen = num(c[8], "TLEN")?;
    r.seq = if c[9] == b"*" { Vec::new() } else { c[9].to_vec() };
    r.qual = if c[10] == b"*" {
        None
    } else {
        if c[10].iter().any(|b| !(33..=126).contains(b)) {
            return Err("QUAL: byte outside [!-~]".into());
        }
        Some(c[10].iter().map(|b| b - 33).collect())
    };
    for f in &c[11..] {
        if f.len() < 5 || f[2] != b':' || f[4] != b':' {
            return Err(format!("aux: malformed field {:?}", String::from_utf8_lossy(f)));
        }
        let tag = [f[0], f[1]];
        let v = &f[5..];
        let what = "aux";
        let a = match f[3] {
            b'A' if v.len() == 1 => AuxDesc::A(v[0]),
            b'i' => {
                let n = num::<i64>(v, what)?;
                if let Ok(x) = i32::try_from(n) {
                    AuxDesc::I32(x)
                } else if let Ok(x) = u32::try_from(n) {
                    AuxDesc::U32(x)
                } else {
                    return Err(format!("aux: integer {n} outside [-2^31, 2^32)"));
                }
            }
            b'f' => AuxDesc::F(num::<f32>(v, what)?),
            b'Z' => AuxDesc::Z(v.to_vec()),
            b'H' => AuxDesc::H(v.to_vec()),
            b'B' if !v.is_empty() => match v[0] {
                b'c' => AuxDesc::BI8(parse_array(&v[1..], what)?),
                b'C' => AuxDesc::BU8(parse_array(&v[1..], what)?),
                b's' => AuxDesc::BI16(parse_array(&v[1..], what)?),
                b'S' => AuxDesc::BU16(parse_array(&v[1..], what)?),
                b'i' => AuxDesc::BI32(parse_array(&v[1..], what)?),
                b'I' => AuxDesc::BU32(parse_array(&v[1..], what)?),
                b'f' => AuxDesc::BF(parse_array(&v[1..], what)?),
                x => return Err(format!("aux: array subtype {:?}", x as char)),
            },
            x => return Err(format!("aux: type {:?}", x as char)),
        };
        r.aux.push((tag, a));
    }
    Ok(r)
}

/// A deliberately dumb header reader: lines split at LF, fields at TAB, `TAG:value` at the first
/// colon; `@CO` keeps everything after the first TAB. Lines must come grouped as `header_text`
/// writes them only in so far as @HD must be first; other kinds may interleave (each kind keeps its
/// own order).
pub fn parse_header_text(text: &[u8]) -> Result<HeaderDesc, String> {
    let mut h = HeaderDesc::default();
    if text.is_empty() {
        return Ok(h);
    }
    let body = text.strip_suffix(b"\n").ok_or("header text does not end with a newline")?;
    for (ln, line) in body.split(|b| *b == b'\n').enumerate() {
        if line.len() < 3 || line[0] != b'@' {
            return Err(format!("line {ln}: not a header line"));
        }
        let kind = &line[1..3];
        if kind == b"CO" {
            if line.get(3) != Some(&b'\t') {
                return Err(format!("line {ln}: @CO without TAB"));
            }
            h.co.push(line[4..].to_vec());
            continue;
        }
        let mut fields: Vec<(Tag2, Vec<u8>)> = Vec::new();
        for f in line[3..].split(|b| *b == b'\t').skip(1) {
            if f.len() < 4 || f[2] != b':' {
                return Err(format!("line {ln}: malformed field {:?}", String::from_utf8_lossy(f)));
            }
            fields.push(([f[0], f[1]], f[3..].to_vec()));
        }
        if line.get(3) != Some(&b'\t') {
            return Err(format!("line {ln}: no fields"));
        }
        let mut take = |t: &[u8; 2]| -> Result<Vec<u8>, String> {
            let i = fields.iter().position(|e| &e.0 == t).ok_or_else(|| format!("line {ln}: no {} field", String::from_utf8_lossy(t)))?;
            Ok(fields.remove(i).1)
        };
        match kind {
            b"HD" => {
                if ln != 0 {
                    return Err(format!("line {ln}: @HD is not the first line"));
                }
                let vn = take(b"VN")?;
                let s = std::str::from_utf8(&vn).map_err(|_| "VN not text")?;
                let (a, b) = s.split_once('.').ok_or("VN without dot")?;
                let version = (a.parse::<u32>().map_err(|_| "VN major")?, b.parse::<u32>().map_err(|_| "VN minor")?);
                h.hd = Some(HdDesc { version, tags: fields });
            }
            b"SQ" => {
                let name = take(b"SN")?;
                let len = num::<u64>(&take(b"LN")?, "LN")?;
                h.sq.push(SqDesc { name, len, tags: fields });
            }
            b"RG" => {
                let id = take(b"ID")?;
                h.rg.push(MapDesc { id, tags: fields });
            }
            b"PG" => {
                let id = take(b"ID")?;
                h.pg.push(MapDesc { id, tags: fields });
            }
            k => return Err(format!("line {ln}: unknown record type @{}", String::from_utf8_lossy(k))),
        }
    }
    Ok(h)
}
