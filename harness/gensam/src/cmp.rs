//! Expected normal forms and field-by-field comparison of record descriptions.

use crate::desc::*;

#[derive(Clone, Copy, Debug)]
pub struct Cmp {
    /// scalar integer fields are equal if their numeric values are (SAM text has one integer
    /// type); otherwise the declared width/signedness must match too (BAM keeps it)
    pub int_by_value: bool,
    /// floats must be bit-identical (NaN = any NaN); otherwise IEEE `==` (so -0 == +0) or both NaN
    pub float_bits: bool,
}

impl Cmp {
    /// What a binary trip must preserve: declared types and float bits.
    pub const EXACT: Cmp = Cmp { int_by_value: false, float_bits: true };
    /// What a trip through SAM text must preserve: integer values, float values bit for bit.
    pub const TEXT: Cmp = Cmp { int_by_value: true, float_bits: true };
}

/// First difference between two descriptions.
#[derive(Clone, Debug)]
pub struct Diff {
    /// stable key of the differing field (`name`, `pos`, `cigar:count`, `aux:type`, ...)
    pub field: String,
    pub detail: String,
}

fn show(b: &[u8]) -> String {
    let s: String = b.iter().take(60).map(|c| if (0x20..0x7f).contains(c) { *c as char } else { '.' }).collect();
    if b.len() > 60 { format!("{s}… ({} bytes)", b.len()) } else { s }
}

fn feq(a: f32, b: f32, c: &Cmp) -> bool {
    if a.is_nan() || b.is_nan() {
        return a.is_nan() && b.is_nan();
    }
    if c.float_bits { a.to_bits() == b.to_bits() } else { a == b }
}

fn aux_diff(e: &AuxDesc, g: &AuxDesc, c: &Cmp) -> Option<Diff> {
    let d = |field: String, detail: String| Some(Diff { field, detail });
    if let (Some(a), Some(b)) = (e.as_int(), g.as_int()) {
        if a != b {
            return d(format!("aux:value:{}", e.type_code()), format!("expected {a}, got {b}"));
        }
        if !c.int_by_value && e.type_code() != g.type_code() {
            return d(format!("aux:type:{}->{}", e.type_code(), g.type_code()), format!("value {a}"));
        }
        return None;
    }
    if e.type_code() != g.type_code() {
        return d(format!("aux:type:{}->{}", e.type_code(), g.type_code()), format!("expected {e:?}, got {g:?}").chars().take(300).collect());
    }
    macro_rules! arr {
        ($a:expr, $b:expr) => {{
            if $a.len() != $b.len() {
                return d(format!("aux:array-len:{}", e.type_code()), format!("expected {} elements, got {}", $a.len(), $b.len()));
            }
            if let Some(i) = (0..$a.len()).find(|&i| $a[i] != $b[i]) {
                return d(format!("aux:value:{}", e.type_code()), format!("element {i}: expected {:?}, got {:?}", $a[i], $b[i]));
            }
            None
        }};
    }
    match (e, g) {
        (AuxDesc::A(a), AuxDesc::A(b)) if a != b => d("aux:value:A".into(), format!("expected {a:#x}, got {b:#x}")),
        (AuxDesc::F(a), AuxDesc::F(b)) if !feq(*a, *b, c) => {
            d("aux:value:f".into(), format!("expected {a:e} ({:#010x}), got {b:e} ({:#010x})", a.to_bits(), b.to_bits()))
        }
        (AuxDesc::Z(a), AuxDesc::Z(b)) if a != b => d("aux:value:Z".into(), format!("expected {:?}, got {:?}", show(a), show(b))),
        (AuxDesc::H(a), AuxDesc::H(b)) if a != b => d("aux:value:H".into(), format!("expected {:?}, got {:?}", show(a), show(b))),
        (AuxDesc::BI8(a), AuxDesc::BI8(b)) => arr!(a, b),
        (AuxDesc::BU8(a), AuxDesc::BU8(b)) => arr!(a, b),
        (AuxDesc::BI16(a), AuxDesc::BI16(b)) => arr!(a, b),
        (AuxDesc::BU16(a), AuxDesc::BU16(b)) => arr!(a, b),
        (AuxDesc::BI32(a), AuxDesc::BI32(b)) => arr!(a, b),
        (AuxDesc::BU32(a), AuxDesc::BU32(b)) => arr!(a, b),
        (AuxDesc::BF(a), AuxDesc::BF(b)) => {
            if a.len() != b.len() {
                return d("aux:array-len:Bf".into(), format!("expected {} elements, got {}", a.len(), b.len()));
            }
            if let Some(i) = (0..a.len()).find(|&i| !feq(a[i], b[i], c)) {
                return d("aux:value:Bf".into(), format!("element {i}: expected {:e} ({:#010x}), got {:e} ({:#010x})", a[i], a[i].to_bits(), b[i], b[i].to_bits()));
            }
            None
        }
        _ => None,
    }
}

/// First field in which `got` differs from `exp`, in column order. MAPQ `None` and `Some(255)` are
/// the same value (SAMv1 1.4.5), QUAL `None` and `Some(empty)` too. Auxiliary fields are compared
/// in order (both formats keep the order of fields).
pub fn diff_records(exp: &RecDesc, got: &RecDesc, c: &Cmp) -> Option<Diff> {
    let d = |field: &str, detail: String| Some(Diff { field: field.to_string(), detail });
    if exp.name != got.name {
        return d(
            "name",
            format!("expected {:?}, got {:?}", exp.name.as_deref().map(show), got.name.as_deref().map(show)),
        );
    }
    if exp.flags != got.flags {
        return d("flags", format!("expected {:#x}, got {:#x}", exp.flags, got.flags));
    }
    if exp.ref_id != got.ref_id {
        return d("ref_id", format!("expected {:?}, got {:?}", exp.ref_id, got.ref_id));
    }
    if exp.pos != got.pos {
        return d("pos", format!("expected {:?}, got {:?}", exp.pos, got.pos));
    }
    let mq = |m: Option<u8>| m.filter(|q| *q != 255);
    if mq(exp.mapq) != mq(got.mapq) {
        return d("mapq", format!("expected {:?}, got {:?}", exp.mapq, got.mapq));
    }
    if exp.cigar.len() != got.cigar.len() {
        return d("cigar:count", format!("expected {} operations, got {}", exp.cigar.len(), got.cigar.len()));
    }
    if let Some(i) = (0..exp.cigar.len()).find(|&i| exp.cigar[i] != got.cigar[i]) {
        let (a, b) = (exp.cigar[i], got.cigar[i]);
        return d("cigar:op", format!("operation {i}: expected {}{}, got {}{}", a.1, a.0 as char, b.1, b.0 as char));
    }
    if exp.mate_ref_id != got.mate_ref_id {
        return d("mate_ref_id", format!("expected {:?}, got {:?}", exp.mate_ref_id, got.mate_ref_id));
    }
    if exp.mate_pos != got.mate_pos {
        return d("mate_pos", format!("expected {:?}, got {:?}", exp.mate_pos, got.mate_pos));
    }
    if exp.tlen != got.tlen {
        return d("tlen", format!("expected {}, got {}", exp.tlen, got.tlen));
    }
    if exp.seq.len() != got.seq.len() {
        return d("seq:len", format!("expected {} bases, got {}", exp.seq.len(), got.seq.len()));
    }
    if let Some(i) = (0..exp.seq.len()).find(|&i| exp.seq[i] != got.seq[i]) {
        return d("seq:base", format!("base {i} of {}: expected {:?}, got {:?}", exp.seq.len(), exp.seq[i] as char, got.seq[i] as char));
    }
    let q = |q: &Option<Vec<u8>>| q.clone().filter(|v| !v.is_empty());
    match (q(&exp.qual), q(&got.qual)) {
        (None, None) => {}
        (Some(a), Some(b)) => {
            if a.len() != b.len() {
                return d("qual:len", format!("expected {} scores, got {}", a.len(), b.len()));
            }
            if let Some(i) = (0..a.len()).find(|&i| a[i] != b[i]) {
                return d("qual:score", format!("score {i}: expected {}, got {}", a[i], b[i]));
            }
        }
        (a, b) => return d("qual:presence", format!("expected {}, got {}", if a.is_some() { "scores" } else { "none" }, if b.is_some() { "scores" } else { "none" })),
    }
    if exp.aux.len() != got.aux.len() {
        let tags = |r: &RecDesc| r.aux.iter().map(|e| String::from_utf8_lossy(&e.0).to_string()).collect::<Vec<_>>().join(",");
        return d("aux:count", format!("expected {} fields [{}], got {} [{}]", exp.aux.len(), tags(exp), got.aux.len(), tags(got)));
    }
    for (i, (e, g)) in exp.aux.iter().zip(&got.aux).enumerate() {
        if e.0 != g.0 {
            return d("aux:tag", format!("field {i}: expected tag {:?}, got {:?}", show(&e.0), show(&g.0)));
        }
        if let Some(mut x) = aux_diff(&e.1, &g.1, c) {
            x.detail = format!("field {i} ({}): {}", show(&e.0), x.detail);
            return Some(x);
        }
    }
    None
}

/// What `r` must read back as after a trip through BAM: bases folded to upper case with every
/// non-alphabet character as `N` (SAMv1 4.2.3); MAPQ 255 = missing; an empty QUAL = missing.
/// Everything else is unchanged (BAM stores the declared aux types and the float bits).
pub fn bam_normal_form(r: &RecDesc) -> RecDesc {
    let mut n = r.clone();
    n.seq = bam_bases(&r.seq);
    n.mapq = r.mapq.filter(|q| *q != 255);
    n.qual = r.qual.clone().filter(|q| !q.is_empty());
    n
}

/// What `r` must read back as after a trip through SAM text: MAPQ 255 = missing; QUAL of the
/// single score 9 prints as `*`, which *is* the missing marker (the one ambiguity of the text
/// format); integer widths are not carried (compare with `Cmp::TEXT`).
pub fn sam_normal_form(r: &RecDesc) -> RecDesc {
    let mut n = r.clone();
    n.mapq = r.mapq.filter(|q| *q != 255);
    n.qual = r.qual.clone().filter(|q| !q.is_empty() && q[..] != [9]);
    n
}
