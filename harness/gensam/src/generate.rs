//! Pure generators of headers and records (functions of the `Rng` state and the options only).

use vcore::Rng;

use crate::desc::*;

/// Which sub-model of the SAM data model a generator draws from.
#[derive(Clone, Copy, Debug, PartialEq, Eq)]
pub enum Level {
    /// Everything the in-memory/BAM model can hold and the C05 quantifier lists: arbitrary SEQ
    /// bytes (lower case, foreign letters), non-finite floats (if enabled), positions up to 2^31,
    /// flags inconsistent with the other fields, unplaced records with POS, ...
    Full,
    /// Only values SAM *text* can carry and BAM accepts as well: SEQ over `[A-Za-z=.]`, finite
    /// floats, POS <= 2^31-1, CIGAR lengths < 2^28. Flags/fields still mutually unconstrained.
    SamText,
    /// The "safe/common" sub-model: flags consistent with the fields, well-formed CIGARs inside the
    /// reference, bases `ACGTN`, qualities mostly present, conventional names and tags.
    Common,
}

#[derive(Clone, Debug)]
pub struct HeaderOpts {
    pub min_refs: usize,
    pub max_refs: usize,
    /// some references get lengths around and beyond 2^29 (up to 2^31-1); otherwise <= ~250 Mb
    pub big_refs: bool,
    /// @RG/@PG/@CO lines, optional standard tags and user tags on every line kind
    pub rich: bool,
    /// `Some(true)` always an @HD line, `Some(false)` never, `None` random
    pub hd: Option<bool>,
}

impl HeaderOpts {
    /// 0..many references, every line kind, user tags (the C06 header quantifier).
    pub fn full() -> Self {
        HeaderOpts { min_refs: 0, max_refs: 40, big_refs: true, rich: true, hd: None }
    }
    /// A plain header with `@HD`, `n` references and nothing else.
    pub fn plain(n: usize) -> Self {
        HeaderOpts { min_refs: n, max_refs: n, big_refs: false, rich: false, hd: Some(true) }
    }
}

#[derive(Clone, Debug)]
pub struct RecOpts {
    pub level: Level,
    /// upper bound of SEQ length for ordinary records (records with huge CIGARs exceed it)
    pub max_seq_len: usize,
    /// per-mille of records that get a CIGAR of 65535, 65536, 65537 or 70000 operations
    pub huge_cigar_permille: u32,
    pub max_aux: usize,
    /// largest B-array element count (reached rarely)
    pub max_array_len: usize,
    /// +-inf and NaN among float values (`Level::Full` only)
    pub nonfinite_floats: bool,
}

impl RecOpts {
    pub fn full() -> Self {
        RecOpts { level: Level::Full, max_seq_len: 400, huge_cigar_permille: 0, max_aux: 8, max_array_len: 300, nonfinite_floats: true }
    }
    pub fn sam_text() -> Self {
        RecOpts { level: Level::SamText, max_seq_len: 400, huge_cigar_permille: 0, max_aux: 8, max_array_len: 300, nonfinite_floats: false }
    }
    pub fn common() -> Self {
        RecOpts { level: Level::Common, max_seq_len: 200, huge_cigar_permille: 0, max_aux: 5, max_array_len: 40, nonfinite_floats: false }
    }
}

// ------------------------------------------------------------------------------------------------
// headers

const RNAME_FIRST: &[u8] = b"0123456789ABCDEFGHIJKLMNOPQRSTUVWXYZabcdefghijklmnopqrstuvwxyz!#$%&+./:;?@^_|~-";
const RNAME_REST: &[u8] = b"0123456789ABCDEFGHIJKLMNOPQRSTUVWXYZabcdefghijklmnopqrstuvwxyz!#$%&*+./:;=?@^_|~-";

/// A header value over `[ -~]+` (never empty).
fn gen_value(rng: &mut Rng) -> Vec<u8> {
    let n = match rng.below(20) {
        0 => 1,
        1 => rng.urange(100, 300),
        _ => rng.urange(1, 24),
    };
    match rng.below(4) {
        0 => (0..n).map(|_| rng.range(0x20, 0x7e) as u8).collect(),
        _ => (0..n).map(|_| *rng.pick(b"abcdefghijklmnopqrstuvwxyzABCDEFGHIJKLMNOPQRSTUVWXYZ0123456789 _-.:/=,;@*")).collect(),
    }
}

fn user_tag(rng: &mut Rng, used: &[Tag2], forbidden: &[Tag2]) -> Tag2 {
    loop {
        let a = *rng.pick(b"abcdefghijklmnopqrstuvwxyzXYZ");
        let b = *rng.pick(b"abcdefghijklmnopqrstuvwxyz0123456789XYZ");
        let t = [a, b];
        if !used.contains(&t) && !forbidden.contains(&t) {
            return t;
        }
    }
}

/// Optional tags of a header line: a random subset of `standard` (in random order) plus user tags.
fn gen_line_tags(rng: &mut Rng, standard: &[(Tag2, &[&[u8]])], forbidden: &[Tag2], rich: bool) -> Vec<(Tag2, Vec<u8>)> {
    let mut out: Vec<(Tag2, Vec<u8>)> = Vec::new();
    if !rich {
        return out;
    }
    let mut idx: Vec<usize> = (0..standard.len()).collect();
    rng.shuffle(&mut idx);
    let k = rng.skewed(standard.len() as u64) as usize;
    for &i in idx.iter().take(k) {
        let (t, vals) = standard[i];
        let v = if vals.is_empty() || rng.chance(1, 4) { gen_value(rng) } else { rng.pick(vals).to_vec() };
        out.push((t, v));
    }
    let users = match rng.below(6) {
        0 => rng.urange(1, 4),
        _ => 0,
    };
    for _ in 0..users {
        let used: Vec<Tag2> = out.iter().map(|e| e.0).collect();
        let t = user_tag(rng, &used, forbidden);
        out.push((t, gen_value(rng)));
    }
    if rng.chance(1, 3) {
        rng.shuffle(&mut out);
    }
    out
}

fn unique_id(rng: &mut Rng, used: &[Vec<u8>], stem: &str, i: usize) -> Vec<u8> {
    loop {
        let id = match rng.below(4) {
            0 => gen_value(rng),
            _ => format!("{stem}{}", i + rng.usize_below(3) * 1000).into_bytes(),
        };
        if !used.contains(&id) {
            return id;
        }
    }
}

fn gen_ref_len(rng: &mut Rng, big: bool) -> u64 {
    if big && rng.chance(1, 3) {
        return *rng.pick(&[
            (1u64 << 29) - 1,
            1 << 29,
            (1 << 29) + 1,
            (1 << 29) + 70_000,
            (1 << 30) + 12345,
            (1 << 31) - 1,
            (1 << 31) - 2,
        ]);
    }
    match rng.below(12) {
        0 => *rng.pick(&[1u64, 2, 100, 1 << 14, (1 << 14) + 1, 1 << 17, 1 << 20]),
        1..=4 => rng.range(100_000, 250_000_000) as u64,
        5..=7 => rng.range(1_000, 100_000) as u64,
        8 => rng.range(1, 1000) as u64,
        _ => rng.range(1_000_000, 20_000_000) as u64,
    }
}

pub fn gen_header(rng: &mut Rng, o: &HeaderOpts) -> HeaderDesc {
    let mut h = HeaderDesc::default();
    let with_hd = o.hd.unwrap_or_else(|| !rng.chance(1, 5));
    if with_hd {
        let version = if o.rich {
            *rng.pick(&[(1u32, 6u32), (1, 6), (1, 6), (1, 5), (1, 4), (1, 3), (1, 0), (1, 7), (2, 0), (0, 9), (10, 12), (u32::MAX, u32::MAX), (1, 0)])
        } else {
            (1, 6)
        };
        let std: &[(Tag2, &[&[u8]])] = &[
            (*b"SO", &[b"unknown", b"unsorted", b"queryname", b"coordinate"]),
            (*b"GO", &[b"none", b"query", b"reference"]),
            (*b"SS", &[b"coordinate:natural", b"queryname:lexicographical", b"unsorted:umi"]),
        ];
        h.hd = Some(HdDesc { version, tags: gen_line_tags(rng, std, &[*b"VN"], o.rich) });
    }
    let nref = if o.max_refs > o.min_refs {
        match rng.below(10) {
            0 => o.min_refs,
            1 => o.max_refs,
            _ => o.min_refs + rng.skewed((o.max_refs - o.min_refs) as u64) as usize,
        }
    } else {
        o.min_refs
    };
    let mut names: Vec<Vec<u8>> = Vec::new();
    let style = rng.below(4);
    for i in 0..nref {
        let name = loop {
            let cand: Vec<u8> = match (style, rng.below(8)) {
                (_, 0) if o.rich => {
                    let n = rng.urange(1, 30);
                    let mut v = vec![*rng.pick(RNAME_FIRST)];
                    for _ in 1..n {
                        v.push(*rng.pick(RNAME_REST));
                    }
                    v
                }
                (0, _) => format!("chr{}", i + 1).into_bytes(),
                (1, _) => format!("{}", i + 1).into_bytes(),
                (2, _) => format!("ctg.{:04}|v{}", i, rng.below(3)).into_bytes(),
                _ => format!("HLA-A*{:02}:{:02}", i / 100, i % 100).into_bytes(),
            };
            // `[:rname:^*=][:rname:]*`
            if !names.contains(&cand) && cand[0] != b'*' && cand[0] != b'=' {
                break cand;
            }
        };
        names.push(name.clone());
        let std: &[(Tag2, &[&[u8]])] = &[
            (*b"AH", &[b"*", b"chr1:100-200"]),
            (*b"AN", &[b"alt1,alt2", b"1"]),
            (*b"AS", &[b"GRCh38", b"hg19"]),
            (*b"DS", &[]),
            (*b"M5", &[b"d41d8cd98f00b204e9800998ecf8427e", b"0123456789abcdef0123456789abcdef"]),
            (*b"SP", &[b"Homo sapiens"]),
            (*b"TP", &[b"linear", b"circular"]),
            (*b"UR", &[b"file:///ref.fa", b"https://example.org/ref.fa.gz"]),
        ];
        h.sq.push(SqDesc { name, len: gen_ref_len(rng, o.big_refs), tags: gen_line_tags(rng, std, &[*b"SN", *b"LN"], o.rich) });
    }
    if o.rich {
        let nrg = rng.skewed(6) as usize;
        let mut ids: Vec<Vec<u8>> = Vec::new();
        for i in 0..nrg {
            let id = unique_id(rng, &ids, "rg", i);
            ids.push(id.clone());
            let std: &[(Tag2, &[&[u8]])] = &[
                (*b"BC", &[b"ACGT-TTGA"]),
                (*b"CN", &[b"center"]),
                (*b"DS", &[]),
                (*b"DT", &[b"2020-01-02T03:04:05+0000", b"2020-01-02"]),
                (*b"FO", &[b"*", b"ACMGRSVTWYHKDBN"]),
                (*b"KS", &[b"TCAG"]),
                (*b"LB", &[b"lib1"]),
                (*b"PG", &[b"bwa"]),
                (*b"PI", &[b"350"]),
                (*b"PL", &[b"ILLUMINA", b"ONT", b"PACBIO", b"illumina"]),
                (*b"PM", &[b"NovaSeq 6000"]),
                (*b"PU", &[b"HXXXX.1.ACGT"]),
                (*b"SM", &[b"sample1", b"NA12878"]),
            ];
            h.rg.push(MapDesc { id, tags: gen_line_tags(rng, std, &[*b"ID"], true) });
        }
        let npg = rng.skewed(6) as usize;
        let mut ids: Vec<Vec<u8>> = Vec::new();
        for i in 0..npg {
            let id = unique_id(rng, &ids, "pg", i);
            let std: &[(Tag2, &[&[u8]])] = &[
                (*b"PN", &[b"bwa", b"samtools"]),
                (*b"CL", &[b"bwa mem -t 8 ref.fa r1.fq r2.fq", b"samtools sort -@4 -o out.bam in.bam"]),
                (*b"DS", &[]),
                (*b"VN", &[b"0.7.17-r1188", b"1.19"]),
            ];
            let mut tags = gen_line_tags(rng, std, &[*b"ID", *b"PP"], true);
            if !ids.is_empty() && rng.chance(2, 3) {
                let pp = rng.pick(&ids).clone();
                let at = rng.usize_below(tags.len() + 1);
                tags.insert(at, (*b"PP", pp));
            }
            ids.push(id.clone());
            h.pg.push(MapDesc { id, tags });
        }
        let nco = rng.skewed(5) as usize;
        for _ in 0..nco {
            let c: Vec<u8> = match rng.below(6) {
                0 => Vec::new(),
                1 => "tab\tseparated\tcomment with µ and 日本語".as_bytes().to_vec(),
                2 => b"@CO\tlooks like a header line".to_vec(),
                3 => b" leading and trailing space ".to_vec(),
                _ => gen_value(rng),
            };
            h.co.push(c);
        }
    }
    h
}

// ------------------------------------------------------------------------------------------------
// records

const NAME_FULL: std::ops::RangeInclusive<u8> = b'!'..=b'~';

fn name_char(rng: &mut Rng, level: Level) -> u8 {
    if level == Level::Common {
        return *rng.pick(b"ABCDEFGHIJKLMNOPQRSTUVWXYZabcdefghijklmnopqrstuvwxyz0123456789:_./#-");
    }
    loop {
        let c = rng.range(*NAME_FULL.start() as i64, *NAME_FULL.end() as i64) as u8;
        if c != b'@' {
            return c;
        }
    }
}

pub(crate) fn gen_name(rng: &mut Rng, level: Level) -> Option<Vec<u8>> {
    let len = match rng.below(24) {
        0 if level != Level::Common => return None,
        1 => 1,
        2 => 2,
        3 => 254,
        4 => 253,
        5 => rng.urange(1, 254),
        6 => rng.urange(200, 254),
        _ => rng.urange(3, 40),
    };
    loop {
        let v: Vec<u8> = (0..len).map(|_| name_char(rng, level)).collect();
        if v != b"*" {
            return Some(v);
        }
    }
}

const POS_EDGES: [u64; 14] = [
    1,
    2,
    (1 << 14) - 1,
    1 << 14,
    (1 << 14) + 1,
    1 << 17,
    (1 << 20) + 1,
    1 << 23,
    (1 << 26) + 1,
    (1 << 29) - 1,
    1 << 29,
    (1 << 29) + 1,
    (1 << 31) - 2,
    (1 << 31) - 1,
];

fn gen_pos_free(rng: &mut Rng, level: Level) -> Option<u64> {
    Some(match rng.below(16) {
        0 => return None,
        1..=3 => *rng.pick(&POS_EDGES),
        4 => {
            // next to a bin edge of a random level
            let sh = *rng.pick(&[14u32, 17, 20, 23, 26]);
            let k = rng.range(1, ((1u64 << 29) >> sh) as i64) as u64;
            ((k << sh) + rng.below(5)).saturating_sub(2).max(1)
        }
        5 if level == Level::Full => 1 << 31, // 0-based 2^31-1: fits the BAM field, not SAM's range
        6 => rng.range(1 << 29, (1 << 31) - 1) as u64,
        7..=10 => rng.range(1, 100_000) as u64,
        _ => rng.range(1, 1 << 29) as u64,
    })
}

fn tlen_value(rng: &mut Rng) -> i32 {
    match rng.below(10) {
        0 => 0,
        1 => *rng.pick(&[1, -1, i32::MAX, i32::MIN + 1, i32::MIN, 1 << 29, -(1 << 29)]),
        2..=6 => rng.range(-1000, 1000) as i32,
        _ => rng.next_u32() as i32,
    }
}

fn base(rng: &mut Rng, level: Level, style: u64) -> u8 {
    match level {
        Level::Common => *rng.pick(b"ACGTACGTACGTACGTN"),
        Level::SamText => match style {
            0 => *rng.pick(b"ACGT"),
            1 => *rng.pick(BAM_BASES),
            2 => rng.pick(BAM_BASES).to_ascii_lowercase(),
            // any letter SAM text allows, including ones outside the BAM alphabet
            _ => *rng.pick(b"ABCDEFGHIJKLMNOPQRSTUVWXYZabcdefghijklmnopqrstuvwxyz=."),
        },
        Level::Full => match style {
            0 => *rng.pick(b"ACGT"),
            1 => *rng.pick(BAM_BASES),
            2 => rng.pick(BAM_BASES).to_ascii_lowercase(),
            3 => *rng.pick(b"ABCDEFGHIJKLMNOPQRSTUVWXYZabcdefghijklmnopqrstuvwxyz=."),
            // any byte: BAM maps it to N
            _ => rng.next_u64() as u8,
        },
    }
}

pub(crate) fn gen_seq(rng: &mut Rng, level: Level, len: usize) -> Vec<u8> {
    let style = match level {
        Level::Common => 0,
        Level::SamText => *rng.pick(&[0u64, 0, 1, 1, 2, 3]),
        Level::Full => *rng.pick(&[0u64, 0, 1, 1, 2, 3, 4]),
    };
    // a sequence is mostly of one style with a few letters of another
    let mix = rng.chance(1, 3);
    (0..len)
        .map(|_| {
            let s = if mix && rng.chance(1, 8) { rng.below(5) } else { style };
            let s = if level == Level::SamText { s.min(3) } else { s };
            base(rng, level, s)
        })
        .collect()
}

pub(crate) fn gen_qual(rng: &mut Rng, level: Level, len: usize) -> Option<Vec<u8>> {
    if len == 0 {
        return None;
    }
    let missing = if level == Level::Common { rng.chance(1, 12) } else { rng.chance(1, 4) };
    if missing {
        return None;
    }
    Some(match rng.below(8) {
        0 => vec![0; len],
        1 => vec![93; len],
        2 => (0..len).map(|_| rng.range(0, 93) as u8).collect(),
        3 => (0..len).map(|i| [0u8, 93, 9, 1, 92][i % 5]).collect(),
        _ => (0..len).map(|_| rng.range(2, 41) as u8).collect(),
    })
}

/// A CIGAR with `nops` operations over all nine kinds whose read length stays below `max_read`.
fn free_cigar(rng: &mut Rng, nops: usize, max_read: usize, level: Level) -> Vec<(u8, u32)> {
    let mut out = Vec::with_capacity(nops);
    if nops == 0 {
        return out;
    }
    let per_op = (max_read / nops).max(1) as i64;
    let mut read = 0usize;
    for _ in 0..nops {
        let k = *rng.pick(CIGAR_OPS);
        let consumes_read = matches!(k, b'M' | b'I' | b'S' | b'=' | b'X');
        let len: u32 = if consumes_read {
            let room = max_read.saturating_sub(read);
            if room == 0 {
                // keep the read length bounded: switch to an operation that does not consume it
                out.push((*rng.pick(b"DNHP"), rng.range(1, 3) as u32));
                continue;
            }
            let n = (rng.range(1, per_op.min(100).max(1)) as usize).min(room);
            read += n;
            n as u32
        } else if nops <= 12 && rng.chance(1, 12) {
            // long deletions / skips / pads up to the largest length BAM's 28 bits can hold
            let _ = level;
            *rng.pick(&[(1u32 << 28) - 1, (1 << 28) - 2, 1 << 20, 100_000, 65_536])
        } else if rng.chance(1, 40) {
            0
        } else {
            rng.range(1, if nops > 1000 { 3 } else { 500 }) as u32
        };
        out.push((k, len));
    }
    out
}

/// `[H][S] body [S][H]` with a body over M I D N = X P that starts and ends with M/=/X.
pub(crate) fn common_cigar(rng: &mut Rng, read_len: usize, long_skip: Option<u32>) -> Vec<(u8, u32)> {
    let mut out = Vec::new();
    if read_len == 0 {
        return out;
    }
    let mut left = read_len as u32;
    let mut tail = Vec::new();
    if rng.chance(1, 10) {
        out.push((b'H', rng.range(1, 50) as u32));
    }
    if left > 4 && rng.chance(1, 5) {
        let n = rng.range(1, (left / 4) as i64) as u32;
        out.push((b'S', n));
        left -= n;
    }
    if left > 4 && rng.chance(1, 5) {
        let n = rng.range(1, (left / 4) as i64) as u32;
        tail.push((b'S', n));
        left -= n;
    }
    if rng.chance(1, 10) {
        tail.push((b'H', rng.range(1, 50) as u32));
    }
    let m = *rng.pick(b"MMMMMM=X");
    let mut first = true;
    while left > 0 {
        let n = if left <= 2 || rng.chance(1, 2) { left } else { rng.range(1, left as i64 - 1) as u32 };
        let n = if first { n.max(1) } else { n };
        out.push((if rng.chance(1, 8) { *rng.pick(b"M=X") } else { m }, n));
        left -= n;
        first = false;
        if left > 1 {
            match rng.below(6) {
                0 => {
                    let n = rng.range(1, (left - 1).min(10) as i64) as u32;
                    out.push((b'I', n));
                    left -= n;
                }
                1 => out.push((b'D', rng.range(1, 30) as u32)),
                2 => out.push((b'N', long_skip.unwrap_or_else(|| rng.range(50, 5000) as u32))),
                3 if rng.chance(1, 4) => out.push((b'P', rng.range(1, 3) as u32)),
                _ => {}
            }
        }
    }
    out.extend(tail);
    out
}

const HUGE_COUNTS: [usize; 4] = [65_535, 65_536, 65_537, 70_000];

fn gen_cigar_seq(rng: &mut Rng, o: &RecOpts) -> (Vec<(u8, u32)>, Vec<u8>) {
    let level = o.level;
    if o.huge_cigar_permille > 0 && rng.below(1000) < o.huge_cigar_permille as u64 {
        let nops = *rng.pick(&HUGE_COUNTS);
        let cigar = free_cigar(rng, nops, 60_000, if level == Level::Common { Level::SamText } else { level });
        let rl: u64 = cigar.iter().filter(|(k, _)| matches!(k, b'M' | b'I' | b'S' | b'=' | b'X')).map(|(_, n)| *n as u64).sum();
        let seq = if rng.chance(1, 6) { Vec::new() } else { gen_seq(rng, level, rl as usize) };
        return (cigar, seq);
    }
    if level == Level::Common {
        let len = match rng.below(10) {
            0 => rng.urange(1, 5),
            _ => rng.urange(20, o.max_seq_len.max(21)),
        };
        return (common_cigar(rng, len, None), gen_seq(rng, level, len));
    }
    let nops = match rng.below(16) {
        0 | 1 => 0,
        2 | 3 => 1,
        4 => rng.urange(100, 2000),
        5 => rng.urange(10, 40),
        _ => rng.urange(2, 9),
    };
    if nops == 0 {
        // no CIGAR: SEQ is free
        let len = match rng.below(8) {
            0 | 1 => 0,
            2 => 1,
            3 => 2,
            4 => 3,
            5 => o.max_seq_len,
            _ => rng.urange(1, o.max_seq_len.max(1)),
        };
        return (Vec::new(), gen_seq(rng, level, len));
    }
    let cigar = if rng.chance(1, 3) {
        let len = rng.urange(1, o.max_seq_len.max(1));
        common_cigar(rng, len, None)
    } else {
        free_cigar(rng, nops, o.max_seq_len, level)
    };
    let rl: u64 = cigar.iter().filter(|(k, _)| matches!(k, b'M' | b'I' | b'S' | b'=' | b'X')).map(|(_, n)| *n as u64).sum();
    let seq = if rl == 0 {
        // only D/N/H/P: the read length is 0, so SEQ is `*`
        Vec::new()
    } else if rng.chance(1, 8) {
        Vec::new()
    } else {
        gen_seq(rng, level, rl as usize)
    };
    (cigar, seq)
}

const I8_EDGES: [i8; 7] = [i8::MIN, -127, -1, 0, 1, 126, i8::MAX];
const U8_EDGES: [u8; 6] = [0, 1, 127, 128, 254, 255];
const I16_EDGES: [i16; 10] = [i16::MIN, -32767, -129, -128, -1, 0, 127, 128, 32766, i16::MAX];
const U16_EDGES: [u16; 8] = [0, 255, 256, 32767, 32768, 65534, 65535, 1];
const I32_EDGES: [i32; 12] = [i32::MIN, i32::MIN + 1, -32769, -32768, -129, -128, -1, 0, 32767, 65535, 65536, i32::MAX];
const U32_EDGES: [u32; 10] = [0, 255, 256, 65535, 65536, 0x7fff_ffff, 0x8000_0000, u32::MAX - 1, u32::MAX, 1];

/// Float edge values: signed zeros, subnormals, extremes, values whose shortest decimal form needs
/// 1..9 digits or an exponent.
pub fn f32_edges() -> Vec<f32> {
    let mut v: Vec<f32> = [
        0x0000_0000u32, // +0
        0x8000_0000,    // -0
        0x0000_0001,    // smallest subnormal
        0x8000_0001,
        0x007f_ffff, // largest subnormal
        0x0080_0000, // smallest normal
        0x7f7f_ffff, // f32::MAX
        0xff7f_ffff, // f32::MIN
    ]
    .iter()
    .map(|b| f32::from_bits(*b))
    .collect();
    v.extend([
        1.0f32, -1.0, 0.1, 0.5, f32::EPSILON, 16777216.0, 16777215.0, 1e10, 1e-10, 123456.79, 1e20, 1e21, 1e-7, 1e-4, 1e-3, 1e9, 1e16, 3.14,
        0.3, 1.0e-5, 9.999999e-5, 8388608.5, 1.17549435e-38, 3.4028235e38, 0.33333334, 100.0, 1e7, 1.5e7, 12345678.0, 1.0000001,
    ]);
    v
}

fn gen_f32(rng: &mut Rng, nonfinite: bool) -> f32 {
    loop {
        let bits = match rng.below(10) {
            0..=3 => rng.pick(&f32_edges()).to_bits(),
            4 if nonfinite => *rng.pick(&[0x7f80_0000u32, 0xff80_0000, 0x7fc0_0000, 0xffc0_0000, 0x7fc0_0001, 0x7f80_0001]),
            5 | 6 => ((rng.range(-100_000, 100_000) as f32) / *rng.pick(&[1.0f32, 10.0, 100.0, 3.0])).to_bits(),
            _ => rng.next_u32(),
        };
        let f = f32::from_bits(bits);
        if nonfinite || f.is_finite() {
            return f;
        }
    }
}

fn printable(rng: &mut Rng, len: usize, level: Level) -> Vec<u8> {
    match (level, rng.below(3)) {
        (Level::Common, _) | (_, 0) => (0..len).map(|_| *rng.pick(b"abcdefghijklmnopqrstuvwxyzABCDEFGHIJKLMNOPQRSTUVWXYZ0123456789_-.:,;^")).collect(),
        _ => (0..len).map(|_| rng.range(0x20, 0x7e) as u8).collect(),
    }
}

fn array_len(rng: &mut Rng, o: &RecOpts) -> usize {
    match rng.below(24) {
        0 => 0,
        1..=5 => 1,
        6 => o.max_array_len,
        7 => rng.urange(0, o.max_array_len),
        _ => rng.urange(2, 9.min(o.max_array_len.max(2))),
    }
}

macro_rules! int_array {
    ($rng:expr, $n:expr, $edges:expr, $t:ty) => {{
        let style = $rng.below(3);
        (0..$n)
            .map(|i| match style {
                0 => $edges[i % $edges.len()],
                1 => *$rng.pick(&$edges),
                _ => $rng.next_u64() as $t,
            })
            .collect::<Vec<$t>>()
    }};
}

/// One auxiliary value of kind `k` (0..17, in the order of `AuxDesc`'s variants).
pub(crate) fn gen_aux_value(rng: &mut Rng, o: &RecOpts, k: usize) -> AuxDesc {
    let edge = rng.chance(1, 2);
    match k {
        0 => AuxDesc::A(rng.range(0x21, 0x7e) as u8),
        1 => AuxDesc::I8(if edge { *rng.pick(&I8_EDGES) } else { rng.next_u64() as i8 }),
        2 => AuxDesc::U8(if edge { *rng.pick(&U8_EDGES) } else { rng.next_u64() as u8 }),
        3 => AuxDesc::I16(if edge { *rng.pick(&I16_EDGES) } else { rng.next_u64() as i16 }),
        4 => AuxDesc::U16(if edge { *rng.pick(&U16_EDGES) } else { rng.next_u64() as u16 }),
        5 => AuxDesc::I32(if edge { *rng.pick(&I32_EDGES) } else { rng.next_u64() as i32 }),
        6 => AuxDesc::U32(if edge { *rng.pick(&U32_EDGES) } else { rng.next_u64() as u32 }),
        7 => AuxDesc::F(gen_f32(rng, o.nonfinite_floats && o.level == Level::Full)),
        8 => {
            let n = match rng.below(12) {
                0 => 0,
                1 => 1,
                2 => rng.urange(200, 400),
                _ => rng.urange(2, 30),
            };
            AuxDesc::Z(printable(rng, n, o.level))
        }
        9 => {
            let n = match rng.below(8) {
                0 => 0,
                1 => 1,
                2 => rng.urange(16, 64),
                _ => rng.urange(1, 8),
            };
            AuxDesc::H((0..2 * n).map(|_| *rng.pick(b"0123456789ABCDEF")).collect())
        }
        10 => AuxDesc::BI8(int_array!(rng, array_len(rng, o), I8_EDGES, i8)),
        11 => AuxDesc::BU8(int_array!(rng, array_len(rng, o), U8_EDGES, u8)),
        12 => AuxDesc::BI16(int_array!(rng, array_len(rng, o), I16_EDGES, i16)),
        13 => AuxDesc::BU16(int_array!(rng, array_len(rng, o), U16_EDGES, u16)),
        14 => AuxDesc::BI32(int_array!(rng, array_len(rng, o), I32_EDGES, i32)),
        15 => AuxDesc::BU32(int_array!(rng, array_len(rng, o), U32_EDGES, u32)),
        _ => {
            let n = array_len(rng, o);
            let nonfinite = o.nonfinite_floats && o.level == Level::Full;
            AuxDesc::BF((0..n).map(|_| gen_f32(rng, nonfinite)).collect())
        }
    }
}

/// Number of `AuxDesc` kinds `gen_aux_value` knows.
pub const AUX_KINDS: usize = 17;

const COMMON_TAGS: [Tag2; 14] = [*b"NM", *b"MD", *b"AS", *b"XS", *b"RG", *b"NH", *b"HI", *b"SA", *b"MC", *b"MQ", *b"BC", *b"OQ", *b"ML", *b"PG"];

/// A fresh tag over `[A-Za-z][A-Za-z0-9]`, never `CG` (reserved for BAM's long-CIGAR convention:
/// "SAM and CRAM files do not use this tag", SAMtags), never one of `used`.
pub(crate) fn gen_tag(rng: &mut Rng, used: &[Tag2]) -> Tag2 {
    loop {
        let t: Tag2 = match rng.below(4) {
            0 => *rng.pick(&COMMON_TAGS),
            1 => [*rng.pick(b"XYZ"), *rng.pick(b"ABCDEFGHIJKLMNOPQRSTUVWXYZabcdefghijklmnopqrstuvwxyz0123456789")],
            _ => [
                *rng.pick(b"ABCDEFGHIJKLMNOPQRSTUVWXYZabcdefghijklmnopqrstuvwxyz"),
                *rng.pick(b"ABCDEFGHIJKLMNOPQRSTUVWXYZabcdefghijklmnopqrstuvwxyz0123456789"),
            ],
        };
        if t != *b"CG" && !used.contains(&t) {
            return t;
        }
    }
}

fn gen_aux(rng: &mut Rng, o: &RecOpts) -> Vec<(Tag2, AuxDesc)> {
    let n = match rng.below(8) {
        0 => 0,
        1 => o.max_aux,
        _ => rng.urange(0, o.max_aux),
    };
    let mut out: Vec<(Tag2, AuxDesc)> = Vec::new();
    for _ in 0..n {
        let used: Vec<Tag2> = out.iter().map(|e| e.0).collect();
        let t = gen_tag(rng, &used);
        let k = if o.level == Level::Common { *rng.pick(&[0usize, 2, 2, 4, 5, 7, 8, 8, 8, 11, 13]) } else { rng.usize_below(AUX_KINDS) };
        out.push((t, gen_aux_value(rng, o, k)));
    }
    out
}

fn common_record(rng: &mut Rng, hdr: &HeaderDesc, o: &RecOpts) -> RecDesc {
    let mut r = RecDesc { name: gen_name(rng, Level::Common), ..Default::default() };
    let usable: Vec<usize> = hdr.sq.iter().enumerate().filter(|(_, s)| s.len >= 50).map(|(i, _)| i).collect();
    let mapped = !usable.is_empty() && !rng.chance(1, 10);
    let (cigar, seq) = gen_cigar_seq(rng, o);
    let paired = rng.chance(1, 2);
    let mut flags = 0u16;
    if mapped {
        let id = *rng.pick(&usable);
        let ln = hdr.sq[id].len;
        r.cigar = cigar;
        // shrink skips/deletions until the alignment fits the reference
        while r.ref_len() > ln {
            for op in r.cigar.iter_mut() {
                if matches!(op.0, b'N' | b'D') && op.1 > 1 {
                    op.1 = (op.1 / 2).max(1);
                }
            }
            if r.ref_len() > ln {
                let rl = (ln as usize).min(seq.len()).max(1);
                r.cigar = vec![(b'M', rl as u32)];
                break;
            }
        }
        let rl = r.read_len() as usize;
        r.seq = if rl == seq.len() { seq } else { gen_seq(rng, Level::Common, rl) };
        r.ref_id = Some(id);
        let span = r.ref_len().max(1);
        r.pos = Some(rng.range(1, (ln - span + 1) as i64) as u64);
        r.mapq = Some(*rng.pick(&[0u8, 1, 20, 37, 60, 60, 60, 254]));
        if rng.bool() {
            flags |= 0x10;
        }
        if rng.chance(1, 20) {
            flags |= 0x100;
        }
        if rng.chance(1, 30) {
            flags |= 0x800;
        }
    } else {
        r.seq = seq;
        flags |= 0x4;
        r.mapq = Some(0);
    }
    if rng.chance(1, 30) {
        flags |= 0x200;
    }
    if rng.chance(1, 20) {
        flags |= 0x400;
    }
    if paired {
        flags |= 0x1;
        flags |= if rng.bool() { 0x40 } else { 0x80 };
        let mate_mapped = !usable.is_empty() && !rng.chance(1, 8);
        if mate_mapped {
            let mid = if let (Some(id), true) = (r.ref_id, rng.chance(4, 5)) { id } else { *rng.pick(&usable) };
            r.mate_ref_id = Some(mid);
            r.mate_pos = Some(rng.range(1, hdr.sq[mid].len as i64) as u64);
            if rng.bool() {
                flags |= 0x20;
            }
            if mapped && r.ref_id == Some(mid) {
                if rng.chance(3, 4) {
                    flags |= 0x2;
                }
                let d = r.mate_pos.unwrap() as i64 - r.pos.unwrap() as i64;
                r.tlen = d.clamp(-(1 << 30), 1 << 30) as i32;
            }
            if !mapped {
                // placed unmapped read: takes its mate's coordinates
                r.ref_id = r.mate_ref_id;
                r.pos = r.mate_pos;
            }
        } else {
            flags |= 0x8;
            if mapped {
                r.mate_ref_id = r.ref_id;
                r.mate_pos = r.pos;
            }
        }
    }
    r.flags = flags;
    r.qual = gen_qual(rng, Level::Common, r.seq.len());
    r.aux = gen_aux(rng, o);
    r
}

/// One record over `hdr`'s reference dictionary (reference ids are always valid for `hdr`; with an
/// empty dictionary they are `None`).
pub fn gen_record(rng: &mut Rng, hdr: &HeaderDesc, o: &RecOpts) -> RecDesc {
    if o.level == Level::Common {
        return common_record(rng, hdr, o);
    }
    let nref = hdr.sq.len();
    let mut r = RecDesc { name: gen_name(rng, o.level), ..Default::default() };
    r.flags = match rng.below(10) {
        0 => 0,
        1 => 0xfff,
        2 => 1 << rng.below(12),
        3 => 0xfff ^ (1 << rng.below(12)),
        _ => (rng.next_u64() & 0xfff) as u16,
    };
    if rng.chance(3, 5) {
        // keep most records "mapped" so that span-dependent checks see them
        r.flags &= !0x4;
    }
    r.ref_id = if nref == 0 || rng.chance(1, 8) { None } else { Some(if rng.chance(1, 6) { nref - 1 } else { rng.usize_below(nref) }) };
    r.pos = if r.ref_id.is_none() && !rng.chance(1, 6) { None } else { gen_pos_free(rng, o.level) };
    r.mapq = match rng.below(10) {
        0 => None,
        1 => Some(255),
        2 => Some(0),
        3 => Some(254),
        4 => Some(*rng.pick(&[1u8, 60, 93, 127, 128, 253])),
        _ => Some(rng.range(0, 255) as u8),
    };
    let (cigar, seq) = gen_cigar_seq(rng, o);
    r.cigar = cigar;
    r.seq = seq;
    r.qual = gen_qual(rng, o.level, r.seq.len());
    r.mate_ref_id = if nref == 0 {
        None
    } else {
        match rng.below(6) {
            0 | 1 => None,
            2 | 3 => r.ref_id,
            _ => Some(rng.usize_below(nref)),
        }
    };
    r.mate_pos = if r.mate_ref_id.is_none() && !rng.chance(1, 6) { None } else { gen_pos_free(rng, o.level) };
    r.tlen = tlen_value(rng);
    r.aux = gen_aux(rng, o);
    r
}

// ------------------------------------------------------------------------------------------------
// rejection classes

/// What was made out of range in a record produced by `gen_invalid_record`.
#[derive(Clone, Copy, Debug, PartialEq, Eq)]
pub enum Invalid {
    /// name of 255 bytes or more: `l_read_name` (uint8, NUL included) cannot hold it
    NameTooLong,
    /// name with a byte outside `[!-?A-~]`
    NameBadChar,
    /// the name is the single character `*`
    NameStar,
    /// reference id >= size of the dictionary
    RefIdOutOfRange,
    MateRefIdOutOfRange,
    /// 1-based position > 2^31 (0-based value does not fit int32)
    PosTooLarge,
    MatePosTooLarge,
    /// QUAL present with a length different from SEQ's
    QualLenMismatch,
    /// a score above 93
    QualTooLarge,
    /// SEQ present, CIGAR read length > 0 and different
    SeqCigarMismatch,
    /// a CIGAR operation length >= 2^28
    CigarOpLenTooLarge,
    /// H value of odd length or with a non-`[0-9A-F]` byte
    HexInvalid,
    /// Z value with a byte outside `[ -~]`
    StringInvalid,
}

pub const INVALID_KINDS: [Invalid; 13] = [
    Invalid::NameTooLong,
    Invalid::NameBadChar,
    Invalid::NameStar,
    Invalid::RefIdOutOfRange,
    Invalid::MateRefIdOutOfRange,
    Invalid::PosTooLarge,
    Invalid::MatePosTooLarge,
    Invalid::QualLenMismatch,
    Invalid::QualTooLarge,
    Invalid::SeqCigarMismatch,
    Invalid::CigarOpLenTooLarge,
    Invalid::HexInvalid,
    Invalid::StringInvalid,
];

impl Invalid {
    /// True if no BAM encoding of the value exists (the field cannot hold it), i.e. accepting the
    /// record necessarily truncates or wraps something.
    pub fn cannot_fit_bam(self) -> bool {
        matches!(
            self,
            Invalid::NameTooLong | Invalid::PosTooLarge | Invalid::MatePosTooLarge | Invalid::QualLenMismatch | Invalid::CigarOpLenTooLarge
        )
    }
}

/// A valid record of `o` with exactly one aspect made invalid.
pub fn gen_invalid_record(rng: &mut Rng, hdr: &HeaderDesc, o: &RecOpts, kind: Invalid) -> RecDesc {
    let mut o2 = o.clone();
    o2.huge_cigar_permille = 0;
    let mut r = gen_record(rng, hdr, &o2);
    let big_pos = |rng: &mut Rng| *rng.pick(&[(1u64 << 31) + 1, (1 << 31) + 2, 1 << 32, (1 << 32) + 5, (1 << 32) + (1 << 14), 1 << 33, (1 << 40) + 7]);
    match kind {
        Invalid::NameTooLong => {
            let n = *rng.pick(&[255usize, 255, 256, 257, 300, 511, 512, 513, 70_000]);
            r.name = Some((0..n).map(|_| name_char(rng, Level::Common)).collect());
        }
        Invalid::NameBadChar => {
            let mut n = r.name.clone().unwrap_or_else(|| b"read".to_vec());
            let at = rng.usize_below(n.len());
            n[at] = *rng.pick(&[b'@', b' ', b'\t', 0x7f, 0x00, b'\n', 0x80, 0xff]);
            r.name = Some(n);
        }
        Invalid::NameStar => r.name = Some(b"*".to_vec()),
        Invalid::RefIdOutOfRange | Invalid::MateRefIdOutOfRange => {
            let n = hdr.sq.len();
            let wrap = (1usize << 32) + rng.usize_below(n.max(1));
            let id = *rng.pick(&[n, n + 1, n + 255, (1usize << 31) - 1, 1 << 31, wrap, usize::MAX]);
            if kind == Invalid::RefIdOutOfRange {
                r.ref_id = Some(id);
                if r.pos.is_none() {
                    r.pos = Some(1);
                }
            } else {
                r.mate_ref_id = Some(id);
            }
        }
        Invalid::PosTooLarge => r.pos = Some(big_pos(rng)),
        Invalid::MatePosTooLarge => r.mate_pos = Some(big_pos(rng)),
        Invalid::QualLenMismatch => {
            if r.seq.is_empty() && rng.bool() {
                // QUAL without SEQ
                r.qual = Some(vec![30; rng.urange(1, 5)]);
            } else {
                if r.seq.len() < 2 {
                    r.cigar.clear();
                    let n = rng.urange(2, 20);
                    r.seq = gen_seq(rng, o.level, n);
                }
                let n = r.seq.len();
                let m = *rng.pick(&[n - 1, n + 1, n + 256, 2 * n, 1]);
                let m = if m == n { n + 1 } else { m };
                r.qual = Some(vec![30; m]);
            }
        }
        Invalid::QualTooLarge => {
            if r.seq.is_empty() {
                r.cigar.clear();
                let n = rng.urange(1, 20);
                r.seq = gen_seq(rng, o.level, n);
            }
            let mut q = vec![30u8; r.seq.len()];
            let at = rng.usize_below(q.len());
            q[at] = *rng.pick(&[94u8, 95, 127, 128, 200, 254, 255]);
            r.qual = Some(q);
        }
        Invalid::SeqCigarMismatch => {
            let n = rng.urange(2, 50);
            r.cigar = vec![(b'M', n as u32)];
            let m = *rng.pick(&[n - 1, n + 1, 1, 2 * n]);
            let m = if m == n { n + 1 } else { m };
            r.seq = gen_seq(rng, o.level, m);
            r.qual = None;
        }
        Invalid::CigarOpLenTooLarge => {
            let len = *rng.pick(&[1u32 << 28, (1 << 28) + 1, 1 << 29, u32::MAX, (1 << 31) + 3]);
            let k = *rng.pick(b"DNHP");
            let at = rng.usize_below(r.cigar.len() + 1);
            r.cigar.insert(at, (k, len));
        }
        Invalid::HexInvalid => {
            let v: Vec<u8> = match rng.below(4) {
                0 => b"A".to_vec(),
                1 => b"0a".to_vec(),
                2 => b"GG".to_vec(),
                _ => b"012".to_vec(),
            };
            let used: Vec<Tag2> = r.aux.iter().map(|e| e.0).collect();
            let t = gen_tag(rng, &used);
            let at = rng.usize_below(r.aux.len() + 1);
            r.aux.insert(at, (t, AuxDesc::H(v)));
        }
        Invalid::StringInvalid => {
            let mut v = b"abcdef".to_vec();
            let at = rng.usize_below(v.len());
            v[at] = *rng.pick(&[0u8, b'\t', b'\n', 0x1f, 0x7f, 0x80, 0xff]);
            let used: Vec<Tag2> = r.aux.iter().map(|e| e.0).collect();
            let t = gen_tag(rng, &used);
            let at = rng.usize_below(r.aux.len() + 1);
            r.aux.insert(at, (t, AuxDesc::Z(v)));
        }
    }
    r
}

// ------------------------------------------------------------------------------------------------
// deterministic boundary corpus

/// A fixed list of boundary records over `hdr` (no randomness): every flag bit, name lengths
/// 1/253/254 and missing, positions at 2^14/2^29/2^31 edges, MAPQ 0/254/255, CIGARs of 0/1/9 kinds,
/// odd/even/zero SEQ lengths, every aux type at both ends of its range, empty arrays, float edge
/// values, and (with `huge`) CIGARs of 65535/65536/70000 operations.
pub fn boundary_records(hdr: &HeaderDesc, level: Level, huge: bool) -> Vec<RecDesc> {
    let mut rng = Rng::new(0xB0DA, 7, 0);
    let mut out = Vec::new();
    let rid = if hdr.sq.is_empty() { None } else { Some(hdr.sq.len() - 1) };
    let base = |name: &str| RecDesc { name: Some(name.as_bytes().to_vec()), flags: 4, ..Default::default() };
    for bit in 0..12 {
        let mut r = base(&format!("flag{bit}"));
        r.flags = 1 << bit;
        out.push(r);
    }
    for (i, n) in [1usize, 2, 253, 254].into_iter().enumerate() {
        let mut r = base("x");
        r.name = Some((0..n).map(|j| b"!#~?A[`a}0"[(i + j) % 10]).collect());
        out.push(r);
    }
    let mut r = base("x");
    r.name = None;
    out.push(r);
    let mut edges: Vec<u64> = POS_EDGES.to_vec();
    if level == Level::Full {
        edges.push(1 << 31);
    }
    for (i, p) in edges.iter().enumerate() {
        // without CIGAR (span 1), with a 1-base and with a straddling alignment
        for (j, cg) in [vec![], vec![(b'M', 1u32)], vec![(b'M', 2)], vec![(b'S', 1), (b'M', 1), (b'N', 20_000), (b'M', 1)]].into_iter().enumerate() {
            let mut r = base(&format!("pos{i}.{j}"));
            r.flags = 0;
            r.ref_id = rid;
            r.pos = Some(*p);
            r.cigar = cg;
            let rl = r.read_len() as usize;
            r.seq = b"ACGTN"[..rl.min(5)].to_vec();
            r.mate_ref_id = rid;
            r.mate_pos = Some(*p);
            r.mapq = Some([0u8, 254, 255, 60][j]);
            out.push(r);
        }
    }
    // all nine kinds, odd/even SEQ, all 16 letters, lower case
    let mut r = base("kinds");
    r.flags = 0;
    r.ref_id = rid;
    r.pos = Some(100);
    r.cigar = vec![(b'H', 1), (b'S', 2), (b'M', 3), (b'I', 1), (b'D', 2), (b'N', 3), (b'P', 1), (b'=', 4), (b'X', 5), (b'S', 1), (b'H', 2)];
    r.seq = BAM_BASES.to_vec();
    r.qual = Some((0..16).map(|i| (i * 6) as u8).collect());
    out.push(r.clone());
    r.name = Some(b"kinds.lower".to_vec());
    r.seq = BAM_BASES.iter().map(|b| b.to_ascii_lowercase()).collect();
    out.push(r.clone());
    r.name = Some(b"kinds.foreign".to_vec());
    r.seq = b"acgtnuUxXzZ.EFIJ".to_vec();
    out.push(r);
    for n in [1usize, 2, 3, 15, 16, 17] {
        let mut r = base(&format!("len{n}"));
        r.seq = (0..n).map(|i| BAM_BASES[(i * 7 + n) % 16]).collect();
        r.qual = if n % 2 == 0 { Some(vec![93; n]) } else { Some((0..n).map(|i| (i % 94) as u8).collect()) };
        out.push(r.clone());
        r.name = Some(format!("len{n}.noqual").into_bytes());
        r.qual = None;
        out.push(r);
    }
    // a 1-base read with score 9 prints QUAL as `*` in SAM
    let mut r = base("q9");
    r.seq = b"A".to_vec();
    r.qual = Some(vec![9]);
    out.push(r);
    for t in [0i32, 1, -1, i32::MAX, i32::MIN + 1, i32::MIN] {
        let mut r = base(&format!("tlen{t}"));
        r.tlen = t;
        out.push(r);
    }
    // every aux type at its edges
    macro_rules! each {
        ($name:expr, $vals:expr, $ctor:expr) => {
            for (i, v) in $vals.iter().enumerate() {
                let mut r = base(&format!("{}{}", $name, i));
                r.aux = vec![(*b"XA", $ctor(*v)), (*b"NM", AuxDesc::U8(1))];
                out.push(r);
            }
        };
    }
    each!("A", [b'!', b'~', b'*', b':'], AuxDesc::A);
    each!("c", I8_EDGES, AuxDesc::I8);
    each!("C", U8_EDGES, AuxDesc::U8);
    each!("s", I16_EDGES, AuxDesc::I16);
    each!("S", U16_EDGES, AuxDesc::U16);
    each!("i", I32_EDGES, AuxDesc::I32);
    each!("I", U32_EDGES, AuxDesc::U32);
    for (i, f) in f32_edges().iter().enumerate() {
        let mut r = base(&format!("f{i}"));
        r.aux = vec![(*b"XF", AuxDesc::F(*f)), (*b"YF", AuxDesc::BF(vec![*f, 1.5]))];
        out.push(r);
    }
    if level == Level::Full {
        for (i, b) in [0x7f80_0000u32, 0xff80_0000, 0x7fc0_0000, 0xffc0_0001].iter().enumerate() {
            let mut r = base(&format!("fnonfinite{i}"));
            r.aux = vec![(*b"XF", AuxDesc::F(f32::from_bits(*b))), (*b"YF", AuxDesc::BF(vec![f32::from_bits(*b)]))];
            out.push(r);
        }
    }
    for (i, z) in [&b""[..], b" ", b"~", b"a:b,c;d=e*", b"  two  spaces  "].iter().enumerate() {
        let mut r = base(&format!("Z{i}"));
        r.aux = vec![(*b"XZ", AuxDesc::Z(z.to_vec())), (*b"XH", AuxDesc::H([&b""[..], b"00", b"FF", b"0123456789ABCDEF", b"1AE301"][i].to_vec()))];
        out.push(r);
    }
    // empty arrays of every subtype, first, in the middle and last
    let mut r = base("Bempty");
    r.aux = vec![
        (*b"Ba", AuxDesc::BI8(vec![])),
        (*b"Bb", AuxDesc::BU8(vec![])),
        (*b"NM", AuxDesc::U8(0)),
        (*b"Bc", AuxDesc::BI16(vec![])),
        (*b"Bd", AuxDesc::BU16(vec![])),
        (*b"Be", AuxDesc::BI32(vec![])),
        (*b"XZ", AuxDesc::Z(b"z".to_vec())),
        (*b"Bf", AuxDesc::BU32(vec![])),
        (*b"Bg", AuxDesc::BF(vec![])),
    ];
    out.push(r);
    let mut r = base("Bedges");
    r.aux = vec![
        (*b"Ba", AuxDesc::BI8(I8_EDGES.to_vec())),
        (*b"Bb", AuxDesc::BU8(U8_EDGES.to_vec())),
        (*b"Bc", AuxDesc::BI16(I16_EDGES.to_vec())),
        (*b"Bd", AuxDesc::BU16(U16_EDGES.to_vec())),
        (*b"Be", AuxDesc::BI32(I32_EDGES.to_vec())),
        (*b"Bf", AuxDesc::BU32(U32_EDGES.to_vec())),
        (*b"Bg", AuxDesc::BF(f32_edges())),
    ];
    out.push(r);
    let mut r = base("Blong");
    r.aux = vec![(*b"Ba", AuxDesc::BU8((0..70_000u32).map(|i| (i % 251) as u8).collect())), (*b"Bb", AuxDesc::BI16((0..65_536i32).map(|i| (i - 32768) as i16).collect()))];
    out.push(r);
    if huge {
        for (i, n) in [65_535usize, 65_536, 70_000].into_iter().enumerate() {
            let mut r = base(&format!("huge{n}"));
            r.flags = 0;
            r.ref_id = rid;
            r.pos = Some(1000 + i as u64);
            r.mapq = Some(30);
            // alternate 1M 1I / 1M 1D so that both lengths are known; no two equal neighbours needed
            r.cigar = (0..n).map(|j| (b"MIMD=XSN"[j % 8], 1u32)).collect();
            if i == 2 {
                r.cigar[0] = (b'H', 5);
            }
            let rl = r.read_len() as usize;
            r.seq = if i == 1 { Vec::new() } else { gen_seq(&mut rng, Level::Common, rl) };
            r.qual = if i == 0 { Some(vec![40; rl]) } else { None };
            r.aux = vec![(*b"NM", AuxDesc::U16(300)), (*b"XZ", AuxDesc::Z(b"after".to_vec()))];
            out.push(r);
        }
        // a genuine two-operation `kSmN` CIGAR that is *not* a placeholder
        let mut r = base("kSmN");
        r.flags = 0;
        r.ref_id = rid;
        r.pos = Some(5);
        r.cigar = vec![(b'S', 4), (b'N', 100)];
        r.seq = b"ACGT".to_vec();
        out.push(r);
    }
    if hdr.sq.is_empty() {
        for r in out.iter_mut() {
            r.ref_id = None;
            r.mate_ref_id = None;
        }
    }
    out
}

// ------------------------------------------------------------------------------------------------
// coordinate-sorted sets

/// `n` records of the `Common` sub-model laid out in coordinate order over `hdr`'s references:
/// spans that straddle or touch 16 kb/128 kb/1 Mb/8 Mb/64 Mb bin edges, long-before-short patterns
/// inside one 16 kb window, dense runs, one reference left empty (if there are >= 3 usable ones),
/// placed unmapped reads (flag 4 with their mate's RNAME/POS) in order, unplaced unmapped reads last.
/// Every alignment lies inside its reference. Names are unique (`q<index>`).
pub fn coordinate_sorted_set(rng: &mut Rng, hdr: &HeaderDesc, n: usize, o: &RecOpts) -> Vec<RecDesc> {
    let mut o = o.clone();
    o.level = Level::Common;
    o.huge_cigar_permille = 0;
    let mut usable: Vec<usize> = hdr.sq.iter().enumerate().filter(|(_, s)| s.len >= 200).map(|(i, _)| i).collect();
    if usable.len() >= 3 {
        let drop = rng.usize_below(usable.len());
        usable.remove(drop);
    }
    let mut recs: Vec<RecDesc> = Vec::new();
    let n_unplaced = if usable.is_empty() { n } else { n / 10 };
    let n_placed = n - n_unplaced;
    let mk = |rng: &mut Rng, id: usize, pos: u64, want_span: u64, ln: u64, o: &RecOpts| -> RecDesc {
        let read_len = rng.urange(1, o.max_seq_len.max(2));
        let mut r = RecDesc { ref_id: Some(id), ..Default::default() };
        let pos = pos.clamp(1, ln);
        let room = ln - pos + 1;
        let want = want_span.clamp(1, room);
        // M..N..M with the requested total reference span (or a plain M run when it is short)
        if want >= 3 && want as usize > read_len {
            let a = (read_len / 2).max(1) as u64;
            let b = (read_len as u64 - a).max(1);
            let skip = want.saturating_sub(a + b).max(1);
            let k = if rng.bool() { b'N' } else { b'D' };
            r.cigar = vec![(b'M', a as u32), (k, skip.min((1 << 28) - 1) as u32), (b'M', b as u32)];
            if r.ref_len() > room {
                r.cigar = vec![(b'M', want.min(read_len as u64).max(1) as u32)];
            }
        } else {
            r.cigar = vec![(b'M', want as u32)];
            if rng.chance(1, 4) {
                r.cigar.insert(0, (b'S', rng.range(1, 5) as u32));
            }
        }
        r.pos = Some(pos);
        let rl = r.read_len() as usize;
        r.seq = gen_seq(rng, Level::Common, rl);
        r.qual = gen_qual(rng, Level::Common, rl);
        r.mapq = Some(*rng.pick(&[0u8, 30, 60]));
        r.flags = if rng.bool() { 0x10 } else { 0 };
        r.aux = gen_aux(rng, o);
        r
    };
    let mut budget = n_placed;
    while budget > 0 && !usable.is_empty() {
        let id = *rng.pick(&usable);
        let ln = hdr.sq[id].len;
        let sh = *rng.pick(&[14u32, 14, 17, 20, 23, 26]);
        let edge = if (1u64 << sh) < ln { (rng.range(1, ((ln - 1) >> sh) as i64) as u64) << sh } else { 0 };
        match rng.below(6) {
            // straddle an edge / touch it from either side
            0 | 1 if edge > 0 => {
                let d = rng.range(1, 120) as u64;
                let k = rng.urange(1, 4).min(budget);
                for j in 0..k {
                    let (p, s) = match (j + rng.usize_below(3)) % 3 {
                        0 => (edge + 1 - d.min(edge), 2 * d), // crosses: 0-based [edge-d, edge+d)
                        1 => (edge + 1 - d.min(edge), d),     // ends exactly at the edge
                        _ => (edge + 1, d),                   // starts exactly on the edge
                    };
                    recs.push(mk(rng, id, p, s, ln, &o));
                }
                budget -= k;
            }
            // long before short inside one window
            2 if ln > 400_000 => {
                let w = rng.range(1, (ln - 300_000) as i64) as u64;
                let long = rng.range(20_000, (ln - w).min(3_000_000) as i64) as u64;
                let k = rng.urange(2, 8).min(budget);
                recs.push(mk(rng, id, w, long, ln, &o));
                for _ in 1..k {
                    let p = w + rng.range(1, 16_000) as u64;
                    let sp = rng.range(1, 150) as u64;
                    recs.push(mk(rng, id, p, sp, ln, &o));
                }
                // and one that starts just before the long one ends
                if budget > k {
                    recs.push(mk(rng, id, w + long - 2, 50, ln, &o));
                    budget -= 1;
                }
                budget -= k;
            }
            // dense run
            3 => {
                let w = rng.range(1, ln as i64) as u64;
                let k = rng.urange(5, 40).min(budget);
                for _ in 0..k {
                    let p = w + rng.below(300);
                    let sp = rng.range(1, 100) as u64;
                    recs.push(mk(rng, id, p, sp, ln, &o));
                }
                budget -= k;
            }
            _ => {
                let p = rng.range(1, ln as i64) as u64;
                let sp = rng.range(1, 300) as u64;
                recs.push(mk(rng, id, p, sp, ln, &o));
                budget -= 1;
            }
        }
    }
    // some placed unmapped reads: copy the coordinates of a mapped record
    let placed = recs.len() / 15;
    for _ in 0..placed {
        let m = rng.pick(&recs).clone();
        let rl = rng.urange(1, o.max_seq_len.max(2));
        let seq = gen_seq(rng, Level::Common, rl);
        let r = RecDesc {
            flags: 0x4 | 0x1 | 0x40,
            ref_id: m.ref_id,
            pos: m.pos,
            mapq: Some(0),
            mate_ref_id: m.ref_id,
            mate_pos: m.pos,
            qual: gen_qual(rng, Level::Common, rl),
            seq,
            ..Default::default()
        };
        recs.push(r);
    }
    recs.sort_by_key(|r| (r.ref_id, r.pos));
    for _ in 0..n_unplaced {
        let rl = rng.urange(1, o.max_seq_len.max(2));
        let seq = gen_seq(rng, Level::Common, rl);
        recs.push(RecDesc { flags: 0x4, mapq: Some(0), qual: gen_qual(rng, Level::Common, rl), seq, ..Default::default() });
    }
    for (i, r) in recs.iter_mut().enumerate() {
        r.name = Some(format!("q{i}").into_bytes());
    }
    recs
}

/// A coarse class string of a record (for distinct-class fingerprints): which boundary classes of
/// the quantifier it hits, not its random content.
pub fn rec_class(r: &RecDesc) -> String {
    let name = match r.name.as_ref().map(|n| n.len()) {
        None => "n*".to_string(),
        Some(n @ (1 | 2 | 253 | 254)) => format!("n{n}"),
        Some(n) if n > 254 => "n>254".into(),
        Some(n) if n >= 100 => "nL".into(),
        Some(_) => "nS".into(),
    };
    let pc = |p: Option<u64>| match p {
        None => "0".to_string(),
        Some(p) if p >= (1 << 31) => ">=2^31".into(),
        Some(p) if p == (1 << 31) - 1 => "2^31-1".into(),
        Some(p) if p > (1 << 29) => ">2^29".into(),
        Some(p) if p >= (1 << 29) - 1 => format!("2^29{:+}", p as i64 - (1 << 29)),
        Some(p) if p >= (1 << 26) => "64M+".into(),
        Some(p) if p >= (1 << 14) => "16k+".into(),
        Some(_) => "lo".into(),
    };
    let cg = match r.cigar.len() {
        0 => "c0".to_string(),
        1 => "c1".into(),
        n if n < 65_535 => if n < 100 { "cF".into() } else { "cM".into() },
        n => format!("c{n}"),
    };
    let mut kinds: Vec<u8> = r.cigar.iter().map(|e| e.0).collect();
    kinds.sort();
    kinds.dedup();
    let seq = match r.seq.len() {
        0 => "s0",
        n if n % 2 == 1 => "sOdd",
        _ => "sEven",
    };
    let letters = if r.seq.iter().all(|b| BAM_BASES.contains(b)) {
        "up"
    } else if r.seq.iter().all(|b| BAM_BASES.contains(&b.to_ascii_uppercase())) {
        "lower"
    } else {
        "foreign"
    };
    format!(
        "{name}|r{}|p{}|q{}|{cg}|k{}|{seq}{letters}|Q{}|m{}|a{}",
        r.ref_id.is_some() as u8,
        pc(r.pos),
        match r.mapq {
            None | Some(255) => "*",
            Some(0) => "0",
            Some(254) => "254",
            _ => "n",
        },
        match kinds.len() {
            0 => "0",
            1 => "1",
            2..=4 => "2-4",
            _ => "5+",
        },
        r.qual.is_some() as u8,
        match (r.mate_ref_id, r.ref_id) {
            (None, _) => "*",
            (a, b) if a == b => "=",
            _ => "o",
        },
        match r.aux.len() {
            0 => "0",
            1..=2 => "1-2",
            _ => "3+",
        },
    )
}

/// One class string per auxiliary field: type code, and for arrays whether they are empty.
pub fn aux_classes(r: &RecDesc) -> Vec<String> {
    r.aux
        .iter()
        .map(|(_, v)| match v.array_len() {
            Some(0) => format!("aux:{}:empty", v.type_code()),
            Some(n) if n > 65_535 => format!("aux:{}:>65535", v.type_code()),
            _ => format!("aux:{}", v.type_code()),
        })
        .collect()
}

// ------------------------------------------------------------------------------------------------
// history-dependent reader state: "rich record followed by minimal record" adjacency

/// The optional parts of a record that `strip` can remove.
pub const OPTIONAL_FIELDS: [&str; 11] = ["name", "ref", "pos", "mapq", "cigar", "mate_ref", "mate_pos", "tlen", "seq", "qual", "aux"];

/// `r` without the optional part `field` (one of `OPTIONAL_FIELDS`; "seq" also removes QUAL and
/// makes the CIGAR read length irrelevant by clearing nothing else; "cigar" keeps SEQ, which is
/// legal: without CIGAR SEQ is free). Unknown names leave the record unchanged.
pub fn strip(r: &RecDesc, field: &str) -> RecDesc {
    let mut s = r.clone();
    match field {
        "name" => s.name = None,
        "ref" => s.ref_id = None,
        "pos" => s.pos = None,
        "mapq" => s.mapq = None,
        "cigar" => s.cigar.clear(),
        "mate_ref" => s.mate_ref_id = None,
        "mate_pos" => s.mate_pos = None,
        "tlen" => s.tlen = 0,
        "seq" => {
            s.seq.clear();
            s.qual = None;
        }
        "qual" => s.qual = None,
        "aux" => s.aux.clear(),
        _ => {}
    }
    s
}

/// The record with nothing in it: `* 4 * 0 255 * * 0 0 * *`.
pub fn minimal_record() -> RecDesc {
    RecDesc { flags: 0x4, ..Default::default() }
}

/// A record with *every* optional part present (name, reference, POS, MAPQ, CIGAR, mate, TLEN, SEQ,
/// QUAL, several aux fields incl. arrays). `size` scales the variable-length parts (name length,
/// number of operations, bases, aux fields, array elements), so that "long followed by short" can
/// be laid out. Needs a non-empty dictionary for the reference parts (otherwise they stay `None`).
pub fn rich_record(hdr: &HeaderDesc, size: usize) -> RecDesc {
    let size = size.max(1);
    let rid = if hdr.sq.is_empty() { None } else { Some(hdr.sq.len() - 1) };
    let mid = if hdr.sq.is_empty() { None } else { Some(0) };
    let mut cigar: Vec<(u8, u32)> = vec![(b'S', 1)];
    for j in 0..size {
        cigar.push((b"M=X"[j % 3], 2));
        cigar.push((b"DNIP"[j % 4], 1));
    }
    cigar.push((b'M', 1));
    let mut r = RecDesc {
        name: Some((0..(3 * size).min(254)).map(|j| b"rich:Name/0123456789"[j % 20]).collect()),
        flags: 0x1 | 0x2 | 0x10 | 0x40,
        ref_id: rid,
        pos: Some(1000 + size as u64),
        mapq: Some(42),
        cigar,
        mate_ref_id: mid,
        mate_pos: Some(2000 + size as u64),
        tlen: 300 + size as i32,
        ..Default::default()
    };
    let rl = r.read_len() as usize;
    r.seq = (0..rl).map(|j| b"ACGTNacgtRYKM"[j % 13]).collect();
    r.qual = Some((0..rl).map(|j| (10 + j % 60) as u8).collect());
    r.aux = vec![
        (*b"NM", AuxDesc::U8(3)),
        (*b"XZ", AuxDesc::Z((0..4 * size).map(|j| b"text value,"[j % 11]).collect())),
        (*b"XB", AuxDesc::BI16((0..2 * size as i16).collect())),
        (*b"XH", AuxDesc::H(b"CAFE".repeat(size))),
        (*b"XF", AuxDesc::BF((0..size).map(|j| j as f32 + 0.5).collect())),
        (*b"XA", AuxDesc::A(b'q')),
        (*b"Xi", AuxDesc::I32(-70_000)),
    ];
    if size > 1 {
        for j in 0..size.min(20) {
            r.aux.push(([b'Y', b"abcdefghijklmnopqrst"[j]], AuxDesc::U16(300 + j as u16)));
        }
    }
    r
}

/// Deterministic corpus for history-dependent reader state (reused `RecordBuf` / lazy record): for
/// every optional part, `rich, rich-without-it, rich` (present -> missing -> present), then
/// `rich, minimal, rich, minimal`, then long -> short -> long for every variable-length part
/// (name, CIGAR, SEQ/QUAL, aux count, string and array lengths), then a placed read followed by an
/// unplaced one and back. Names are made distinct by a suffix where a name is present.
pub fn adjacency_corpus(hdr: &HeaderDesc) -> Vec<RecDesc> {
    let mut out: Vec<RecDesc> = Vec::new();
    let rich = rich_record(hdr, 4);
    for f in OPTIONAL_FIELDS {
        out.push(rich.clone());
        out.push(strip(&rich, f));
        out.push(rich.clone());
    }
    for _ in 0..2 {
        out.push(rich.clone());
        out.push(minimal_record());
    }
    // long -> short -> long, as a whole and part by part
    let (big, small) = (rich_record(hdr, 12), rich_record(hdr, 1));
    out.extend([big.clone(), small.clone(), big.clone()]);
    let parts: [fn(&mut RecDesc, &RecDesc); 5] = [
        |d, s| d.name = s.name.clone(),
        |d, s| {
            // fewer operations with the same read length: one M run
            let _ = s;
            let rl = d.read_len() as u32;
            d.cigar = vec![(b'M', rl)];
        },
        |d, s| {
            d.cigar = s.cigar.clone();
            d.seq = s.seq.clone();
            d.qual = s.qual.clone();
        },
        |d, s| d.aux = s.aux.clone(),
        |d, _| d.aux.truncate(1),
    ];
    for p in parts {
        let mut v = big.clone();
        p(&mut v, &small);
        out.extend([big.clone(), v, big.clone()]);
    }
    // everything but SEQ/QUAL missing after a rich record, and QUAL only missing
    let mut only_seq = minimal_record();
    only_seq.seq = b"ACG".to_vec();
    out.extend([rich.clone(), only_seq.clone(), rich.clone()]);
    only_seq.qual = Some(vec![1, 2, 3]);
    out.extend([only_seq, minimal_record(), rich.clone()]);
    // aux only
    let mut only_aux = minimal_record();
    only_aux.aux = vec![(*b"XZ", AuxDesc::Z(b"z".to_vec()))];
    out.extend([rich.clone(), only_aux, minimal_record()]);
    for (i, r) in out.iter_mut().enumerate() {
        if let Some(n) = r.name.as_mut() {
            let suffix = format!(".{i}");
            n.truncate(254 - suffix.len());
            n.extend_from_slice(suffix.as_bytes());
        }
    }
    out
}

/// `n` records like `gen_record`, with deliberate adjacency: after about every 6th record a variant
/// of it follows that lacks a random subset of its optional parts (or all of them), so that every
/// "present -> missing" transition occurs with varied content. Under `Level::Common` the follower
/// is an unplaced unmapped read (the consistent way of having nothing).
pub fn gen_record_batch(rng: &mut Rng, hdr: &HeaderDesc, o: &RecOpts, n: usize) -> Vec<RecDesc> {
    let mut out: Vec<RecDesc> = Vec::with_capacity(n);
    while out.len() < n {
        let r = gen_record(rng, hdr, o);
        out.push(r.clone());
        if out.len() < n && rng.chance(1, 6) {
            let mut s = match rng.below(4) {
                0 => minimal_record(),
                _ => {
                    let mut s = r.clone();
                    for f in OPTIONAL_FIELDS {
                        if rng.chance(1, 2) {
                            s = strip(&s, f);
                        }
                    }
                    s
                }
            };
            if o.level == Level::Common {
                s = RecDesc { name: r.name.clone(), flags: 0x4, mapq: Some(0), seq: r.seq.clone(), qual: r.qual.clone(), ..Default::default() };
            } else if let Some(nm) = s.name.as_mut() {
                // a different, shorter name
                nm.truncate((nm.len() / 2).max(1));
                if nm == b"*" {
                    nm[0] = b'x';
                }
            }
            out.push(s);
        }
    }
    out
}
