//! Plain descriptions of SAM headers and alignment records. No noodles type appears in here: the
//! descriptions are what oracles are computed from.

pub type Tag2 = [u8; 2];

/// One typed auxiliary value. The variant is the *declared* type (BAM keeps it, SAM text keeps only
/// `A i f Z H B:<subtype>`).
#[derive(Clone, Debug)]
pub enum AuxDesc {
    A(u8),
    I8(i8),
    U8(u8),
    I16(i16),
    U16(u16),
    I32(i32),
    U32(u32),
    F(f32),
    Z(Vec<u8>),
    /// hex string, stored as its text (`[0-9A-F]*`, even length when valid)
    H(Vec<u8>),
    BI8(Vec<i8>),
    BU8(Vec<u8>),
    BI16(Vec<i16>),
    BU16(Vec<u16>),
    BI32(Vec<i32>),
    BU32(Vec<u32>),
    BF(Vec<f32>),
}

impl AuxDesc {
    /// BAM type letter(s): `A c C s S i I f Z H` or `B` + subtype letter.
    pub fn type_code(&self) -> &'static str {
        match self {
            AuxDesc::A(_) => "A",
            AuxDesc::I8(_) => "c",
            AuxDesc::U8(_) => "C",
            AuxDesc::I16(_) => "s",
            AuxDesc::U16(_) => "S",
            AuxDesc::I32(_) => "i",
            AuxDesc::U32(_) => "I",
            AuxDesc::F(_) => "f",
            AuxDesc::Z(_) => "Z",
            AuxDesc::H(_) => "H",
            AuxDesc::BI8(_) => "Bc",
            AuxDesc::BU8(_) => "BC",
            AuxDesc::BI16(_) => "Bs",
            AuxDesc::BU16(_) => "BS",
            AuxDesc::BI32(_) => "Bi",
            AuxDesc::BU32(_) => "BI",
            AuxDesc::BF(_) => "Bf",
        }
    }

    /// Numeric value of a scalar integer field.
    pub fn as_int(&self) -> Option<i64> {
        Some(match self {
            AuxDesc::I8(n) => *n as i64,
            AuxDesc::U8(n) => *n as i64,
            AuxDesc::I16(n) => *n as i64,
            AuxDesc::U16(n) => *n as i64,
            AuxDesc::I32(n) => *n as i64,
            AuxDesc::U32(n) => *n as i64,
            _ => return None,
        })
    }

    /// Number of elements of an array value.
    pub fn array_len(&self) -> Option<usize> {
        Some(match self {
            AuxDesc::BI8(v) => v.len(),
            AuxDesc::BU8(v) => v.len(),
            AuxDesc::BI16(v) => v.len(),
            AuxDesc::BU16(v) => v.len(),
            AuxDesc::BI32(v) => v.len(),
            AuxDesc::BU32(v) => v.len(),
            AuxDesc::BF(v) => v.len(),
            _ => return None,
        })
    }
}

/// One alignment record of the SAM data model. Out-of-range values are representable on purpose
/// (rejection cases): names of any length, positions up to 2^64-1, reference ids beyond the
/// dictionary, CIGAR lengths up to 2^32-1, quality bytes 0..=255 of any count.
#[derive(Clone, Debug, Default)]
pub struct RecDesc {
    /// `None` = `*`
    pub name: Option<Vec<u8>>,
    pub flags: u16,
    /// index into `HeaderDesc::sq`
    pub ref_id: Option<usize>,
    /// 1-based; `None` = 0 in SAM / -1 in BAM. Never `Some(0)`.
    pub pos: Option<u64>,
    /// `None` and `Some(255)` both mean "missing" (SAMv1 1.4.5)
    pub mapq: Option<u8>,
    /// (operation character out of `MIDNSHP=X`, length)
    pub cigar: Vec<(u8, u32)>,
    pub mate_ref_id: Option<usize>,
    pub mate_pos: Option<u64>,
    pub tlen: i32,
    /// bases as text; empty = `*`
    pub seq: Vec<u8>,
    /// raw scores (not +33); `None` = `*`
    pub qual: Option<Vec<u8>>,
    pub aux: Vec<(Tag2, AuxDesc)>,
}

impl RecDesc {
    /// Σ lengths of M/I/S/=/X operations.
    pub fn read_len(&self) -> u64 {
        self.cigar.iter().filter(|(k, _)| matches!(k, b'M' | b'I' | b'S' | b'=' | b'X')).map(|(_, n)| *n as u64).sum()
    }

    /// Σ lengths of M/D/N/=/X operations.
    pub fn ref_len(&self) -> u64 {
        self.cigar.iter().filter(|(k, _)| matches!(k, b'M' | b'D' | b'N' | b'=' | b'X')).map(|(_, n)| *n as u64).sum()
    }
}

/// `(start, end)`, 1-based inclusive, per SAMv1: end = POS + max(Σ M/D/N/=/X, 1) − 1. `None` for a
/// record without POS.
pub fn span(r: &RecDesc) -> Option<(u64, u64)> {
    let start = r.pos?;
    Some((start, start + r.ref_len().max(1) - 1))
}

#[derive(Clone, Debug, Default, PartialEq, Eq)]
pub struct HdDesc {
    /// `VN:<major>.<minor>`
    pub version: (u32, u32),
    /// all other tags in order (SO, GO, SS and user tags)
    pub tags: Vec<(Tag2, Vec<u8>)>,
}

#[derive(Clone, Debug, Default, PartialEq, Eq)]
pub struct SqDesc {
    pub name: Vec<u8>,
    /// LN, 1..=2^31-1 when valid
    pub len: u64,
    /// all tags other than SN/LN in order
    pub tags: Vec<(Tag2, Vec<u8>)>,
}

/// An `@RG` or `@PG` line: the ID plus all other tags in order.
#[derive(Clone, Debug, Default, PartialEq, Eq)]
pub struct MapDesc {
    pub id: Vec<u8>,
    pub tags: Vec<(Tag2, Vec<u8>)>,
}

#[derive(Clone, Debug, Default, PartialEq, Eq)]
pub struct HeaderDesc {
    pub hd: Option<HdDesc>,
    pub sq: Vec<SqDesc>,
    pub rg: Vec<MapDesc>,
    pub pg: Vec<MapDesc>,
    pub co: Vec<Vec<u8>>,
}

impl HeaderDesc {
    /// The same header without its reference dictionary.
    pub fn without_sq(&self) -> HeaderDesc {
        HeaderDesc { sq: Vec::new(), ..self.clone() }
    }
}

/// The 16 letters of the BAM 4-bit alphabet in code order.
pub const BAM_BASES: &[u8; 16] = b"=ACMGRSVTWYHKDBN";

pub const CIGAR_OPS: &[u8; 9] = b"MIDNSHP=X";

/// What SEQ reads back as after a trip through BAM (SAMv1 4.2.3: case-insensitive codes, every
/// other character maps to N).
pub fn bam_bases(seq: &[u8]) -> Vec<u8> {
    seq.iter()
        .map(|b| {
            let u = b.to_ascii_uppercase();
            if BAM_BASES.contains(&u) { u } else { b'N' }
        })
        .collect()
}

fn lossy(b: &[u8], max: usize) -> String {
    let s: String = b.iter().take(max).map(|c| if (0x20..0x7f).contains(c) { *c as char } else { '.' }).collect();
    if b.len() > max { format!("{s}…[{} bytes]", b.len()) } else { s }
}

/// A short SAM-like rendering of a record for diagnostics (long fields are cut; reference ids are
/// printed as `#<id>`).
pub fn summary(r: &RecDesc) -> String {
    let id = |x: Option<usize>| x.map(|i| format!("#{i}")).unwrap_or_else(|| "*".into());
    let cigar = if r.cigar.is_empty() {
        "*".to_string()
    } else {
        let head: String = r.cigar.iter().take(8).map(|(k, n)| format!("{n}{}", *k as char)).collect();
        if r.cigar.len() > 8 { format!("{head}…[{} ops]", r.cigar.len()) } else { head }
    };
    let aux: Vec<String> = r
        .aux
        .iter()
        .map(|(t, v)| {
            let body = match v {
                AuxDesc::A(c) => format!("A:{}", lossy(&[*c], 1)),
                AuxDesc::Z(s) => format!("Z:{}", lossy(s, 40)),
                AuxDesc::H(s) => format!("H:{}", lossy(s, 40)),
                AuxDesc::F(f) => format!("f:{f:e}"),
                other => match (other.as_int(), other.array_len()) {
                    (Some(n), _) => format!("{}:{n}", other.type_code()),
                    (_, Some(n)) => {
                        let s = format!("{other:?}");
                        format!("{}[{n}]:{}", other.type_code(), if s.len() > 50 { format!("{}…", &s[..50]) } else { s })
                    }
                    _ => format!("{other:?}"),
                },
            };
            format!("{}:{body}", lossy(t, 2))
        })
        .collect();
    format!(
        "name={} flag={:#x} ref={} pos={} mapq={} cigar={} mate={}:{} tlen={} seq={} qual={} aux=[{}]",
        r.name.as_deref().map(|n| lossy(n, 40)).unwrap_or_else(|| "*".into()),
        r.flags,
        id(r.ref_id),
        r.pos.unwrap_or(0),
        r.mapq.map(|q| q.to_string()).unwrap_or_else(|| "*".into()),
        cigar,
        id(r.mate_ref_id),
        r.mate_pos.unwrap_or(0),
        r.tlen,
        if r.seq.is_empty() { "*".into() } else { lossy(&r.seq, 40) },
        match &r.qual {
            None => "*".to_string(),
            Some(q) => format!("{} scores {:?}…", q.len(), &q[..q.len().min(6)]),
        },
        aux.join(" "),
    )
}
