//! Conversions between the plain descriptions and noodles' in-memory types. Values are built
//! through noodles' public builders/setters, never through its parsers.

use std::num::NonZero;

use bstr::BString;
use noodles_core::Position;
use noodles_sam::{
    self as sam,
    alignment::{
        RecordBuf,
        record::{
            Flags, MappingQuality,
            cigar::{Op, op::Kind},
            data::field::Tag,
        },
        record_buf::{
            Cigar, Data, QualityScores, Sequence,
            data::field::{Value, value::Array},
        },
    },
    header::record::value::{
        Map,
        map::{self, Program, ReadGroup, ReferenceSequence, header::Version, tag::Other},
    },
};

use crate::desc::*;

pub fn kind_of(c: u8) -> Option<Kind> {
    Some(match c {
        b'M' => Kind::Match,
        b'I' => Kind::Insertion,
        b'D' => Kind::Deletion,
        b'N' => Kind::Skip,
        b'S' => Kind::SoftClip,
        b'H' => Kind::HardClip,
        b'P' => Kind::Pad,
        b'=' => Kind::SequenceMatch,
        b'X' => Kind::SequenceMismatch,
        _ => return None,
    })
}

pub fn char_of(k: Kind) -> u8 {
    match k {
        Kind::Match => b'M',
        Kind::Insertion => b'I',
        Kind::Deletion => b'D',
        Kind::Skip => b'N',
        Kind::SoftClip => b'S',
        Kind::HardClip => b'H',
        Kind::Pad => b'P',
        Kind::SequenceMatch => b'=',
        Kind::SequenceMismatch => b'X',
    }
}

pub fn to_value(a: &AuxDesc) -> Value {
    match a {
        AuxDesc::A(c) => Value::Character(*c),
        AuxDesc::I8(n) => Value::Int8(*n),
        AuxDesc::U8(n) => Value::UInt8(*n),
        AuxDesc::I16(n) => Value::Int16(*n),
        AuxDesc::U16(n) => Value::UInt16(*n),
        AuxDesc::I32(n) => Value::Int32(*n),
        AuxDesc::U32(n) => Value::UInt32(*n),
        AuxDesc::F(n) => Value::Float(*n),
        AuxDesc::Z(s) => Value::String(BString::from(s.clone())),
        AuxDesc::H(s) => Value::Hex(BString::from(s.clone())),
        AuxDesc::BI8(v) => Value::Array(Array::Int8(v.clone())),
        AuxDesc::BU8(v) => Value::Array(Array::UInt8(v.clone())),
        AuxDesc::BI16(v) => Value::Array(Array::Int16(v.clone())),
        AuxDesc::BU16(v) => Value::Array(Array::UInt16(v.clone())),
        AuxDesc::BI32(v) => Value::Array(Array::Int32(v.clone())),
        AuxDesc::BU32(v) => Value::Array(Array::UInt32(v.clone())),
        AuxDesc::BF(v) => Value::Array(Array::Float(v.clone())),
    }
}

pub fn describe_value(v: &Value) -> AuxDesc {
    match v {
        Value::Character(c) => AuxDesc::A(*c),
        Value::Int8(n) => AuxDesc::I8(*n),
        Value::UInt8(n) => AuxDesc::U8(*n),
        Value::Int16(n) => AuxDesc::I16(*n),
        Value::UInt16(n) => AuxDesc::U16(*n),
        Value::Int32(n) => AuxDesc::I32(*n),
        Value::UInt32(n) => AuxDesc::U32(*n),
        Value::Float(n) => AuxDesc::F(*n),
        Value::String(s) => AuxDesc::Z(s.to_vec()),
        Value::Hex(s) => AuxDesc::H(s.to_vec()),
        Value::Array(Array::Int8(v)) => AuxDesc::BI8(v.clone()),
        Value::Array(Array::UInt8(v)) => AuxDesc::BU8(v.clone()),
        Value::Array(Array::Int16(v)) => AuxDesc::BI16(v.clone()),
        Value::Array(Array::UInt16(v)) => AuxDesc::BU16(v.clone()),
        Value::Array(Array::Int32(v)) => AuxDesc::BI32(v.clone()),
        Value::Array(Array::UInt32(v)) => AuxDesc::BU32(v.clone()),
        Value::Array(Array::Float(v)) => AuxDesc::BF(v.clone()),
    }
}

/// Builds the noodles record. The header is not consulted (reference ids are indices); it is part
/// of the signature so that callers do not depend on that.
///
/// What the in-memory model cannot hold is mapped as the formats define it: MAPQ 255 is "missing"
/// (`MappingQuality::new(255)` is `None`); a flag bit above 0x800 would be dropped by `Flags::from`
/// (the generators never set one). Duplicate tags would be collapsed by `Data` (never generated).
pub fn to_record_buf(r: &RecDesc, _hdr: &HeaderDesc) -> RecordBuf {
    let mut b = RecordBuf::builder().set_flags(Flags::from(r.flags)).set_template_length(r.tlen);
    if let Some(n) = &r.name {
        b = b.set_name(BString::from(n.clone()));
    }
    if let Some(id) = r.ref_id {
        b = b.set_reference_sequence_id(id);
    }
    if let Some(p) = r.pos.and_then(|p| Position::new(p as usize)) {
        b = b.set_alignment_start(p);
    }
    if let Some(q) = r.mapq.and_then(MappingQuality::new) {
        b = b.set_mapping_quality(q);
    }
    let ops: Vec<Op> = r.cigar.iter().map(|(k, n)| Op::new(kind_of(*k).expect("CIGAR kind"), *n as usize)).collect();
    b = b.set_cigar(Cigar::from(ops));
    if let Some(id) = r.mate_ref_id {
        b = b.set_mate_reference_sequence_id(id);
    }
    if let Some(p) = r.mate_pos.and_then(|p| Position::new(p as usize)) {
        b = b.set_mate_alignment_start(p);
    }
    b = b.set_sequence(Sequence::from(r.seq.clone()));
    if let Some(q) = &r.qual {
        b = b.set_quality_scores(QualityScores::from(q.clone()));
    }
    let mut data = Data::default();
    for (t, v) in &r.aux {
        data.insert(Tag::new(t[0], t[1]), to_value(v));
    }
    b.set_data(data).build()
}

/// Describes what noodles holds in a `RecordBuf` in the plain model (the inverse of
/// `to_record_buf`; an empty quality vector is described as `None`).
pub fn describe_record(rb: &RecordBuf) -> RecDesc {
    RecDesc {
        name: rb.name().map(|n| n.to_vec()),
        flags: u16::from(rb.flags()),
        ref_id: rb.reference_sequence_id(),
        pos: rb.alignment_start().map(|p| usize::from(p) as u64),
        mapq: rb.mapping_quality().map(u8::from),
        cigar: rb.cigar().as_ref().iter().map(|op| (char_of(op.kind()), op.len() as u32)).collect(),
        mate_ref_id: rb.mate_reference_sequence_id(),
        mate_pos: rb.mate_alignment_start().map(|p| usize::from(p) as u64),
        tlen: rb.template_length(),
        seq: rb.sequence().as_ref().to_vec(),
        qual: if rb.quality_scores().as_ref().is_empty() { None } else { Some(rb.quality_scores().as_ref().to_vec()) },
        aux: rb.data().iter().map(|(t, v)| (*t.as_ref(), describe_value(v))).collect(),
    }
}

fn other<S>(t: Tag2) -> Other<S>
where
    S: map::tag::Standard,
{
    Other::try_from(t).unwrap_or_else(|_| panic!("{:?} is a structural tag of this line kind", String::from_utf8_lossy(&t)))
}

/// Builds the noodles header through `Header::builder`, `Map::builder`, `set_version`,
/// `set_length`, `insert`, `add_*`. Panics on what the typed model cannot express (LN = 0, a
/// structural tag VN/SN/LN/ID among the "other" tags) — the generators never produce those.
pub fn to_header(h: &HeaderDesc) -> sam::Header {
    let mut b = sam::Header::builder();
    if let Some(hd) = &h.hd {
        let mut m = Map::<map::Header>::builder().set_version(Version::new(hd.version.0, hd.version.1));
        for (t, v) in &hd.tags {
            m = m.insert(other(*t), v.clone());
        }
        b = b.set_header(m.build().expect("@HD"));
    }
    for sq in &h.sq {
        let mut m = Map::<ReferenceSequence>::builder().set_length(NonZero::new(sq.len as usize).expect("LN > 0"));
        for (t, v) in &sq.tags {
            m = m.insert(other(*t), v.clone());
        }
        b = b.add_reference_sequence(sq.name.clone(), m.build().expect("@SQ"));
    }
    for rg in &h.rg {
        let mut m = Map::<ReadGroup>::builder();
        for (t, v) in &rg.tags {
            m = m.insert(other(*t), v.clone());
        }
        b = b.add_read_group(rg.id.clone(), m.build().expect("@RG"));
    }
    for pg in &h.pg {
        let mut m = Map::<Program>::builder();
        for (t, v) in &pg.tags {
            m = m.insert(other(*t), v.clone());
        }
        b = b.add_program(pg.id.clone(), m.build().expect("@PG"));
    }
    for c in &h.co {
        b = b.add_comment(c.clone());
    }
    b.build()
}

/// Describes a noodles header in the plain model (inverse of `to_header`).
pub fn describe_header(h: &sam::Header) -> HeaderDesc {
    let mut d = HeaderDesc::default();
    if let Some(hd) = h.header() {
        d.hd = Some(HdDesc {
            version: (hd.version().major(), hd.version().minor()),
            tags: hd.other_fields().iter().map(|(t, v)| (*t.as_ref(), v.to_vec())).collect(),
        });
    }
    for (name, m) in h.reference_sequences() {
        d.sq.push(SqDesc {
            name: name.to_vec(),
            len: usize::from(m.length()) as u64,
            tags: m.other_fields().iter().map(|(t, v)| (*t.as_ref(), v.to_vec())).collect(),
        });
    }
    for (id, m) in h.read_groups() {
        d.rg.push(MapDesc { id: id.to_vec(), tags: m.other_fields().iter().map(|(t, v)| (*t.as_ref(), v.to_vec())).collect() });
    }
    for (id, m) in h.programs().as_ref() {
        d.pg.push(MapDesc { id: id.to_vec(), tags: m.other_fields().iter().map(|(t, v)| (*t.as_ref(), v.to_vec())).collect() });
    }
    for c in h.comments() {
        d.co.push(c.to_vec());
    }
    d
}

/// Describes a lazily decoded value (`sam::alignment::record::data::field::Value`), iterating array
/// values through the `Values` trait; `Values::len()` must agree with the number of items.
pub fn describe_lazy_value(v: &sam::alignment::record::data::field::Value<'_>) -> Result<AuxDesc, String> {
    use sam::alignment::record::data::field::{Value as V, value::Array as A};
    macro_rules! arr {
        ($vals:expr, $ctor:expr, $what:expr) => {{
            let items = $vals.iter().collect::<Result<Vec<_>, _>>().map_err(|e| format!("array {} item: {e}", $what))?;
            if items.len() != $vals.len() {
                return Err(format!("array {}: len() = {} but the iterator yields {} items", $what, $vals.len(), items.len()));
            }
            $ctor(items)
        }};
    }
    Ok(match v {
        V::Character(c) => AuxDesc::A(*c),
        V::Int8(n) => AuxDesc::I8(*n),
        V::UInt8(n) => AuxDesc::U8(*n),
        V::Int16(n) => AuxDesc::I16(*n),
        V::UInt16(n) => AuxDesc::U16(*n),
        V::Int32(n) => AuxDesc::I32(*n),
        V::UInt32(n) => AuxDesc::U32(*n),
        V::Float(n) => AuxDesc::F(*n),
        V::String(s) => AuxDesc::Z(s.to_vec()),
        V::Hex(s) => AuxDesc::H(s.to_vec()),
        V::Array(A::Int8(x)) => arr!(x, AuxDesc::BI8, "c"),
        V::Array(A::UInt8(x)) => arr!(x, AuxDesc::BU8, "C"),
        V::Array(A::Int16(x)) => arr!(x, AuxDesc::BI16, "s"),
        V::Array(A::UInt16(x)) => arr!(x, AuxDesc::BU16, "S"),
        V::Array(A::Int32(x)) => arr!(x, AuxDesc::BI32, "i"),
        V::Array(A::UInt32(x)) => arr!(x, AuxDesc::BU32, "I"),
        V::Array(A::Float(x)) => arr!(x, AuxDesc::BF, "f"),
    })
}

/// Describes any alignment record through the `sam::alignment::Record` trait only (every accessor
/// of the trait is called: name, flags, reference_sequence_id, alignment_start, mapping_quality,
/// cigar [len + iter], mate_*, template_length, sequence [len, iter, get(i)], quality_scores [len,
/// iter], data [iter, get(tag), is_empty]). Inconsistencies *between* the accessors of one field
/// (len vs iterator, get vs iterator) are reported as `Err("<accessor>: ...")`.
pub fn describe_alignment_record<R>(r: &R, h: &sam::Header) -> Result<RecDesc, String>
where
    R: sam::alignment::Record + ?Sized,
{
    let mut d = RecDesc { name: r.name().map(|n| n.to_vec()), ..Default::default() };
    d.flags = u16::from(r.flags().map_err(|e| format!("flags: {e}"))?);
    d.ref_id = r.reference_sequence_id(h).transpose().map_err(|e| format!("reference_sequence_id: {e}"))?;
    d.pos = r.alignment_start().transpose().map_err(|e| format!("alignment_start: {e}"))?.map(|p| usize::from(p) as u64);
    d.mapq = r.mapping_quality().transpose().map_err(|e| format!("mapping_quality: {e}"))?.map(u8::from);
    {
        let c = r.cigar();
        for op in c.iter() {
            let op = op.map_err(|e| format!("cigar: {e}"))?;
            d.cigar.push((char_of(op.kind()), u32::try_from(op.len()).map_err(|_| format!("cigar: length {} > u32", op.len()))?));
        }
        if c.len() != d.cigar.len() {
            return Err(format!("cigar: len() = {} but the iterator yields {} operations", c.len(), d.cigar.len()));
        }
        if c.is_empty() != d.cigar.is_empty() {
            return Err(format!("cigar: is_empty() = {} with {} operations", c.is_empty(), d.cigar.len()));
        }
    }
    d.mate_ref_id = r.mate_reference_sequence_id(h).transpose().map_err(|e| format!("mate_reference_sequence_id: {e}"))?;
    d.mate_pos = r.mate_alignment_start().transpose().map_err(|e| format!("mate_alignment_start: {e}"))?.map(|p| usize::from(p) as u64);
    d.tlen = r.template_length().map_err(|e| format!("template_length: {e}"))?;
    {
        let s = r.sequence();
        d.seq = s.iter().collect();
        if s.len() != d.seq.len() {
            return Err(format!("sequence: len() = {} but the iterator yields {} bases", s.len(), d.seq.len()));
        }
        if s.is_empty() != d.seq.is_empty() {
            return Err(format!("sequence: is_empty() = {} with {} bases", s.is_empty(), d.seq.len()));
        }
        for (i, b) in d.seq.iter().enumerate() {
            if s.get(i) != Some(*b) {
                return Err(format!("sequence: get({i}) = {:?} but the iterator yields {:?} (length {})", s.get(i).map(|c| c as char), *b as char, d.seq.len()));
            }
        }
        if s.get(d.seq.len()).is_some() {
            return Err(format!("sequence: get(len = {}) is not None", d.seq.len()));
        }
    }
    {
        let q = r.quality_scores();
        let v = q.iter().collect::<Result<Vec<u8>, _>>().map_err(|e| format!("quality_scores: {e}"))?;
        if q.len() != v.len() {
            return Err(format!("quality_scores: len() = {} but the iterator yields {} scores", q.len(), v.len()));
        }
        if q.is_empty() != v.is_empty() {
            return Err(format!("quality_scores: is_empty() = {} with {} scores", q.is_empty(), v.len()));
        }
        d.qual = if v.is_empty() { None } else { Some(v) };
    }
    {
        let data = r.data();
        for f in data.iter() {
            let (t, v) = f.map_err(|e| format!("data: {e}"))?;
            d.aux.push((*t.as_ref(), describe_lazy_value(&v).map_err(|e| format!("data: {e}"))?));
        }
        if data.is_empty() != d.aux.is_empty() {
            return Err(format!("data: is_empty() = {} with {} fields", data.is_empty(), d.aux.len()));
        }
        for (t, v) in &d.aux {
            let tag = Tag::new(t[0], t[1]);
            match data.get(&tag) {
                Some(Ok(g)) => {
                    let g = describe_lazy_value(&g).map_err(|e| format!("data.get: {e}"))?;
                    if format!("{g:?}") != format!("{v:?}") {
                        return Err(format!("data: get({}) disagrees with the iterator", String::from_utf8_lossy(t)));
                    }
                }
                Some(Err(e)) => return Err(format!("data: get({}) fails: {e}", String::from_utf8_lossy(t))),
                None => return Err(format!("data: get({}) is None for a tag the iterator yields", String::from_utf8_lossy(t))),
            }
        }
    }
    Ok(d)
}
